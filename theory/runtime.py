"""Runtime-object side of the specification theory (DESIGN.md §3.1/3.2): instance tests, promotion, truth.

`O` (runtime objects) only occurs under quantifiers and as first argument of these predicates; class
objects and literals are analyzer-side `V` terms (what TypedValue.typ / KnownValue.val / Constraint.value hold)."""
import z3
from pyvc.dsl import REG, spec_function
from pyvc.core import S_bool, V, O, BoolS, IntS, CLASSES, CONSTS, typeof, sub, unB, fresh, NONE
from pyvc.values import box, fld, uf
from theory.values import mem_f, lit_f, same_lit_f

inst_f = z3.Function("inst", O, V, BoolS)        # isinstance(o, C) at run time, C a class object
promo_f = z3.Function("promo", O, V, BoolS)      # o is accepted by class T only through PEP 484 numeric promotion
truth_f = z3.Function("truth", O, BoolS)         # bool(o)
isobj_f = z3.Function("is_obj", O, V, BoolS)     # o is (identical to) the analyzer-side object x


@spec_function()
def inst(ex, st, o, cls):
    return S_bool(inst_f(o.t, box(cls, st)))


@spec_function()
def promo(ex, st, o, cls):
    return S_bool(promo_f(o.t, box(cls, st)))


@spec_function()
def truth(ex, st, o):
    return S_bool(truth_f(o.t))


@spec_function()
def is_obj(ex, st, o, x):
    return S_bool(isobj_f(o.t, box(x, st)))


def runtime_axioms(used):
    ax = []
    o = z3.Const("ro", O)
    v, c, d, x = z3.Const("rv", V), z3.Const("rc", V), z3.Const("rd", V), z3.Const("rx", V)
    issub = uf("fn:pyanalyze.safe.safe_issubclass", V, V, V)
    isinst_dyn = uf("isinstance_dyn", V, V, BoolS)
    if "TypedValue" in used:
        tv = CLASSES.const("TypedValue")
        # gamma(TypedValue(T)) for a real class T: instances, plus numeric promotion (a TypedValue subclass such as
        # GenericValue / SequenceValue restricts further: only the inclusion is stated for those)
        ax.append(z3.ForAll([v, o], z3.Implies(typeof(v) == tv, mem_f(o, v) == z3.Or(inst_f(o, fld("typ")(v)), promo_f(o, fld("typ")(v)))), patterns=[mem_f(o, v)]))
        ax.append(z3.ForAll([v, o], z3.Implies(z3.And(sub(typeof(v), tv), mem_f(o, v)), z3.Or(inst_f(o, fld("typ")(v)), promo_f(o, fld("typ")(v)))), patterns=[mem_f(o, v)]))
    # subclassing is inclusion of instances
    ax.append(z3.ForAll([c, d, o], z3.Implies(z3.And(unB(issub(c, d)), inst_f(o, c)), inst_f(o, d)), patterns=[z3.MultiPattern(issub(c, d), inst_f(o, c))]))
    # promotion never coincides with a real instance test of the same class
    ax.append(z3.ForAll([c, o], z3.Implies(promo_f(o, c), z3.Not(inst_f(o, c))), patterns=[promo_f(o, c)]))
    if "KnownValue" in used:
        # a runtime object that is the literal x passes exactly the isinstance tests x passes; identity implies literal equality
        ax.append(z3.ForAll([x, c, o], z3.Implies(lit_f(o, x), inst_f(o, c) == isinst_dyn(x, c)), patterns=[z3.MultiPattern(lit_f(o, x), inst_f(o, c))]))
        ax.append(z3.ForAll([x, c, o], z3.Implies(lit_f(o, x), inst_f(o, c) == isinst_dyn(x, c)), patterns=[z3.MultiPattern(lit_f(o, x), isinst_dyn(x, c))]))
        ax.append(z3.ForAll([x, o], z3.Implies(isobj_f(o, x), lit_f(o, x)), patterns=[isobj_f(o, x)]))
        y = z3.Const("ry", V)
        ax.append(z3.ForAll([x, y, o], z3.Implies(z3.And(isobj_f(o, x), isobj_f(o, y)), x == y), patterns=[z3.MultiPattern(isobj_f(o, x), isobj_f(o, y))]))
    return ax


REG.axiom_hooks.append(runtime_axioms)


@spec_function()
def is_lit(ex, st, o, x):
    return S_bool(lit_f(o.t, box(x, st)))


@spec_function()
def known_constraint_type(ex, st, ct):
    t = box(ct, st)
    names = ["is_instance", "is_value", "is_value_object", "is_truthy", "predicate", "add_annotation", "one_of", "all_of"]
    return S_bool(z3.Or(*[t == CONSTS.get("enum", f"ConstraintType.{n}") for n in names]))


exact_f = z3.Function("exact_inst", O, V, BoolS)   # type(o) is C


@spec_function()
def exact_inst(ex, st, o, cls):
    return S_bool(exact_f(o.t, box(cls, st)))


def truth_axioms(used):
    """Python's data model for bool(): an object whose *own class* defines neither __len__ nor __bool__ is true"""
    o = z3.Const("to2", O)
    c = z3.Const("tc2", V)
    has = uf("fn:pyanalyze.safe.safe_hasattr", V, V, V)
    get3 = uf("fn:pyanalyze.safe.safe_getattr", V, V, V, V)
    ln, bl = CONSTS.get("str", "__len__"), CONSTS.get("str", "__bool__")
    from pyvc.core import truthy
    return [z3.ForAll([o, c], z3.Implies(z3.And(exact_f(o, c), z3.Not(truthy(has(c, ln))), get3(c, bl, NONE) == NONE), truth_f(o)), patterns=[exact_f(o, c)]),
            z3.ForAll([o, c], z3.Implies(exact_f(o, c), inst_f(o, c)), patterns=[exact_f(o, c)])]


REG.axiom_hooks.append(truth_axioms)


@spec_function()
def reflected_has_priority(ex, st, left, right, rmethod):
    """Python data model: type(right) is a proper subclass of type(left) and overrides the reflected method"""
    return S_bool(uf("reflected_priority", V, V, V, BoolS)(box(left, st), box(right, st), box(rmethod, st)))

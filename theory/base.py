"""Spec functions shared by all properties (sequence helpers, modules list)."""
import z3

from pyvc import seqs as Q
from pyvc.dsl import REG, spec_function
from pyvc.core import S_bool, S_int, Sym, Spec, SeqV, V, IntS, fresh
from pyvc.values import as_seq, as_int, box

REG.modules += [
    "pyanalyze.options", "pyanalyze.typevar", "pyanalyze.value", "pyanalyze.node_visitor",
    "pyanalyze.stacked_scopes", "pyanalyze.signature", "pyanalyze.type_object", "pyanalyze.predicates",
    "pyanalyze.boolability", "pyanalyze.type_evaluation", "pyanalyze.format_strings", "pyanalyze.functions",
    "pyanalyze.error_code", "pyanalyze.implementation", "pyanalyze.analysis_lib",
]


@spec_function()
def is_prefix(ex, st, p, s):
    return S_bool(Q.PrefixOf(as_seq(p, st), as_seq(s, st)))


@spec_function()
def concat(ex, st, a, b):
    return Sym("seq", Q.Concat(st, as_seq(a, st), as_seq(b, st)), a.spec)


@spec_function()
def seq_eq(ex, st, a, b):
    return S_bool(Q.Eq(as_seq(a, st), as_seq(b, st)))


@spec_function()
def same(ex, st, a, b):
    """identity / structural identity of the symbolic terms (z3 equality on the boxed values)"""
    return S_bool(box(a, st) == box(b, st))


@spec_function()
def contains(ex, st, s, x):
    return S_bool(Q.Contains(as_seq(s, st), box(x, st)))


@spec_function()
def all_in(ex, st, a, b):
    """every member of collection a is a member (key) of collection b"""
    x = fresh("ax", V)
    return S_bool(z3.ForAll([x], z3.Implies(Q.Contains(as_seq(a, st), x), Q.Contains(as_seq(b, st), x))))


@spec_function()
def pair_first(ex, st, p):
    """first component of a 2-tuple value, as int"""
    from pyvc.core import unS, unI
    return S_int(unI(Q.At(unS(box(p, st)), 0)))


@spec_function()
def unI_(ex, st, v):
    from pyvc.core import unI
    return S_int(unI(box(v, st)))


@spec_function("unS_")
def unS__(ex, st, v):
    from pyvc.core import unS
    return Sym("seq", unS(box(v, st)), Spec("seq", Spec("val")))


@spec_function()
def keys_of(ex, st, d):
    """the insertion-ordered keys of a dict"""
    return Sym("seq", d.py.keys, Spec("seq", d.py.kspec))


@spec_function()
def set_or(ex, st, a, b):
    """set union of two collections (as a membership predicate carrier)"""
    return ex.set_union(ex.coerce(a, Spec("set", Spec("val")), st), b, st)


@spec_function()
def as_dict(ex, st, v):
    from pyvc.values import unbox as _unbox
    return _unbox(Spec("dict", (Spec("val"), Spec("val"))), box(v, st), st, facts=False)


@spec_function()
def distinct(ex, st, s):
    """the sequence has no duplicates"""
    return S_bool(Q.Distinct(as_seq(s, st)))

"""Spec functions for C13: CPython's parameter layout of a def node (ast.arguments)."""
import z3
from pyvc.dsl import REG, spec_function
from pyvc.core import S_bool, S_val, Sym, Spec, V, CONSTS, NONE, unS, fresh
from pyvc import seqs as Q
from pyvc.values import as_int, box, fld


def _kind(name):
    return CONSTS.get("enum", f"ParameterKind.{name}")


@spec_function()
def kind_at(ex, st, j, p, q, v, k):
    """kind of the j-th parameter of `def f(p posonly, /, q pos-or-kw, [*a], k kwonly, [**kw])`"""
    j, p, q, v, k = (as_int(x, st) for x in (j, p, q, v, k))
    t = z3.If(j < p, _kind("POSITIONAL_ONLY"),
              z3.If(j < p + q, _kind("POSITIONAL_OR_KEYWORD"),
                    z3.If(z3.And(v == 1, j == p + q), _kind("VAR_POSITIONAL"),
                          z3.If(j < p + q + v + k, _kind("KEYWORD_ONLY"), _kind("VAR_KEYWORD")))))
    return S_val(t, Spec("prim"))


@spec_function()
def no_default_at(ex, st, args, j, p, q, d, v, k):
    """CPython: `defaults` belong to the LAST d of the p+q positional parameters; kw_defaults pointwise
    (None = no default); *args / **kwargs never have one"""
    a = box(args, st)
    j, p, q, d, v, k = (as_int(x, st) for x in (j, p, q, d, v, k))
    kwd = unS(fld("kw_defaults")(a))
    return S_bool(z3.If(j < p + q, j < p + q - d,
                        z3.If(z3.And(v == 1, j == p + q), True,
                              z3.If(j < p + q + v + k, Q.At(kwd, j - p - q - v) == NONE, True))))


@spec_function()
def name_at(ex, st, args, j, p, q, v, k):
    a = box(args, st)
    j, p, q, v, k = (as_int(x, st) for x in (j, p, q, v, k))
    po, pk, ko = unS(fld("posonlyargs")(a)), unS(fld("args")(a)), unS(fld("kwonlyargs")(a))
    node = z3.If(j < p, Q.At(po, j),
                 z3.If(j < p + q, Q.At(pk, j - p),
                       z3.If(z3.And(v == 1, j == p + q), fld("vararg")(a),
                             z3.If(j < p + q + v + k, Q.At(ko, j - p - q - v), fld("kwarg")(a)))))
    return S_val(fld("arg")(node), Spec("str"))


@spec_function()
def param_kind(ex, st, info):
    return S_val(fld("kind")(fld("param")(box(info, st))), Spec("prim"))


@spec_function()
def param_default(ex, st, info):
    return S_val(fld("default")(fld("param")(box(info, st))))


@spec_function()
def param_name(ex, st, info):
    return S_val(fld("name")(fld("param")(box(info, st))), Spec("str"))

"""The few facts about the abstract string model that proofs need (strings are opaque values;
methods are uninterpreted functions).  Each axiom is a true statement about CPython's str."""
import z3
from pyvc.dsl import REG
from pyvc.core import V, IntS
from pyvc.values import uf


def string_axioms(used):
    v = z3.Const("sv", V)
    slen_ = uf("str_len", V, IntS)
    lstrip = uf("str.lstrip", V, V)
    return [
        z3.ForAll([v], slen_(v) >= 0, patterns=[slen_(v)]),
        z3.ForAll([v], slen_(lstrip(v)) <= slen_(v), patterns=[lstrip(v)]),
    ]


if not hasattr(REG, "axiom_hooks"):
    REG.axiom_hooks = []
REG.axiom_hooks.append(string_axioms)

"""Specification theory of pyanalyze Values (DESIGN.md §3): gamma as `mem(o, v)` over a sort O of
runtime objects that only ever appears under quantifiers and as the first argument of `mem`
(no function returns O: the O-part of every query is in the EPR fragment)."""
import z3
from pyvc.dsl import REG, spec_function
from pyvc.core import S_bool, Sym, V, O, K, IntS, BoolS, fresh, CLASSES, typeof, sub
from pyvc import seqs as Q
from pyvc.values import as_seq, box, isa

mem_f = z3.Function("mem", O, V, BoolS)          # o in gamma(v)
static_f = z3.Function("static", V, BoolS)       # Any-free and free of the documented leniencies L1-L6


def subset_t(a, b):
    o = fresh("o", O)
    return z3.ForAll([o], z3.Implies(mem_f(o, a), mem_f(o, b)))


@spec_function()
def mem(ex, st, o, v):
    return S_bool(mem_f(o.t, box(v, st)))


@spec_function()
def subset(ex, st, a, b):
    """gamma(a) is included in gamma(b)"""
    return S_bool(subset_t(box(a, st), box(b, st)))


@spec_function()
def same_members(ex, st, a, b):
    o = fresh("o", O)
    return S_bool(z3.ForAll([o], mem_f(o, box(a, st)) == mem_f(o, box(b, st))))


@spec_function()
def union_of(ex, st, r, a, b):
    """gamma(r) = gamma(a) U gamma(b)"""
    o = fresh("o", O)
    return S_bool(z3.ForAll([o], mem_f(o, box(r, st)) == z3.Or(mem_f(o, box(a, st)), mem_f(o, box(b, st)))))


@spec_function()
def static(ex, st, v):
    ex.note_class("Value")
    ex.note_class("MarkerObject")
    return S_bool(static_f(box(v, st)))


@spec_function()
def is_error(ex, st, v):
    ex.note_class("CanAssignError")
    return S_bool(isa(box(v, st), "CanAssignError"))


@spec_function()
def is_any(ex, st, v):
    ex.note_class("AnyValue")
    return S_bool(isa(box(v, st), "AnyValue"))


@spec_function()
def isinst(ex, st, x, cls):
    return S_bool(ex.class_test(x, cls, st))


def value_axioms(used):
    """global axioms: Any contains everything; static values are not Any; errors are not Values"""
    ax = []
    v = z3.Const("tv", V)
    o = z3.Const("to", O)
    if "AnyValue" in used:
        ax.append(z3.ForAll([v, o], z3.Implies(sub(typeof(v), CLASSES.const("AnyValue")), mem_f(o, v)), patterns=[mem_f(o, v)]))
        ax.append(z3.ForAll([v], z3.Implies(static_f(v), z3.Not(sub(typeof(v), CLASSES.const("AnyValue")))), patterns=[static_f(v)]))
    if "Value" in used:
        ax.append(z3.ForAll([v], z3.Implies(static_f(v), sub(typeof(v), CLASSES.const("Value"))), patterns=[static_f(v)]))
    if "CanAssignError" in used:
        ax.append(z3.ForAll([v], z3.Implies(static_f(v), z3.Not(sub(typeof(v), CLASSES.const("CanAssignError")))), patterns=[static_f(v)]))
    return ax


if not hasattr(REG, "axiom_hooks"):
    REG.axiom_hooks = []
REG.axiom_hooks.append(value_axioms)

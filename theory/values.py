"""Specification theory of pyanalyze Values (DESIGN.md §3): gamma as `mem(o, v)` over a sort O of
runtime objects that only ever appears under quantifiers and as the first argument of `mem`
(no function returns O: the O-part of every query is in the EPR fragment)."""
import z3
from pyvc.dsl import REG, spec_function
from pyvc.core import S_bool, S_val, Sym, V, O, K, IntS, BoolS, fresh, CLASSES, typeof, sub, NONE
from pyvc import seqs as Q
from pyvc.values import as_seq, box, isa

mem_f = z3.Function("mem", O, V, BoolS)          # o in gamma(v)
static_f = z3.Function("static", V, BoolS)       # Any-free and free of the documented leniencies L1-L6


def subset_t(a, b):
    o = fresh("o", O)
    return z3.ForAll([o], z3.Implies(mem_f(o, a), mem_f(o, b)))


@spec_function()
def mem(ex, st, o, v):
    return S_bool(mem_f(o.t, box(v, st)))


@spec_function()
def subset(ex, st, a, b):
    """gamma(a) is included in gamma(b)"""
    return S_bool(subset_t(box(a, st), box(b, st)))


@spec_function()
def same_members(ex, st, a, b):
    o = fresh("o", O)
    return S_bool(z3.ForAll([o], mem_f(o, box(a, st)) == mem_f(o, box(b, st))))


@spec_function()
def union_of(ex, st, r, a, b):
    """gamma(r) = gamma(a) U gamma(b)"""
    o = fresh("o", O)
    return S_bool(z3.ForAll([o], mem_f(o, box(r, st)) == z3.Or(mem_f(o, box(a, st)), mem_f(o, box(b, st)))))


@spec_function()
def static(ex, st, v):
    ex.note_class("Value")
    ex.note_class("MarkerObject")
    return S_bool(static_f(box(v, st)))


@spec_function()
def is_error(ex, st, v):
    ex.note_class("CanAssignError")
    return S_bool(isa(box(v, st), "CanAssignError"))


@spec_function()
def is_any(ex, st, v):
    ex.note_class("AnyValue")
    return S_bool(isa(box(v, st), "AnyValue"))


@spec_function()
def isinst(ex, st, x, cls):
    return S_bool(ex.class_test(x, cls, st))


def value_axioms(used):
    """global axioms: Any contains everything; static values are not Any; errors are not Values"""
    ax = []
    v = z3.Const("tv", V)
    o = z3.Const("to", O)
    if "AnyValue" in used:
        ax.append(z3.ForAll([v, o], z3.Implies(sub(typeof(v), CLASSES.const("AnyValue")), mem_f(o, v)), patterns=[mem_f(o, v)]))
        ax.append(z3.ForAll([v], z3.Implies(static_f(v), z3.Not(sub(typeof(v), CLASSES.const("AnyValue")))), patterns=[static_f(v)]))
    if "Value" in used:
        ax.append(z3.ForAll([v], z3.Implies(static_f(v), sub(typeof(v), CLASSES.const("Value"))), patterns=[static_f(v)]))
    if "CanAssignError" in used:
        ax.append(z3.ForAll([v], z3.Implies(static_f(v), z3.Not(sub(typeof(v), CLASSES.const("CanAssignError")))), patterns=[static_f(v)]))
    if "UnboundMethodValue" in used:
        # documented leniency L4: an UnboundMethodValue with a secondary attribute is accepted anywhere; not static
        from pyvc.values import fld as _fld
        ax.append(z3.ForAll([v], z3.Implies(static_f(v), z3.Not(z3.And(sub(typeof(v), CLASSES.const("UnboundMethodValue")), _fld("secondary_attr_name")(v) != NONE))), patterns=[static_f(v)]))
    for gradual in ("TypeVarValue",):
        if gradual in used:
            ax.append(z3.ForAll([v], z3.Implies(static_f(v), z3.Not(sub(typeof(v), CLASSES.const(gradual)))), patterns=[static_f(v)]))
    if "MultiValuedValue" in used:
        # static values are well-formed (unions never nested: constructor invariant) and contain no unreachable-Any
        from pyvc.core import unS, unB
        from pyvc.values import fld, uf
        i = z3.Const("wi", IntS)
        vals = unS(fld("vals")(v))
        unreach = uf("fn:pyanalyze.value._is_unreachable", V, V)
        mvv = CLASSES.const("MultiValuedValue")
        ax.append(z3.ForAll([v], z3.Implies(z3.And(static_f(v), typeof(v) == mvv),
                                           z3.ForAll([i], z3.Implies(z3.And(0 <= i, i < Q.slen(vals)),
                                                                     z3.And(z3.Not(union_like_t(Q.at(vals, i))), static_f(Q.at(vals, i)))))), patterns=[static_f(v)]))
        ax.append(z3.ForAll([v], z3.Implies(static_f(v), z3.Not(unB(unreach(v)))), patterns=[static_f(v)]))
        # ... and a well-formed union of static members is static
        ax.append(z3.ForAll([v], z3.Implies(z3.And(typeof(v) == mvv,
                                                  z3.ForAll([i], z3.Implies(z3.And(0 <= i, i < Q.slen(vals)),
                                                                            z3.And(z3.Not(union_like_t(Q.at(vals, i))), static_f(Q.at(vals, i)))))),
                                           static_f(v)), patterns=[static_f(v)]))
        if "AnnotatedValue" in used:
            ax.append(z3.ForAll([v], z3.Implies(z3.And(static_f(v), typeof(v) == CLASSES.const("AnnotatedValue")), static_f(fld("value")(v))), patterns=[static_f(v)]))
    return ax


if not hasattr(REG, "axiom_hooks"):
    REG.axiom_hooks = []
REG.axiom_hooks.append(value_axioms)


# ---------------------------------------------------------------------------
# structure of gamma for unions and annotated values (global, trigger-driven: instantiated only on
# mem-terms that occur in the query)

from pyvc.core import unS
from pyvc.values import fld, uf

def union_like_t(x):
    mvv = CLASSES.const("MultiValuedValue")
    return z3.Or(typeof(x) == mvv, z3.And(typeof(x) == CLASSES.const("AnnotatedValue"), typeof(fld("value")(x)) == mvv))



lit_f = z3.Function("lit", O, V, BoolS)                  # runtime object o is the literal x (identical, or equal with the same type)
same_lit_f = z3.Function("same_lit", V, V, BoolS)        # two literal objects: same type and ==


md_ok_f = z3.Function("md_ok", O, V, BoolS)      # o satisfies the metadata sequence (boxed tuple)
ext_ok_f = z3.Function("ext_ok", O, V, BoolS)    # o satisfies one metadata item


def union_axioms(used):
    ax = []
    v = z3.Const("uv", V)
    o = z3.Const("uo", O)
    i = z3.Const("ui", IntS)
    if "MultiValuedValue" in used:
        vals = unS(fld("vals")(v))
        ax.append(z3.ForAll([v, o], z3.Implies(typeof(v) == CLASSES.const("MultiValuedValue"),
                                              mem_f(o, v) == z3.Exists([i], z3.And(0 <= i, i < Q.slen(vals), mem_f(o, Q.at(vals, i))))),
                            patterns=[mem_f(o, v)]))
    if "MultiValuedValue" in used:
        # class invariant of the frozen dataclass MultiValuedValue: never nested.  Established by its only
        # constructor path (kernel MultiValuedValue.__post_init__#post.never_nested, proved under C14) and
        # assumed for every instance elsewhere.
        vals = unS(fld("vals")(v))
        ax.append(z3.ForAll([v, i], z3.Implies(z3.And(typeof(v) == CLASSES.const("MultiValuedValue"), 0 <= i, i < Q.slen(vals)),
                                              z3.Not(union_like_t(Q.at(vals, i)))), patterns=[Q.at(vals, i)]))
    if "AnnotatedValue" in used:
        ax.append(z3.ForAll([v, o], z3.Implies(typeof(v) == CLASSES.const("AnnotatedValue"),
                                              mem_f(o, v) == z3.And(mem_f(o, fld("value")(v)), md_ok_f(o, fld("metadata")(v)))),
                            patterns=[mem_f(o, v)]))
        md = unS(v)
        ax.append(z3.ForAll([v, o], md_ok_f(o, v) == z3.ForAll([i], z3.Implies(z3.And(0 <= i, i < Q.slen(md)), ext_ok_f(o, Q.at(md, i)))),
                            patterns=[md_ok_f(o, v)]))
        # a metadata item constrains membership only when it is an Extension: then through its own meaning
        if "Extension" in used:
            ax.append(z3.ForAll([v, o], ext_ok_f(o, v) == z3.Implies(sub(typeof(v), CLASSES.const("Extension")), mem_f(o, v)), patterns=[ext_ok_f(o, v)]))
            mdv = unS(fld("metadata")(v))
            ax.append(z3.ForAll([v], z3.Implies(z3.And(static_f(v), typeof(v) == CLASSES.const("AnnotatedValue")),
                                               z3.ForAll([i], z3.Implies(z3.And(0 <= i, i < Q.slen(mdv), sub(typeof(Q.at(mdv, i)), CLASSES.const("Extension"))), static_f(Q.at(mdv, i))))),
                                patterns=[static_f(v)]))
    if "KnownValue" in used:
        # gamma(KnownValue(x)) = the runtime objects that are the literal x (identical, or == with the same type);
        # `same_lit` (same type and ==) is an equivalence on literals that preserves `lit` -- the property's
        # hypothesis "equality with the tested literals implies equal type, no user __eq__"
        x, y = z3.Const("lx", V), z3.Const("ly", V)
        ax.append(z3.ForAll([v, o], z3.Implies(sub(typeof(v), CLASSES.const("KnownValue")), mem_f(o, v) == lit_f(o, fld("val")(v))), patterns=[mem_f(o, v)]))
        ax.append(z3.ForAll([x, y, o], z3.Implies(z3.And(same_lit_f(x, y), lit_f(o, x)), lit_f(o, y)), patterns=[z3.MultiPattern(same_lit_f(x, y), lit_f(o, x))]))
        ax.append(z3.ForAll([x, y], same_lit_f(x, y) == same_lit_f(y, x), patterns=[same_lit_f(x, y)]))
        ax.append(z3.ForAll([x], same_lit_f(x, x), patterns=[same_lit_f(x, x)]))
    # equal values have equal meaning
    from pyvc.core import pyeq
    a, b = z3.Const("ea", V), z3.Const("eb", V)
    ax.append(z3.ForAll([a, b, o], z3.Implies(z3.And(pyeq(a, b), mem_f(o, a)), mem_f(o, b)), patterns=[z3.MultiPattern(pyeq(a, b), mem_f(o, a))]))
    return ax


REG.axiom_hooks.append(union_axioms)


@spec_function()
def md_ok(ex, st, o, md):
    return S_bool(md_ok_f(o.t, box(md, st)))


@spec_function()
def wf_union(ex, st, v):
    """data-structure invariant of MultiValuedValue: never nested (no member is itself a union)"""
    ex.note_class("MultiValuedValue")
    t = box(v, st)
    i = fresh("wi", IntS)
    vals = unS(fld("vals")(t))
    ex.note_class("AnnotatedValue")
    return S_bool(z3.Implies(typeof(t) == CLASSES.const("MultiValuedValue"),
                             z3.ForAll([i], z3.Implies(z3.And(0 <= i, i < Q.slen(vals)), z3.Not(union_like_t(Q.at(vals, i)))))))


@spec_function()
def union_like(ex, st, v):
    """a union, or an Annotated wrapper around a union (what flatten_values / the union constructor expand)"""
    ex.note_class("MultiValuedValue")
    ex.note_class("AnnotatedValue")
    return S_bool(union_like_t(box(v, st)))

CLASSES.final |= {"MultiValuedValue", "AnnotatedValue", "CanAssignError", "LowerBound", "UpperBound", "OrBound", "IsOneOf"}


def _never(ex, st):
    """NO_RETURN_VALUE = MultiValuedValue([]): the empty union"""
    from pyvc.core import CONSTS, S_val
    ex.note_class("MultiValuedValue")
    c = CONSTS.get("global", "pyanalyze.value.NO_RETURN_VALUE")
    st.pc.append(typeof(c) == CLASSES.const("MultiValuedValue"))
    st.pc.append(Q.slen(unS(fld("vals")(c))) == 0)
    return S_val(c)


REG.constants["pyanalyze.value.NO_RETURN_VALUE"] = _never


@spec_function()
def flat_member(ex, st, m, v):
    """m is one of the values that flattening v produces: v itself when v is not union-like, a member of
    the union, or a member of the annotated union re-annotated with the wrapper's metadata"""
    ex.note_class("MultiValuedValue"); ex.note_class("AnnotatedValue")
    mt, vt = box(m, st), box(v, st)
    mvv = CLASSES.const("MultiValuedValue")
    i = fresh("fm", IntS)
    vals = unS(fld("vals")(vt))
    ivals = unS(fld("vals")(fld("value")(vt)))
    ann = uf("fn:pyanalyze.value.annotate_value", V, V, V)
    return S_bool(z3.Or(
        z3.And(z3.Not(union_like_t(vt)), mt == vt),
        z3.And(typeof(vt) == mvv, z3.Exists([i], z3.And(0 <= i, i < Q.slen(vals), mt == Q.at(vals, i)))),
        z3.And(typeof(vt) == CLASSES.const("AnnotatedValue"), typeof(fld("value")(vt)) == mvv,
               z3.Exists([i], z3.And(0 <= i, i < Q.slen(ivals), mt == ann(Q.at(ivals, i), fld("metadata")(vt)))))))


@spec_function()
def is_bounds_map(ex, st, v):
    """the value is a dict (a BoundsMap), i.e. not a CanAssignError"""
    t = box(v, st)
    return S_bool(typeof(t) == CLASSES.const("dict"))


@spec_function()
def pair_in(ex, st, k, s):
    return S_bool(Q.Contains(as_seq(s, st), box(k, st)))


@spec_function()
def same_literal_key(ex, st, key, kv):
    """the (val, type) key of the fast path denotes the literal of KnownValue kv"""
    k = unS(box(key, st))
    return S_bool(same_lit_f(Q.at(k, 0), fld("val")(box(kv, st))))


@spec_function()
def super_can_assign(ex, st, self_, other, ctx):
    """the result of the base-class Value.can_assign for these arguments (the shared functional symbol)"""
    f = uf("fn:can_assign", V, V, V, V)
    return S_val(f(box(self_, st), box(other, st), box(ctx, st)))


def literal_axioms(used):
    ax = []
    if "KnownValue" in used:
        from pyvc.core import unB
        x, y = z3.Const("kx", V), z3.Const("ky", V)
        se = uf("fn:pyanalyze.safe.safe_equals", V, V, V)
        ty = uf("py_type", V, V)
        # same_lit is exactly "the same object, or equal (==) with the same type"
        ax.append(z3.ForAll([x, y], z3.Implies(z3.Or(x == y, z3.And(unB(se(x, y)), ty(x) == ty(y))), same_lit_f(x, y)), patterns=[se(x, y)]))
    return ax


REG.axiom_hooks.append(literal_axioms)


@spec_function()
def holds(ex, st, c, w):
    """the (abstract) constraint c is true in the world w (an assignment of runtime values to the program's variables)"""
    return S_bool(uf("cons_holds", V, V, BoolS)(box(c, st), box(w, st)))


@spec_function()
def plain_value(ex, st, v):
    """operand precondition of unite_values: a well-formed (never nested) union / annotated union without AnyValue(unreachable) members"""
    c = ex.reg.contracts["pyanalyze.value.unite_values"]
    t = box(v, st)
    # evaluate unite_values' own requires clauses on the one-element operand tuple (v,)
    tup = Sym("seq", Q.Literal(st, [t]), None)
    out = []
    for cl in c.requires_:
        out.append(ex.spec_bool(cl, st, {"values": tup}, module=ex.contract_module(c)))
    return S_bool(z3.And(*out) if out else z3.BoolVal(True))

"""C17 — %-format diagnostics: the decision logic (pyanalyze/format_strings.py)."""
from pyvc.dsl import REG, contract

REG.fieldspec(conversion_type="str", is_bytes="bool", specifiers="seq[obj:ConversionSpecifier]")
P = ["C17"]

NUM = "(self.conversion_type in ('d', 'i', 'o', 'u', 'x', 'X', 'e', 'E', 'f', 'F', 'g', 'G'))"  # CPython's numeric conversions, spelled out (not read from the code)
A = "TypedValue(int).is_assignable(arg, ctx)"
B = "TypedValue(bytes).is_assignable(arg, ctx)"
S = "TypedValue(str).is_assignable(arg, ctx)"
N = "Numeric.is_assignable(arg, ctx)"
CHARLIKE = f"((self.is_bytes and {B}) or (not self.is_bytes and {S}))"


def phi(limit):
    c_branch = (f"(({A} and isa(arg, KnownValue) and arg.val not in range({limit}))"
                f" or (not {A} and {CHARLIKE} and isa(arg, KnownValue) and isinstance(arg.val, (str, bytes)) and len(arg.val) != 1)"
                f" or (not {A} and not {CHARLIKE}))")
    INTONLY = "(self.conversion_type in ('o', 'x', 'X'))"
    I = "Integral.is_assignable(arg, ctx)"
    return (f"(({NUM} and (({INTONLY} and not {I}) or (not {INTONLY} and not {N})))"
            f" or (not {NUM} and self.conversion_type not in ('a', 'r') and self.conversion_type == 'c' and {c_branch})"
            f" or (not {NUM} and self.conversion_type not in ('a', 'r', 'c') and (self.conversion_type == 'b' or (self.is_bytes and self.conversion_type == 's')) and not {B})"
            f" or (not {NUM} and self.conversion_type not in ('a', 'r', 'c', 'b', 's') and self.conversion_type == '%'))")


@contract("pyanalyze.format_strings.ConversionSpecifier.accept_no_mvv", props=P)
def _(c):
    c.generator = True
    c.returns("seq[str]")
    c.fieldspec("val", "val")
    c.requires(f"{NUM} or self.conversion_type in ('a', 'r', 'c', 'b', 's', '%')", name="known_conversion")
    c.assume("conversion_type is one of the characters the template regex admits")
    c.assume("is_assignable(TypedValue(T), KnownValue(o)) <=> isinstance(o, T) is property C03 (literal-vs-type), used here through the functional callee contract")
    c.ensures("len(result) <= 1", name="at_most_one_error")
    c.ensures(f"(len(result) > 0) == {phi('ite(self.is_bytes, 256, 1114112)')}", name="errors_iff_cpython_rejects")
    d14 = "(not self.is_bytes and isa(arg, KnownValue) and arg.val in range(256, 1114112))"
    c.ensures(f"implies(not {d14}, (len(result) > 0) == {phi('ite(self.is_bytes, 256, 1114112)')})", name="errors_iff_cpython_rejects.outside_text_code_points")


@contract("pyanalyze.format_strings.StarConversionSpecifier.accept", props=P)
def _(c):
    c.generator = True
    c.returns("seq[str]")
    c.ensures(f"(len(result) > 0) == (not {A})", name="star_takes_int")


@contract("pyanalyze.format_strings.PercentFormatString.needs_mapping", props=P)
def _(c):
    c.returns("bool")
    c.fieldspec("mapping_key", "opt[str]")
    c.ensures("result == any(cs.mapping_key is not None for cs in self.specifiers)", name="some_specifier_has_key")


# ---------------------------------------------------------------------------
# argument count

import z3
from pyvc.dsl import spec_function
from pyvc.core import S_int, Sym, Spec, IntS, CONSTS, unS
from pyvc import seqs as Q
from pyvc.values import as_seq, as_int, fld

REG.fieldspec(field_width="val", precision="val", members="seq[pair[bool,val]]")
_serial = z3.Function("serial_count", Q.Sq, IntS, IntS)


@spec_function()
def serial_count(ex, st, specs, n):
    """spec: number of arguments the first n specifiers consume: one per '*' width, one per '*' precision,
    one per conversion other than %% (CPython's rule); unfolded at the call site"""
    sp, k = as_seq(specs, st), as_int(n, st)
    t = _serial(sp, k)
    star = CONSTS.get("str", "*")
    pct = CONSTS.get("str", "%")
    last = Q.At(sp, k - 1)
    inc = (z3.If(fld("field_width")(last) == star, 1, 0) + z3.If(fld("precision")(last) == star, 1, 0)
           + z3.If(fld("conversion_type")(last) != pct, 1, 0))
    st.pc.append(z3.Implies(k <= 0, t == 0))
    st.pc.append(z3.Implies(k > 0, t == _serial(sp, k - 1) + inc))
    return S_int(t)


@contract("pyanalyze.format_strings.PercentFormatString.get_serial_specifiers", props=P)
def _(c):
    c.generator = True
    c.returns("seq")
    c.loop(0, invariant=("count", "len(_yielded) == serial_count(self.specifiers, _k0)"))
    c.ensures("len(result) == serial_count(self.specifiers, len(self.specifiers))", name="one_argument_per_star_and_conversion")


@contract("pyanalyze.value.SequenceValue.get_member_sequence", props=P + ["C01", "C02"])
def _(c):
    c.returns("opt[seq]")
    c.functional = True
    c.unique_dispatch = True
    c.loop(0, invariant=[("prefix", "len(members) == _k0 and all(not truthy(self.members[j][0]) and same(members[j], self.members[j][1]) for j in range(_k0))")])
    c.ensures("(result is None) == any(truthy(m[0]) for m in self.members)", name="none_iff_variadic_member")
    c.ensures("implies(result is not None, len(result) == len(self.members) and all(same(result[j], self.members[j][1]) for j in range(len(self.members))))", name="members_in_order")


@contract("pyanalyze.value.replace_known_sequence_value", props=P, kind="assumed")
def _(c):
    c.param("value", "val")
    c.returns("val")
    c.functional = True
    c.assume("replace_known_sequence_value: contract under C03 (literal containers re-expressed element-wise); here only its functional dependence on the argument is used")


@contract("method:accept", props=P, kind="assumed")
def _(c):
    c.param("self", "val"); c.param("arg", "val"); c.param("ctx", "val")
    c.generator = True
    c.returns("seq[str]")
    c.functional = True
    c.assume("specifier.accept (dynamic dispatch over ConversionSpecifier / StarConversionSpecifier) yields the member-wise errors; both overrides are kernels of this property")


@contract("pyanalyze.format_strings.PercentFormatString.accept_tuple_args_no_mvv", props=P)
def _(c):
    c.generator = True
    c.returns("seq[str]")
    c.callee("self.get_serial_specifiers", lambda k: (k.param("self", "val"), k.returns("seq"), setattr(k, "generator", True), setattr(k, "functional", True),
                                                    k.ensures("len(result) == serial_count(self.specifiers, len(self.specifiers))")))
    c.let("is_tuple", "TypedValue(tuple).is_assignable(args, ctx)")
    c.let("inner", "replace_known_sequence_value(ite(isa(args, AnnotatedValue), args.value, args))")
    c.let("need", "serial_count(self.specifiers, len(self.specifiers))")
    c.loop(0, invariant=("no_count_error", "True"))
    c.ensures("implies(not is_tuple and need != 1, len(result) == 1)", name="scalar_argument_count_mismatch_is_one_error")
    c.ensures("implies(is_tuple and isa(inner, SequenceValue) and inner.get_member_sequence() is not None and len(inner.get_member_sequence()) != need, len(result) == 1)",
              name="tuple_argument_count_mismatch_is_one_error")
    c.ensures("implies(is_tuple and (not isa(inner, SequenceValue) or inner.get_member_sequence() is None), len(result) == 0)", name="unknown_length_tuple_accepted")

"""C02 — narrowing never loses the actual value and never widens (stacked_scopes.Constraint.apply_to_value)."""
from pyvc.dsl import REG, contract

REG.fieldspec(positive="bool")
P = ["C02"]

# meaning of a concrete constraint for a runtime object o, by kind (only kinds with a runtime reading)
HOLDS = ("ite(self.constraint_type == ConstraintType.is_instance, inst(o, self.value),"
         " ite(self.constraint_type == ConstraintType.is_value, is_obj(o, self.value),"
         " truth(o)))")
KINDS = "(self.constraint_type == ConstraintType.is_instance or self.constraint_type == ConstraintType.is_value)"
PLAIN = "(isa(inner, AnyValue) or isa(inner, KnownValue) or typeis(inner, TypedValue))"


@contract("method:__call__", props=P, kind="assumed")
def _(c):
    c.param("self", "val"); c.param("value", "val"); c.param("positive", "bool")
    c.returns("val")
    c.assume("predicate objects (IsAssignablePredicate, EqualsPredicate, InPredicate, closures) are called through Constraint.value; their own keep/no-widen contracts are separate kernels")


@contract("pyanalyze.boolability.get_boolability", props=P, kind="assumed")
def _(c):
    c.returns("val")
    c.functional = True


@contract("method:is_safely_false", props=P, kind="assumed")
def _(c):
    c.param("self", "val"); c.returns("bool"); c.functional = True


@contract("method:is_safely_true", props=P, kind="assumed")
def _(c):
    c.param("self", "val"); c.returns("bool"); c.functional = True


@contract("method:apply_to_values", props=P, kind="assumed")
def _(c):
    c.param("self", "val"); c.param("values", "seq")
    c.generator = True
    c.returns("seq")


@contract("pyanalyze.stacked_scopes.Constraint.apply_to_value", props=P)
def _(c):
    c.generator = True
    c.returns("seq")
    c.functional = True
    c.fn_name = "apply_to_value"
    c.merge_paths = False
    c.fieldspec("value", "val")
    c.fieldspec("typ", "val")
    c.let("inner", "ite(isa(value, AnnotatedValue), value.value, value)")
    c.raises("AssertionError", when="not known_constraint_type(self.constraint_type)")
    c.loop(0, invariant="True")
    c.loop(1, invariant="True")
    c.assume("claimed for is_instance / is_value constraints applied to Any, literal and plain class values (optionally Annotated); the other kinds are executed (exception freedom) but carry no membership clause yet")
    keep = (f"implies({KINDS} and {PLAIN} and not isa(value, AnnotatedValue) and not isinstance(inner.typ, str),"
            f" forall(lambda o: implies(mem(o, value) and ({HOLDS}) == self.positive, exists(lambda i: 0 <= i and i < len(result) and mem(o, result[i]))), 'obj'))")
    c.ensures(keep, name="keeps_every_object_the_condition_admits")
    d2 = "(typeis(inner, TypedValue) and promo(o, inner.typ) and (self.constraint_type == ConstraintType.is_value or not self.positive))"
    canon = ("(self.constraint_type != ConstraintType.is_value or (forall(lambda p: implies(is_lit(p, self.value), is_obj(p, self.value)), 'obj')"
             " and implies(isa(inner, KnownValue), forall(lambda p: implies(is_lit(p, inner.val), is_obj(p, inner.val)), 'obj'))))")
    c.assume("`is` tests: the tested object and a literal type it is compared with are canonical literals (None, bool, enum member, interned constant): an object equal to one is it")
    d3 = ("(self.constraint_type == ConstraintType.is_instance and self.positive and typeis(inner, TypedValue)"
          " and not safe_issubclass(inner.typ, self.value) and not safe_issubclass(self.value, inner.typ))")
    keep_ok = (f"implies({KINDS} and {PLAIN} and {canon} and not isa(value, AnnotatedValue) and not isinstance(inner.typ, str),"
               f" forall(lambda o: implies(mem(o, value) and ({HOLDS}) == self.positive and not {d2} and not {d3},"
               " exists(lambda i: 0 <= i and i < len(result) and mem(o, result[i]))), 'obj'))")
    c.ensures(keep_ok, name="keeps_every_object_the_condition_admits.outside_promotion_and_unrelated_classes")
    nowiden = (f"implies({KINDS} and {PLAIN} and not isa(value, AnnotatedValue),"
               " all(forall(lambda o: implies(mem(o, r), mem(o, value) or ite(self.constraint_type == ConstraintType.is_instance, inst(o, self.value) or promo(o, self.value), is_lit(o, self.value))), 'obj') for r in result))")
    c.ensures(nowiden, name="never_wider_than_the_original_and_the_tested_type")

"""C02 — narrowing never loses the actual value and never widens (stacked_scopes.Constraint.apply_to_value)."""
from pyvc.dsl import REG, contract

REG.fieldspec(positive="bool")
P = ["C02"]

# meaning of a concrete constraint for a runtime object o, by kind (only kinds with a runtime reading)
HOLDS = ("ite(self.constraint_type == ConstraintType.is_instance, inst(o, self.value),"
         " ite(self.constraint_type == ConstraintType.is_value, is_obj(o, self.value),"
         " truth(o)))")
KINDS = "(self.constraint_type == ConstraintType.is_instance or self.constraint_type == ConstraintType.is_value)"
PLAIN = "(isa(inner, AnyValue) or isa(inner, KnownValue) or typeis(inner, TypedValue))"


@contract("method:__call__", props=P, kind="assumed")
def _(c):
    c.param("self", "val"); c.param("value", "val"); c.param("positive", "bool")
    c.returns("val")
    c.assume("predicate objects (IsAssignablePredicate, EqualsPredicate, InPredicate, closures) are called through Constraint.value; their own keep/no-widen contracts are separate kernels")


@contract("pyanalyze.boolability.get_boolability", props=P, kind="assumed")
def _(c):
    c.returns("val")
    c.functional = True


@contract("method:is_safely_false", props=P, kind="assumed")
def _(c):
    c.param("self", "val"); c.returns("bool"); c.functional = True


@contract("method:is_safely_true", props=P, kind="assumed")
def _(c):
    c.param("self", "val"); c.returns("bool"); c.functional = True


@contract("method:apply_to_values", props=P, kind="assumed")
def _(c):
    c.param("self", "val"); c.param("values", "seq")
    c.generator = True
    c.returns("seq")


@contract("pyanalyze.stacked_scopes.Constraint.apply_to_value", props=P)
def _(c):
    c.generator = True
    c.returns("seq")
    c.functional = True
    c.fn_name = "apply_to_value"
    c.merge_paths = False
    c.fieldspec("value", "val")
    c.fieldspec("typ", "val")
    c.let("inner", "ite(isa(value, AnnotatedValue), value.value, value)")
    c.raises("AssertionError", when="not known_constraint_type(self.constraint_type)")
    c.loop(0, invariant="True")
    c.loop(1, invariant="True")
    c.assume("claimed for is_instance / is_value constraints applied to Any, literal and plain class values (optionally Annotated); the other kinds are executed (exception freedom) but carry no membership clause yet")
    keep = (f"implies({KINDS} and {PLAIN} and not isa(value, AnnotatedValue) and not isinstance(inner.typ, str),"
            f" forall(lambda o: implies(mem(o, value) and ({HOLDS}) == self.positive, exists(lambda i: 0 <= i and i < len(result) and mem(o, result[i]))), 'obj'))")
    c.ensures(keep, name="keeps_every_object_the_condition_admits")
    d2 = "(typeis(inner, TypedValue) and promo(o, inner.typ) and (self.constraint_type == ConstraintType.is_value or not self.positive))"
    canon = ("(self.constraint_type != ConstraintType.is_value or (forall(lambda p: implies(is_lit(p, self.value), is_obj(p, self.value)), 'obj')"
             " and implies(isa(inner, KnownValue), forall(lambda p: implies(is_lit(p, inner.val), is_obj(p, inner.val)), 'obj'))))")
    c.assume("`is` tests: the tested object and a literal type it is compared with are canonical literals (None, bool, enum member, interned constant): an object equal to one is it")
    d3 = ("(self.constraint_type == ConstraintType.is_instance and self.positive and typeis(inner, TypedValue)"
          " and not safe_issubclass(inner.typ, self.value) and not safe_issubclass(self.value, inner.typ))")
    keep_ok = (f"implies({KINDS} and {PLAIN} and {canon} and not isa(value, AnnotatedValue) and not isinstance(inner.typ, str),"
               f" forall(lambda o: implies(mem(o, value) and ({HOLDS}) == self.positive and not {d2} and not {d3},"
               " exists(lambda i: 0 <= i and i < len(result) and mem(o, result[i]))), 'obj'))")
    c.ensures(keep_ok, name="keeps_every_object_the_condition_admits.outside_promotion_and_unrelated_classes")
    nowiden = (f"implies({KINDS} and {PLAIN} and not isa(value, AnnotatedValue),"
               " all(forall(lambda o: implies(mem(o, r), mem(o, value) or ite(self.constraint_type == ConstraintType.is_instance, inst(o, self.value) or promo(o, self.value), is_lit(o, self.value))), 'obj') for r in result))")
    c.ensures(nowiden, name="never_wider_than_the_original_and_the_tested_type")


# ---------------------------------------------------------------------------
# truthiness verdicts

@contract("pyanalyze.boolability.Boolability.is_safely_true", props=P)
def _(c):
    c.returns("bool")
    c.ensures("result == (self is Boolability.value_always_true or self is Boolability.value_always_true_mutable or self is Boolability.type_always_true)", name="the_three_true_verdicts")


@contract("pyanalyze.boolability.Boolability.is_safely_false", props=P)
def _(c):
    c.returns("bool")
    c.ensures("result == (self is Boolability.value_always_false)", name="only_the_immutable_false_verdict")


for q in ("pyanalyze.safe.safe_hasattr", "pyanalyze.safe.safe_getattr"):
    def _b(c):
        c.returns("val")
        c.functional = True
    contract(q, props=P, kind="assumed")(_b)


@contract("pyanalyze.boolability._get_type_boolability", props=P)
def _(c):
    c.param("is_exact", "bool")
    c.returns("val")
    c.functional = True
    c.ensures("result is Boolability.boolable or result is Boolability.type_always_true or result is Boolability.erroring_bool", name="one_of_three_verdicts")
    c.ensures("(result is Boolability.type_always_true) == (not (typ is object and not is_exact) and not truthy(safe_hasattr(typ, '__len__')) and safe_getattr(typ, '__bool__', None) is None)",
              name="always_true_iff_the_class_has_neither_len_nor_bool")
    # the verdict must be right for every object of the type (C02, third sentence)
    c.ensures("implies(result is Boolability.type_always_true, forall(lambda o: implies(inst(o, typ), truth(o)), 'obj'))", name="an_always_true_verdict_is_right_for_every_instance")
    c.ensures("implies(result is Boolability.type_always_true and is_exact, forall(lambda o: implies(exact_inst(o, typ), truth(o)), 'obj'))", name="an_always_true_verdict_is_right_for_exact_instances")


# ---------------------------------------------------------------------------
# predicates behind `predicate` constraints (isinstance against generics, ==, in, match patterns)

@contract("pyanalyze.value._deliteral", props=P, kind="assumed")
def _(c):
    c.returns("val")
    c.functional = True
    c.ensures("subset(value, result) and implies(static(value), static(result))", name="widens_literals_to_their_types")
    c.assume("_deliteral replaces literals by their types: a superset with the same staticness")


@contract("pyanalyze.value.is_overlapping", props=P)
def _(c):
    c.returns("bool")
    c.functional = True
    c.ensures("implies(not result and static(left) and static(right), forall(lambda o: not (mem(o, left) and mem(o, right)), 'obj'))", name="no_overlap_means_disjoint")
    c.ensures("implies(not isa(_deliteral(left), MultiValuedValue), result == (_deliteral(left).is_assignable(_deliteral(right), ctx) or _deliteral(right).is_assignable(_deliteral(left), ctx)))",
              name="overlap_is_assignability_one_way_or_the_other")


@contract("pyanalyze.value.unannotate", props=P + ["C14"])
def _(c):
    c.returns("val")
    c.functional = True
    c.ensures("same(result, ite(isa(value, AnnotatedValue), value.value, value))", name="strips_one_annotation_layer")


@contract("pyanalyze.predicates.is_universally_assignable", props=P, kind="assumed")
def _(c):
    c.returns("bool")
    c.functional = True
    c.ensures("implies(static(value) and value is not NO_RETURN_VALUE, not result)", name="static_values_are_not_universally_assignable")
    c.assume("is_universally_assignable is True only for Never, Any, type vs type[...] and TypeVars (gradual forms), never for other static values")


@contract("pyanalyze.predicates.IsAssignablePredicate.__call__", props=P)
def _(c):
    c.param("positive", "bool")
    c.returns("opt[val]")
    c.fieldspec("positive_only", "bool")
    c.let("pat", "self.pattern_value")
    keep = ("implies(static(value) and static(pat) and (positive or not self.positive_only),"
            " forall(lambda o: implies(mem(o, value) and mem(o, pat) == positive, result is not None and mem(o, result)), 'obj'))")
    c.ensures(keep, name="keeps_every_object_the_test_admits")
    c.ensures("result is None or result is value or result is pat", name="never_wider_than_the_original_or_the_pattern")
    c.ensures("implies(not positive and self.positive_only, result is value)", name="positive_only_predicates_do_not_narrow_the_negative_branch")


@contract("pyanalyze.patma.LenPredicate.__call__", props=["C02", "C01"])
def _(c):
    c.param("value", "obj:Value")
    c.param("positive", "bool")
    c.returns("val")
    c.fieldspec("expected_length", "int")
    c.fieldspec("has_star", "bool")
    c.callee("len_of_value", lambda k: (k.param("v", "val"), k.returns("val"), setattr(k, "functional", True), setattr(k, "fn_name", "len_of_value")))
    c.callee("unannotate", lambda k: (k.param("v", "val"), k.returns("val"), setattr(k, "functional", True), setattr(k, "fn_name", "unannotate")))
    c.callee("cleaned.get_generic_arg_for_type", lambda k: (k.param("self", "val"), k.param("t", "val"), k.param("ctx", "val"), k.param("i", "val"), k.returns("val")))
    c.callee("SequenceValue", lambda k: (k.param("t", "val"), k.param("members", "val"), k.returns("obj:SequenceValue")))
    c.loop(0, invariant="True")
    L = "len_of_value(value)"
    known = f"(isa({L}, KnownValue) and isinstance({L}.val, int))"
    n = f"unI_({L}.val)"
    fits = f"ite(self.has_star, {n} >= self.expected_length, {n} == self.expected_length)"
    # the C02 statement for a value all of whose instances have the statically known length n: it is kept exactly when
    # an instance of that length takes the branch ([a, *rest] matches lengths >= the number of sub-patterns)
    c.ensures(f"implies({known} and positive == {fits}, result is value)", name="a_value_whose_known_length_takes_the_branch_is_kept")
    c.ensures(f"implies({known} and positive != {fits}, result is None)", name="a_value_whose_known_length_cannot_take_the_branch_is_dropped")
    c.ensures(f"implies(not {known} and (self.has_star or not (isa(unannotate(value), TypedValue) and unannotate(value).typ is tuple)), result is value)", name="unknown_length_is_kept")
    c.ensures(f"implies(not {known}, result is not None)", name="unknown_length_is_never_dropped")
    c.assume("len_of_value(v) = KnownValue(n) only when every instance of v has length n (value.len_of_value, not under contract)")


@contract("pyanalyze.stacked_scopes.AndConstraint.make", props=["C02"], kind="assumed")
def _(c):
    c.param("cls", "val"); c.param("constraints", "seq")
    c.returns("val")
    c.functional = True
    c.fn_name = "AndConstraint.make"
    c.ensures("forall(lambda w: holds(result, w) == all(holds(x, w) for x in constraints), 'val')", name="conjunction")
    c.assume("AndConstraint.make(cs) denotes the conjunction of cs (its absorption rule A AND (A OR B) = A is an equivalence); holds(NULL_CONSTRAINT, w) for every w")


@contract("pyanalyze.stacked_scopes.OrConstraint.make", props=["C02"], kind="assumed")
def _(c):
    c.param("cls", "val"); c.param("constraints", "seq")
    c.returns("val")
    c.functional = True
    c.fn_name = "OrConstraint.make"
    c.ensures("forall(lambda w: holds(result, w) == any(holds(x, w) for x in constraints), 'val')", name="disjunction")


@contract("pyanalyze.stacked_scopes.extract_constraints", props=["C02"])
def _(c):
    c.param("value", "obj:Value")
    c.returns("val")
    c.functional = True
    c.fieldspec("constraint", "val")
    c.callee("value.get_metadata_of_type", lambda k: (k.param("self", "val"), k.param("t", "val"), k.returns("seq"), setattr(k, "functional", True), setattr(k, "fn_name", "get_metadata_of_type")))
    c.requires("forall(lambda w: holds(NULL_CONSTRAINT, w), 'val')", name="theory.the_null_constraint_always_holds")
    # the constraint attached to a value must be implied by that value being truthy: a union is truthy when SOME member is,
    # so only the disjunction of the members' constraints may be concluded -- a member without a constraint contributes `true`
    c.ensures("implies(isa(value, MultiValuedValue) and len(value.vals) > 0, forall(lambda w: holds(result, w) == any(holds(extract_constraints(v), w) for v in value.vals), 'val'))",
              name="a_union_yields_the_disjunction_of_its_members_constraints")
    c.ensures("implies(isa(value, MultiValuedValue) and len(value.vals) == 0, result is NULL_CONSTRAINT)", name="empty_union_no_constraint")
    c.ensures("implies(isa(value, AnnotatedValue), forall(lambda w: holds(result, w) == (all(holds(e.constraint, w) for e in value.get_metadata_of_type(ConstraintExtension))"
              " and holds(extract_constraints(value.value), w)), 'val'))", name="an_annotated_value_yields_the_conjunction_of_its_own_and_its_inner_constraints")
    c.ensures("implies(not isa(value, MultiValuedValue) and not isa(value, AnnotatedValue), result is NULL_CONSTRAINT)", name="other_values_carry_no_constraint")


@REG.static_check("C02.comparator_table", props=P)
def _():
    """the comparison tables read by _constraint_from_compare_op / _constraint_from_predicate_provider / _visit_single_compare (re-read from
    the source on every run): COMPARATOR_TO_OPERATOR[X] = (the operator X denotes, its logical complement, ...) and MIRRORED_COMPARATORS[X] is
    the comparison with the operands exchanged (a X b == b mirror(X) a) -- the narrowing of the negative branch and of `const < len(x)` rest on both"""
    import ast as _ast
    from pyvc import extract
    mod = extract.get_module("pyanalyze.name_check_visitor")
    want = {"Eq": ("operator.eq", "operator.ne"), "NotEq": ("operator.ne", "operator.eq"), "Lt": ("operator.lt", "operator.ge"), "LtE": ("operator.le", "operator.gt"),
            "Gt": ("operator.gt", "operator.le"), "GtE": ("operator.ge", "operator.lt"), "Is": ("operator.is_", "operator.is_not"), "IsNot": ("operator.is_not", "operator.is_"),
            "In": ("_in", "_not_in"), "NotIn": ("_not_in", "_in")}
    mirror = {"Lt": "Gt", "LtE": "GtE", "Gt": "Lt", "GtE": "LtE"}
    out = []
    node = mod.assigns.get("COMPARATOR_TO_OPERATOR")
    if not isinstance(node, _ast.Dict):
        out.append({"name": "C02.comparator_table:shape", "ok": False, "detail": "COMPARATOR_TO_OPERATOR is no longer a dict display: the table cannot be read"})
    else:
        seen = set()
        for k, v in zip(node.keys, node.values):
            op = _ast.unparse(k).replace("ast.", "") if k is not None else None
            if op not in want or not isinstance(v, _ast.Tuple) or len(v.elts) != 3:
                continue
            seen.add(op)
            got = tuple(_ast.unparse(e) for e in v.elts[:2])
            out.append({"name": f"C02.comparator_table:{op}", "ok": got == want[op],
                        "detail": f"ast.{op}: table gives (positive, negative) = {got}, the operator and its complement are {want[op]}" if got != want[op] else f"ast.{op} -> {got}"})
        for op in sorted(set(want) - seen):
            out.append({"name": f"C02.comparator_table:{op}", "ok": False, "detail": f"ast.{op} has no 3-tuple row in COMPARATOR_TO_OPERATOR"})
    # the two helpers the In / NotIn rows name
    for fn, body in (("_in", ("operator.contains(b, a)", "a in b")), ("_not_in", ("not operator.contains(b, a)", "a not in b"))):
        f = mod.funcs.get(fn)
        src = None
        if f is not None and len(f.body) == 1 and isinstance(f.body[0], _ast.Return) and [a.arg for a in f.args.args] == ["a", "b"]:
            src = _ast.unparse(f.body[0].value)
        out.append({"name": f"C02.comparator_table:{fn}", "ok": src in body, "detail": f"{fn}(a, b) returns `{src}`, expected one of {body}"})
    node = mod.assigns.get("MIRRORED_COMPARATORS")
    if not isinstance(node, _ast.Dict):
        out.append({"name": "C02.comparator_table:mirror_shape", "ok": False, "detail": "MIRRORED_COMPARATORS is no longer a dict display"})
    else:
        got = {_ast.unparse(k).replace("ast.", ""): _ast.unparse(v).replace("ast.", "") for k, v in zip(node.keys, node.values) if k is not None}
        for op in sorted(set(got) | set(mirror)):
            ok = got.get(op) == mirror.get(op)
            out.append({"name": f"C02.comparator_table:mirror_{op}", "ok": ok,
                        "detail": f"MIRRORED_COMPARATORS[ast.{op}] = {got.get(op)}; `a {op} b` is `b {mirror.get(op)} a`" + ("" if ok else " (an operator with no row must be symmetric: only Eq, NotEq are)")})
    return out


# ---------------------------------------------------------------------------
# the length provider behind `len(x) <op> N` narrowing: a length may be claimed known only when every member is a single element

@contract("pyanalyze.implementation.len_of_value", props=P + ["C01"])
def _(c):
    c.param("val", "obj:Value")
    c.fieldspec("members", "seq[pair[bool,val]]")
    c.returns("val")
    c.requires("not (isa(val, SequenceValue) and isa(val, KnownValue))", name="class_hierarchy.no_value_class_derives_from_both_SequenceValue_and_KnownValue")
    c.ensures("implies(isa(val, SequenceValue) and isa(result, KnownValue), all(not truthy(m[0]) for m in val.members) and unI_(result.val) == len(val.members))",
              name="a_sequence_value_has_a_known_length_only_when_no_member_is_unpacked_and_it_is_the_member_count")
    c.ensures("implies(not isa(val, SequenceValue) and not isa(val, KnownValue), not isa(result, KnownValue))", name="other_values_have_no_known_length")

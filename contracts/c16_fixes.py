"""C16 — automatic fixes: one-step lemmas (pyanalyze/node_visitor.py)."""
from pyvc.dsl import REG, contract

REG.fieldspec(lines_to_add="opt[seq[str]]")
P = ["C16"]


@contract("builtins.sorted", props=P, kind="assumed")
def _(c):
    c.param("iterable", "seq[int]")
    c.param("key", "val")
    c.param("reverse", "val")
    c.returns("seq[int]")
    c.requires("key is None", name="no_key_function")
    c.ensures("len(result) == len(iterable)")
    c.ensures("forall(lambda x: contains(result, x) == contains(iterable, x), 'val')", name="same_members")
    c.ensures("all(exists(lambda j: 0 <= j and j < len(iterable) and result[i] == iterable[j]) for i in range(len(result)))", name="from_input")
    c.ensures("implies(truthy(reverse), all(result[i] >= result[i + 1] for i in range(len(result) - 1)))", name="descending")
    c.ensures("implies(not truthy(reverse), all(result[i] <= result[i + 1] for i in range(len(result) - 1)))", name="ascending")
    c.assume("builtin sorted() on ints: a permutation in the requested order")


@contract("pyanalyze.node_visitor.BaseNodeVisitor._apply_changes_to_lines", props=P)
def _(c):
    c.param("changes", "seq[obj:Replacement]")
    c.param("input_lines", "seq[str]")
    c.returns("seq[str]")
    c.let("ch", "changes[0]")
    c.requires("implies(len(changes) > 0 and changes[0].lines_to_add is not None,"
               " len(changes[0].linenos_to_delete) == 1 and 1 <= changes[0].linenos_to_delete[0] and changes[0].linenos_to_delete[0] <= len(input_lines))",
               name="single_line_replacement_inside_file")
    c.assume("scope: replacements that delete exactly one line inside the file (every Replacement built in node_visitor.py); multi-line deletions (replace_node) are not covered")
    c.loop(0, unroll=1)
    c.strict_index += ["lines[lineno - 1]"]
    c.ensures("implies(len(changes) == 0 or changes[0].lines_to_add is None, seq_eq(result, input_lines))", name="no_change_without_additions")
    c.ensures("implies(len(changes) > 0 and changes[0].lines_to_add is not None,"
              " seq_eq(result, concat(concat(input_lines[:changes[0].linenos_to_delete[0] - 1], changes[0].lines_to_add), input_lines[changes[0].linenos_to_delete[0]:])))",
              name="replaces_exactly_the_deleted_line")
    c.ensures("implies(len(changes) > 1, True)", name="later_changes_ignored")


# ---------------------------------------------------------------------------
# the add-ignores step: what show_error proposes, and the lemma over the two contracts

import z3
from pyvc.dsl import lemma
from pyvc.core import Obligation, V, IntS, BoolS
from pyvc import seqs as Q


@lemma("add_ignores_step", props=P)
def _():
    """Pure logic over (i) show_error's postcondition `proposed_ignore_line_is_own_line_form` and (ii)
    _apply_changes_to_lines' postcondition `replaces_exactly_the_deleted_line`:
    L' = L[:n-1] ++ [c, L[n-1]] ++ L[n:], own(c, code0)."""
    L, L2 = z3.Const("L", Q.Sq), z3.Const("L2", Q.Sq)
    n, m, i, k, j = z3.Ints("n m i k j")
    c, code0, code = z3.Const("c", V), z3.Const("code0", V), z3.Const("code", V)
    bare = z3.Function("ign_bare", V, BoolS)            # trailing bare ignore in the line
    coded = z3.Function("ign_coded", V, V, BoolS)       # trailing ignore[code] in the line
    own = z3.Function("ign_own", V, V, BoolS)           # the line *is* an ignore comment (bare, or for code)
    hsh = z3.Function("starts_hash", V, BoolS)
    at, slen = Q.at, Q.slen

    def suppressed(S, mm, cd):
        return z3.Or(bare(at(S, mm - 1)), coded(at(S, mm - 1), cd), z3.And(mm >= 2, own(at(S, mm - 2), cd)))

    def file_ignored(S, cd):
        kk, jj = z3.Int("fk"), z3.Int("fj")
        return z3.Exists([kk], z3.And(0 <= kk, kk < slen(S), own(at(S, kk), cd),
                                      z3.ForAll([jj], z3.Implies(z3.And(0 <= jj, jj <= kk), hsh(at(S, jj))))))

    hyps = [
        1 <= n, n <= slen(L), slen(L2) == slen(L) + 1,
        z3.ForAll([i], z3.Implies(z3.And(0 <= i, i < n - 1), at(L2, i) == at(L, i))),
        at(L2, n - 1) == c,
        z3.ForAll([i], z3.Implies(z3.And(n <= i, i < slen(L2)), at(L2, i) == at(L, i - 1))),
        own(c, code0),
        # an own-line comment has no trailing-ignore reading of another line's code: it *is* the line
        z3.ForAll([i], slen(L) >= 0),
    ]
    shift = lambda mm: z3.If(mm < n, mm, mm + 1)
    obs = []
    obs.append(Obligation("lemma.add_ignores_step#error_now_suppressed", "lemma", hyps, suppressed(L2, n + 1, code0), "lemma", "lemma.add_ignores_step"))
    obs.append(Obligation("lemma.add_ignores_step#code_line_unchanged", "lemma", hyps, at(L2, n) == at(L, n - 1), "lemma", "lemma.add_ignores_step"))
    obs.append(Obligation("lemma.add_ignores_step#frame.other_lines", "lemma", hyps,
                          z3.ForAll([m, code], z3.Implies(z3.And(1 <= m, m <= slen(L), m != n),
                                                          suppressed(L2, shift(m), code) == suppressed(L, m, code))), "lemma", "lemma.add_ignores_step"))
    obs.append(Obligation("lemma.add_ignores_step#frame.same_line_other_code", "lemma", hyps,
                          z3.ForAll([code], z3.Implies(code != code0, suppressed(L2, n + 1, code) == suppressed(L, n, code))), "lemma", "lemma.add_ignores_step"))
    obs.append(Obligation("lemma.add_ignores_step#frame.same_line_other_code.no_previous_own_line_ignore", "lemma",
                          hyps + [z3.ForAll([code], z3.Implies(code != code0, z3.And(z3.Not(own(c, code)), z3.Or(n < 2, z3.Not(own(at(L, n - 2), code))))))],
                          z3.ForAll([code], z3.Implies(code != code0, suppressed(L2, n + 1, code) == suppressed(L, n, code))), "lemma", "lemma.add_ignores_step"))
    obs.append(Obligation("lemma.add_ignores_step#frame.file_level", "lemma", hyps,
                          z3.ForAll([code], file_ignored(L2, code) == file_ignored(L, code)), "lemma", "lemma.add_ignores_step"))
    obs.append(Obligation("lemma.add_ignores_step#frame.file_level.after_first_code_line", "lemma",
                          hyps + [z3.Exists([j], z3.And(0 <= j, j < n - 1, z3.Not(hsh(at(L, j)))))],
                          z3.ForAll([code], file_ignored(L2, code) == file_ignored(L, code)), "lemma", "lemma.add_ignores_step"))
    return obs


@contract("pyanalyze.format_strings.maybe_replace_with_fstring", props=["C16"])
def _(c):
    c.param("fs", "obj:PercentFormatString")
    c.param("args_node", "val")
    c.returns("val")
    c.fieldspec("specifiers", "seq[obj:ConversionSpecifier]")
    c.fieldspec("raw_pieces", "seq")
    c.fieldspec("pattern", "val")
    c.fieldspec("elts", "seq")
    for f in ("mapping_key", "conversion_flags", "field_width", "precision", "length_modifier", "conversion_type"):
        c.fieldspec(f, "val")
    c.callee("_is_simple_enough", lambda k: (k.param("n", "val"), k.returns("bool"), setattr(k, "functional", True), setattr(k, "fn_name", "_is_simple_enough")))
    c.loop(0, invariant="True")
    c.loop(1, invariant="True")
    c.requires("len(fs.raw_pieces) >= 1", name="class_invariant.a_pattern_has_one_more_raw_piece_than_specifiers")
    # an f-string rewrite `{x}` means str(x): it preserves the meaning only of bare %s / %d conversions
    plain = ("all(not truthy(cs.mapping_key) and not truthy(cs.conversion_flags) and not truthy(cs.field_width) and not truthy(cs.precision) and not truthy(cs.length_modifier)"
             " and cs.conversion_type in ('d', 's') for cs in fs.specifiers)")
    c.ensures(f"implies(result is not None, {plain})", name="a_rewrite_is_proposed_only_for_bare_d_and_s_conversions")
    c.ensures("implies(result is not None, not isinstance(fs.pattern, bytes))", name="never_for_bytes_patterns")
    c.assume("semantic equivalence of the rewritten f-string itself (the JoinedStr built from the raw pieces) is covered by the bounded fix-apply-recheck check only")

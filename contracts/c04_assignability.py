"""C04 — type-to-type assignability: sound for membership (pyanalyze/value.py).

Behavioural contract of the dynamically dispatched `Value.can_assign` (assumed at call sites, every override
under contract is verified against it):  static(self) and static(other) and not is_error(result)
==> gamma(other) included in gamma(self).  Overrides additionally get characterising postconditions."""
from pyvc.dsl import REG, contract

P = ["C04"]
ALL = ["C04", "C15", "C03", "C02", "C06", "C08", "C17", "C20", "C14", "C01", "C07"]

SOUND = "implies(not is_error(result) and static(self) and static(other), subset(other, self))"


@contract("method:can_assign", props=ALL, kind="assumed")
def _(c):
    c.param("self", "val"); c.param("other", "val"); c.param("ctx", "val")
    c.returns("val")
    c.functional = True
    c.fn_name = "can_assign"
    c.ensures(SOUND, name="sound")
    c.ensures("is_error(result) or is_bounds_map(result)", name="error_or_bounds_map")
    c.assume("Value.can_assign (dynamic dispatch): sound for membership between static values; verified for the overrides under contract in C04, assumed for the others (GenericValue, SequenceValue, TypedDictValue, CallableValue, protocols, ...)")


@contract("method:is_assignable", props=ALL, kind="assumed")
def _(c):
    c.param("self", "val"); c.param("other", "val"); c.param("ctx", "val")
    c.returns("bool")
    c.functional = True
    c.fn_name = "is_assignable"
    c.ensures("implies(result and static(self) and static(other), subset(other, self))", name="sound")
    c.ensures("result == (not is_error(self.can_assign(other, ctx)))", name="is_can_assign_without_error")
    c.assume("Value.is_assignable = isinstance(self.can_assign(other, ctx), dict) (kernel Value.is_assignable below)")


@contract("method:can_be_assigned", props=P, kind="assumed")
def _(c):
    c.param("self", "val"); c.param("other", "val"); c.param("ctx", "val")
    c.returns("val")
    c.functional = True
    c.fn_name = "can_be_assigned"
    c.ensures("implies(not is_error(result) and static(self) and static(other), subset(self, other))", name="sound")
    c.ensures("is_error(result) or is_bounds_map(result)", name="error_or_bounds_map")
    c.assume("can_be_assigned(self, other): `self` is accepted where `other` is expected; dispatch contract verified for AnnotatedValue and TypeAliasValue")


@contract("method:should_exclude_any", props=ALL, kind="assumed")
def _(c):
    c.param("self", "val")
    c.returns("bool")
    c.functional = True


@contract("method:record_any_used", props=ALL, kind="assumed")
def _(c):
    c.param("self", "val")
    c.returns("val")


@contract("pyanalyze.value.unify_bounds_maps", props=P)
def _(c):
    c.param("bounds_maps", "seq[dict[val,seq]]")
    c.returns("dict")
    c.unmodelled += ["result.setdefault"]
    c.ensures("True", name="total_never_an_error")


@contract("pyanalyze.value.intersect_bounds_maps", props=P, kind="assumed")
def _(c):
    c.param("bounds_maps", "seq")
    c.returns("dict")
    c.assume("intersect_bounds_maps returns a dict (never an error); its set iteration is examined under C10")


@contract("pyanalyze.value.Value.is_assignable", props=P)
def _(c):
    c.returns("bool")
    c.functional = True
    c.fn_name = "is_assignable"
    c.ensures("result == (not is_error(self.can_assign(other, ctx)))", name="is_can_assign_without_error")


@contract("pyanalyze.value.Value.can_assign", props=P)
def _(c):
    c.returns("val")
    c.functional = True
    c.fn_name = "can_assign"
    c.fieldspec("secondary_attr_name", "val")
    c.loop(0, invariant=[("members_so_far_accepted", "all(not is_error(self.can_assign(other.vals[j], ctx)) for j in range(_k0))"),
                         ("members_so_far_included", "all(implies(static(self) and static(other.vals[j]), subset(other.vals[j], self)) for j in range(_k0))"),
                         ("maps", "all(is_bounds_map(m) for m in bounds_maps)")])
    c.ensures(SOUND, name="sound")
    c.ensures("is_error(result) or is_bounds_map(result)", name="error_or_bounds_map")
    accept = ("((isa(other, AnyValue) and not ctx.should_exclude_any())"
              " or (not (isa(other, AnyValue) and not ctx.should_exclude_any()) and isa(other, MultiValuedValue)"
              "     and (other is NO_RETURN_VALUE or all(not is_error(self.can_assign(m, ctx)) for m in other.vals)))"
              " or (not (isa(other, AnyValue) and not ctx.should_exclude_any()) and not isa(other, MultiValuedValue) and isa(other, (AnnotatedValue, TypeVarValue, TypeAliasValue))"
              "     and not is_error(other.can_be_assigned(self, ctx)))"
              " or (not (isa(other, AnyValue) and not ctx.should_exclude_any()) and not isa(other, (MultiValuedValue, AnnotatedValue, TypeVarValue, TypeAliasValue))"
              "     and ((isa(other, UnboundMethodValue) and other.secondary_attr_name is not None) or self == other)))")
    c.ensures(f"(not is_error(result)) == {accept}", name="accepts_exactly_any_never_unions_memberwise_wrappers_and_equal_values")
    c.ensures("implies(other is NO_RETURN_VALUE, not is_error(result))", name="never_is_accepted_everywhere")
    c.ensures("implies(self == other, not is_error(result) or isa(other, (MultiValuedValue, AnnotatedValue, TypeVarValue, TypeAliasValue)))", name="reflexive_on_plain_values")


@contract("pyanalyze.value.AnyValue.can_assign", props=P)
def _(c):
    c.returns("val")
    c.functional = True
    c.fn_name = "can_assign"
    c.ensures(SOUND, name="sound")
    c.ensures("implies(not isa(other, (AnnotatedValue, MultiValuedValue)), not is_error(result))", name="any_accepts_every_plain_value")


@contract("method:get_fallback_value", props=ALL, kind="assumed")
def _(c):
    c.param("self", "val")
    c.returns("val")
    c.functional = True


@contract("pyanalyze.value.MultiValuedValue.can_assign", props=P)
def _(c):
    c.returns("val")
    c.functional = True
    c.fn_name = "can_assign"
    c.fieldspec("_known_subvals", "opt[pair[hset,seq]]")
    c.requires("wf_union(self)", name="self_well_formed")
    c.requires("implies(not isa(other, TypeVarValue), wf_union(other) and implies(isa(other, AnnotatedValue), wf_union(other.value)))", name="other_well_formed")
    # data-structure invariant of the literal fast path (established by _get_known_subvals)
    c.requires("implies(self._known_subvals is not None,"
               " all(exists(lambda j: 0 <= j and j < len(self.vals) and same(m, self.vals[j])) for m in self._known_subvals[1])"
               " and forall(lambda k: implies(pair_in(k, self._known_subvals[0]),"
               "     exists(lambda j: 0 <= j and j < len(self.vals) and isa(self.vals[j], KnownValue) and same_literal_key(k, self.vals[j]))), 'val'))",
               name="known_subvals_invariant")
    c.loop(0, invariant=[("members_so_far_accepted", "all(not is_error(self.can_assign(_seq0[j], ctx)) for j in range(_k0))"),
                         ("members_so_far_included", "all(implies(static(self) and static(_seq0[j]), subset(_seq0[j], self)) for j in range(_k0))"),
                         ("maps", "all(is_bounds_map(m) for m in bounds_maps) and len(bounds_maps) == _k0")])
    c.loop(1, invariant=[("accepting_member", "all(exists(lambda j: 0 <= j and j < _k1 and not is_error(_seq1[j].can_assign(other, ctx)) and implies(static(_seq1[j]) and static(other), subset(other, _seq1[j]))) for m in bounds_maps)"),
                         ("maps", "all(is_bounds_map(m) for m in bounds_maps)"),
                         ("none_yet", "implies(len(bounds_maps) == 0, all(is_error(_seq1[j].can_assign(other, ctx)) for j in range(_k1)))")])
    c.ensures("implies(not isa(other, TypeVarValue), " + SOUND + ")", name="sound")
    c.ensures("is_error(result) or is_bounds_map(result)", name="error_or_bounds_map")
    c.ensures("implies(other is NO_RETURN_VALUE, not is_error(result))", name="never_is_accepted")
    c.ensures("implies(not isa(other, TypeVarValue) and not union_like(other) and not (isa(other, AnyValue) and not ctx.should_exclude_any()) and self._known_subvals is None,"
              " (not is_error(result)) == any(not is_error(m.can_assign(other, ctx)) for m in self.vals))", name="a_union_accepts_what_one_of_its_members_accepts")
    c.ensures("implies(isa(other, MultiValuedValue) and other is not NO_RETURN_VALUE,"
              " (not is_error(result)) == (len(other.vals) > 0 and all(not is_error(self.can_assign(m, ctx)) for m in other.vals)))", name="a_union_is_accepted_exactly_when_each_member_is")


@contract("pyanalyze.value.AnnotatedValue.get_metadata_of_type", props=P)
def _(c):
    c.generator = True
    c.returns("seq")
    c.functional = True
    c.unique_dispatch = True
    c.loop(0, invariant=[("filtered_prefix", "all(isinst(r, typ) and exists(lambda j: 0 <= j and j < _k0 and same(r, self.metadata[j])) for r in _yielded)"
                                             " and all(implies(isinst(self.metadata[j], typ), exists(lambda t: 0 <= t and t < len(_yielded) and same(_yielded[t], self.metadata[j]))) for j in range(_k0))")])
    c.ensures("all(isinst(r, typ) and exists(lambda j: 0 <= j and j < len(self.metadata) and same(r, self.metadata[j])) for r in result)", name="only_matching_metadata")
    c.ensures("all(implies(isinst(m, typ), exists(lambda t: 0 <= t and t < len(result) and same(result[t], m))) for m in self.metadata)", name="every_matching_item")


@contract("pyanalyze.value.AnnotatedValue.can_assign", props=P)
def _(c):
    c.returns("val")
    c.functional = True
    c.fn_name = "can_assign"
    c.loop(0, invariant=[("extensions_so_far_accept", "all(not is_error(_seq0[j].can_assign(other, ctx)) for j in range(_k0))"),
                         ("extensions_so_far_include", "all(implies(static(_seq0[j]) and static(other), subset(other, _seq0[j])) for j in range(_k0))"),
                         ("maps", "all(is_bounds_map(m) for m in bounds_maps)")])
    c.ensures("is_error(result) or is_bounds_map(result)", name="error_or_bounds_map")
    c.ensures("(not is_error(result)) == (not is_error(self.value.can_assign(other, ctx))"
              " and all(not is_error(e.can_assign(other, ctx)) for e in self.get_metadata_of_type(Extension)))", name="accepts_iff_inner_type_and_every_extension_accept")
    c.ensures(SOUND, name="sound")


@contract("pyanalyze.value.AnnotatedValue.can_be_assigned", props=P)
def _(c):
    c.returns("val")
    c.functional = True
    c.fn_name = "can_be_assigned"
    c.loop(0, invariant=[("maps", "all(is_bounds_map(m) for m in bounds_maps)")])
    c.ensures("is_error(result) or is_bounds_map(result)", name="error_or_bounds_map")
    c.ensures("implies(not is_error(result), not is_error(other.can_assign(self.value, ctx)))", name="the_inner_type_is_accepted")
    c.ensures("implies(not is_error(result) and static(self) and static(other), subset(self, other))", name="sound")


@contract("method:get_value", props=ALL, kind="assumed")
def _(c):
    c.param("self", "val")
    c.returns("val")
    c.functional = True
    c.ensures("implies(isa(self, TypeAliasValue), same_members(result, self) and implies(static(self), static(result)))", name="an_alias_means_its_value")
    c.assume("TypeAliasValue.get_value(): gamma(alias) is defined as gamma(alias.get_value()) (alias evaluation: annotations machinery, external to this property)")


@contract("pyanalyze.value.TypeAliasValue.can_assign", props=P)
def _(c):
    c.returns("val")
    c.functional = True
    c.fn_name = "can_assign"
    c.fieldspec("alias", "val")
    c.ensures("is_error(result) or is_bounds_map(result)", name="error_or_bounds_map")
    c.ensures("implies(not (isa(other, TypeAliasValue) and self.alias is other.alias), result is self.get_value().can_assign(other, ctx))", name="delegates_to_the_aliased_type")
    c.ensures("implies(isa(other, TypeAliasValue) and self.alias is other.alias and self.type_arguments == other.type_arguments, not is_error(result))", name="same_alias_is_accepted")
    c.ensures("implies(not (isa(other, TypeAliasValue) and self.alias is other.alias), " + SOUND + ")", name="sound")


@contract("pyanalyze.value.TypeAliasValue.can_be_assigned", props=P)
def _(c):
    c.returns("val")
    c.functional = True
    c.fn_name = "can_be_assigned"
    c.fieldspec("alias", "val")
    c.ensures("implies(not (isa(other, TypeAliasValue) and self.alias is other.alias), result is other.can_assign(self.get_value(), ctx))", name="delegates_to_the_aliased_type")
    c.ensures("implies(not (isa(other, TypeAliasValue) and self.alias is other.alias) and not is_error(result) and static(self) and static(other), subset(self, other))", name="sound")


@contract("pyanalyze.value.TypedDictValue.can_assign", props=P)
def _(c):
    c.returns("val")
    c.functional = True
    c.fn_name = "can_assign"
    c.fieldspec("items", "dict[str,obj:TypedDictEntry]")
    c.fieldspec("required", "bool")
    c.fieldspec("readonly", "bool")
    c.fieldspec("extra_keys_readonly", "bool")
    c.fieldspec("extra_keys", "val")
    c.fieldspec("typ", "val")
    c.fieldspec("kv_pairs", "seq")
    c.fieldspec("val", "val")
    c.callee("unify_bounds_maps", lambda k: (k.param("maps", "seq"), k.returns("val"), k.ensures("not is_error(result)")))
    c.callee("TypedValue", lambda k: (k.param("t", "val"), k.returns("obj:TypedValue"), setattr(k, "functional", True), setattr(k, "fn_name", "new_TypedValue"), k.ensures("result.typ is t")))
    c.callee("super().can_assign", lambda k: (k.param("other", "val"), k.param("ctx", "val"), k.returns("val")))
    c.callee("other.get_value", lambda k: (k.param("self", "val"), k.param("key", "val"), k.param("ctx", "val"), k.returns("val")))
    c.callee("flatten_values", lambda k: (k.param("v", "val"), k.param("unwrap_annotated", "val"), k.returns("seq")))
    c.callee("KnownValue", lambda k: (k.param("v", "val"), k.returns("obj:KnownValue")))
    c.ignore_exceptions += ["ValueError"]   # `for key, value in other.val.items()` in the dict-literal branch (outside the specified scope): items() yields pairs
    # scope of the specification: another TypedDict type on the right (PEP 589 / 705 structural rules)
    td = "(isa(other, TypedDictValue) and not isa(other, DictIncompleteValue))"
    ex = "(other.extra_keys or TypedValue(object))"
    missing_ok = f"(not self.items[k].required and self.items[k].readonly and not is_error(self.items[k].typ.can_assign({ex}, ctx)))"
    present_ok = ("(not (self.items[k].required and not other.items[k].required)"
                  " and not (not self.items[k].required and not self.items[k].readonly and other.items[k].required)"
                  " and not (not self.items[k].readonly and other.items[k].readonly)"
                  " and not is_error(self.items[k].typ.can_assign(other.items[k].typ, ctx))"
                  " and (self.items[k].readonly or not is_error(other.items[k].typ.can_assign(self.items[k].typ, ctx))))")
    key_ok = f"ite(k in other.items, {present_ok}, {missing_ok})"
    keys = "list(self.items)"
    for i in (0, 1, 2, 4, 5, 6):
        c.loop(i, invariant="True")
    c.loop(3, invariant=[("keys_so_far_satisfy_the_structural_rules", f"all((lambda k: {key_ok})({keys}[j]) for j in range(_k3))")])
    extra_ok = (f"(not (not self.extra_keys_readonly and other.extra_keys_readonly) and (self.extra_keys is None or (not is_error(self.extra_keys.can_assign({ex}, ctx))"
                f" and (self.extra_keys_readonly or not is_error({ex}.can_assign(self.extra_keys, ctx))))))")
    c.ensures(f"implies({td}, (not is_error(result)) == (all((lambda k: {key_ok})(k) for k in self.items) and {extra_ok}))",
              name="a_typed_dict_is_accepted_iff_every_key_and_the_extra_keys_satisfy_the_structural_rules")
    c.assume("scope: the TypedDict-vs-TypedDict branch (dict displays and dict literals on the right are covered by the bounded type-pair check only); "
             "rules per key: a key missing on the right must be non-required, read-only and typed to accept the right's extra-keys type; a present key must not weaken "
             "requiredness, must not be read-only where ours is mutable, must be covariant, and invariant when ours is mutable")


@REG.static_check("C04.unify_bounds_maps_owns_its_lists", props=["C04", "C10"])
def _():
    """frame condition the value-based VC encoding cannot express (lists are values there, not references): unify_bounds_maps must neither
    mutate the bounds lists of the maps it is given nor store one of them in its result (the maps are cached and shared: TypeObject's protocol
    cache returns the same map object on every hit).  Mechanical check of the function's AST, re-read on every run."""
    import ast as _ast
    from pyvc import extract
    fn = extract.get_module("pyanalyze.value").funcs.get("unify_bounds_maps")
    if fn is None:
        return [{"name": "C04.unify_bounds_maps_owns_its_lists:present", "ok": False, "detail": "pyanalyze.value.unify_bounds_maps not found"}]
    tainted = {a.arg for a in fn.args.args}
    changed = True
    while changed:
        changed = False
        for n in _ast.walk(fn):
            src = tgt = None
            if isinstance(n, (_ast.For, _ast.comprehension)):
                src, tgt = n.iter, n.target
            elif isinstance(n, _ast.Assign) and len(n.targets) == 1 and isinstance(n.targets[0], (_ast.Name, _ast.Tuple)):
                src, tgt = n.value, n.targets[0]
                if not bare_ref(src, tainted):
                    src = None
            if src is not None and any(isinstance(x, _ast.Name) and x.id in tainted for x in _ast.walk(src)):
                for x in _ast.walk(tgt):
                    if isinstance(x, _ast.Name) and x.id not in tainted:
                        tainted.add(x.id)
                        changed = True
    MUT = {"append", "extend", "insert", "pop", "remove", "clear", "sort", "reverse", "update", "setdefault", "add", "discard", "__iadd__"}
    bad = []
    for n in _ast.walk(fn):
        if isinstance(n, _ast.Call) and isinstance(n.func, _ast.Attribute) and n.func.attr in MUT and bare_ref(n.func.value, tainted):
            bad.append(f"line {n.lineno}: `{_ast.unparse(n)[:80]}` mutates an object that belongs to an argument")
        if isinstance(n, _ast.Call) and isinstance(n.func, _ast.Attribute) and n.func.attr == "setdefault" and len(n.args) == 2 and bare_ref(n.args[1], tainted):
            bad.append(f"line {n.lineno}: `{_ast.unparse(n)[:80]}` stores an argument's own list in the result")
        if isinstance(n, _ast.Assign) and any(isinstance(t, _ast.Subscript) for t in n.targets) and bare_ref(n.value, tainted):
            bad.append(f"line {n.lineno}: `{_ast.unparse(n)[:80]}` stores an argument's own list in the result (a later extend would write through to the caller's map)")
        if isinstance(n, _ast.AugAssign) and bare_ref(n.target, tainted):
            bad.append(f"line {n.lineno}: `{_ast.unparse(n)[:80]}` updates an object that belongs to an argument in place")
    return [{"name": "C04.unify_bounds_maps_owns_its_lists", "ok": not bad, "detail": "; ".join(bad) or "no argument-owned list is mutated or stored in the result"}]


def bare_ref(e, tainted):
    """the expression evaluates to (possibly) the very object a tainted name refers to: the name itself, a conditional / boolean choice of it, a subscript or attribute of it"""
    import ast as _ast
    if isinstance(e, _ast.Name):
        return e.id in tainted
    if isinstance(e, _ast.IfExp):
        return bare_ref(e.body, tainted) or bare_ref(e.orelse, tainted)
    if isinstance(e, _ast.BoolOp):
        return any(bare_ref(v, tainted) for v in e.values)
    if isinstance(e, (_ast.Subscript, _ast.Attribute)):
        return bare_ref(e.value, tainted)
    if isinstance(e, _ast.NamedExpr):
        return bare_ref(e.value, tainted)
    return False

"""C10 — determinism: non-interference from the set-iteration-order oracle (sites found mechanically every run)."""
import json
import os

from pyvc.dsl import REG, contract
from pyvc.orderscan import scan_modules

P = ["C10"]
MODULES = ["pyanalyze.value", "pyanalyze.stacked_scopes", "pyanalyze.signature", "pyanalyze.type_object", "pyanalyze.checker",
           "pyanalyze.name_check_visitor", "pyanalyze.arg_spec", "pyanalyze.format_strings", "pyanalyze.type_evaluation", "pyanalyze.options",
           "pyanalyze.typevar", "pyanalyze.predicates", "pyanalyze.boolability", "pyanalyze.node_visitor", "pyanalyze.implementation"]
TABLE = os.path.join(os.path.dirname(os.path.dirname(os.path.abspath(__file__))), "c10_sites.json")


@REG.static_check("C10.order_oracle_sites", props=P)
def _():
    """every order-sensitive consumer of a set in the anchored modules must have a recorded disposition:
    proved (kernel under contract whose postconditions are order-free although the executor iterates an arbitrary
    permutation), order-free by a stated syntactic rule, or argued; an unknown site is a failed obligation."""
    with open(TABLE) as f:
        table = json.load(f)
    known = {(e["function"], e["kind"], e["expr"]): e for e in table["sites"]}
    out = []
    found = set()
    for s in scan_modules(MODULES):
        key = (s["function"], s["kind"], s["expr"])
        found.add(key)
        e = known.get(key)
        if e is None:
            out.append({"name": f"C10.site:{s['function']}:{s['kind']}:{s['expr']}", "ok": False,
                        "detail": f"new order-sensitive use of a set at {s['module']} line {s['line']} ({s['kind']}: {s['expr']}) has no disposition in c10_sites.json: "
                                  "its iteration order (hash seed / object addresses) can reach diagnostics"})
        else:
            out.append({"name": f"C10.site:{s['function']}:{s['kind']}:{s['expr']}", "ok": True, "detail": e["disposition"], "line": s["line"]})
    return out


@contract("pyanalyze.stacked_scopes.uniq_chain", props=P + ["C09"])
def _(c):
    c.param("iterables", "seq[seq]")
    c.returns("seq")
    c.ensures("forall(lambda x: contains(result, x) == exists(lambda k: 0 <= k and k < len(iterables) and contains(iterables[k], x), 'int'), 'val')", name="members_are_exactly_the_members_of_the_operands")
    c.ensures("distinct(result)", name="no_duplicates")
    c.assume("OrderedDict.fromkeys keeps first-occurrence order (insertion-ordered de-duplication, modelled as dict.fromkeys); no set is iterated; members are compared by identity (definition nodes are AST nodes, whose == is identity)")
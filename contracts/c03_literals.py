"""C03 — assignability of a concrete value = runtime membership: the nominal check (pyanalyze/type_object.py) and
the literal-vs-type dispatch of TypedValue / KnownValue (pyanalyze/value.py)."""
from pyvc.dsl import REG, contract

REG.fieldspec(base_classes="set", artificial_bases="set", is_protocol="bool", is_thrift_enum="bool", is_universally_assignable="bool",
              protocol_members="set[str]", literal_only="bool")
P = ["C03"]
P4 = ["C03", "C04"]

for q, r in [("pyanalyze.safe.safe_issubclass", "bool"), ("pyanalyze.safe.safe_isinstance", "bool"), ("pyanalyze.safe.safe_equals", "bool")]:
    pass


def _pure2(name, res="bool"):
    def build(c):
        c.returns(res)
        c.functional = True
    return build


contract("pyanalyze.safe.safe_issubclass", props=P4, kind="assumed")(_pure2("safe_issubclass"))
contract("pyanalyze.safe.safe_isinstance", props=P4, kind="assumed")(_pure2("safe_isinstance"))
contract("pyanalyze.safe.safe_equals", props=P4 + ["C14", "C02"], kind="assumed")(_pure2("safe_equals"))
contract("pyanalyze.type_object.get_mro", props=P4, kind="assumed")(lambda c: (c.returns("seq"), setattr(c, "functional", True)))


@contract("pyanalyze.safe.safe_in", props=P4, kind="assumed")
def _(c):
    c.param("collection", "set")
    c.returns("bool")
    c.functional = True
    c.ensures("result == (item in collection)", name="membership")
    c.assume("safe_in(item, collection) = `item in collection` (False if the test raises); collections here are sets of classes")


@contract("pyanalyze.type_object.TypeObject.__post_init__", props=P4)
def _(c):
    c.fieldspec("typ", "val")
    c.modifies("self.base_classes", "self.artificial_bases", "self.is_thrift_enum", "self.is_universally_assignable")
    c.raises("AssertionError", when="not isinstance(self.typ, str) and not isinstance(self.typ, super) and not isinstance(self.typ, type)")
    real = "(not isinstance(self.typ, str))"
    intlike = "(self.typ is int or (int in set_or(old(self.base_classes), get_mro(self.typ))))"
    floatlike = "(self.typ is float or (float in set_or(old(self.base_classes), get_mro(self.typ))))"
    c.ensures(f"implies({real}, forall(lambda b: (b in self.base_classes) == ((b in old(self.base_classes)) or contains(get_mro(self.typ), b) or (b in self.artificial_bases)), 'val'))",
              name="bases_are_the_mro_plus_artificial_bases")
    c.ensures(f"implies({real}, (float in self.artificial_bases) == (float in old(self.artificial_bases) or {intlike}))", name="int_promotes_to_float")
    c.ensures(f"implies({real}, (complex in self.artificial_bases) == (complex in old(self.artificial_bases) or {intlike} or {floatlike}))", name="int_and_float_promote_to_complex")
    c.ensures(f"implies({real}, (int in self.artificial_bases) == (int in old(self.artificial_bases) or hasattr(self.typ, '_VALUES_TO_NAMES')))", name="only_thrift_enums_promote_to_int")
    c.ensures(f"implies({real}, forall(lambda b: implies(b in self.artificial_bases, (b in old(self.artificial_bases)) or b is float or b is complex or b is int), 'val'))", name="no_other_artificial_bases")
    c.ensures("implies(isinstance(self.typ, str), not self.is_universally_assignable and not self.is_thrift_enum)", name="synthetic_types")


@contract("pyanalyze.type_object.TypeObject.is_assignable_to_type", props=P4)
def _(c):
    c.returns("bool")
    c.functional = True
    c.loop(0, invariant=("none_so_far", "all(isinstance(_seq0[j], str) or not safe_issubclass(_seq0[j], typ) for j in range(_k0))"))
    c.ensures("result == (self.is_universally_assignable or exists(lambda b: (b in self.base_classes) and not isinstance(b, str) and safe_issubclass(b, typ), 'val'))",
              name="some_base_is_a_subclass")


@contract("pyanalyze.type_object.TypeObject.is_instance", props=P4)
def _(c):
    c.returns("bool")
    c.functional = True
    c.ensures("result == safe_isinstance(obj, self.typ)")


@contract("method:get_type_object", props=P4, kind="assumed")
def _(c):
    c.param("self", "val"); c.param("ctx", "val")
    c.returns("obj:TypeObject")
    c.functional = True
    c.assume("get_type_object(ctx) returns the (cached) TypeObject of the value's type")


@contract("method:can_assume_compatibility", props=P4, kind="assumed")
def _(c):
    c.param("self", "val"); c.param("left", "val"); c.param("right", "val")
    c.returns("bool")


@contract("pyanalyze.type_object.TypeObject.can_assign", props=P4)
def _(c):
    c.param("self_val", "val"); c.param("other_val", "val"); c.param("ctx", "val")
    c.returns("val")
    c.functional = True
    c.fieldspec("typ", "val")
    c.fieldspec("_protocol_positive_cache", "val")
    c.unmodelled += ["self._protocol_positive_cache"]
    c.transparent_with += ["ctx.assume_compatibility"]
    c.callee("self._is_compatible_with_protocol", lambda k: (k.param("self", "val"), k.param("self_val", "val"), k.param("other_val", "val"), k.param("ctx", "val"), k.returns("val")))
    c.assume("the protocol branch (structural matching, recursion guard, positive cache) is executed but not specified: protocols are outside the claimed scope")
    c.let("other", "other_val.get_type_object(ctx)")
    nominal = ("(not other.is_universally_assignable and not isinstance(self.typ, super) and not self.is_protocol"
               " and not other.is_protocol and not isinstance(self.typ, str))")
    c.loop(0, invariant=("no_base_matches_so_far", "all(not (_seq0[j] is self.typ) and not (isinstance(_seq0[j], type) and safe_issubclass(_seq0[j], self.typ)) for j in range(_k0))"))
    c.ensures(f"implies({nominal}, (not is_error(result)) == exists(lambda b: (b in other.base_classes) and (b is self.typ or (isinstance(b, type) and safe_issubclass(b, self.typ))), 'val'))",
              name="nominal_accepts_iff_some_base_class_of_the_other_type_is_a_subclass")
    c.ensures("implies(other.is_universally_assignable, not is_error(result))", name="mock_objects_are_universally_assignable")
    c.ensures("implies(not other.is_universally_assignable and not isinstance(self.typ, super) and not self.is_protocol and not other.is_protocol and isinstance(self.typ, str),"
              " (not is_error(result)) == (self.typ in other.base_classes))", name="synthetic_type_by_name")


@contract("pyanalyze.value.TypedValue.can_assign", props=P4)
def _(c):
    c.returns("val")
    c.functional = True
    c.fn_name = "can_assign"
    c.fieldspec("typ", "val")
    c.callee("self.can_assign_thrift_enum", lambda k: (k.param("self", "val"), k.param("other", "val"), k.param("ctx", "val"), k.returns("val")))
    c.let("tobj", "self.get_type_object(ctx)")
    c.assume("Thrift enums (leniency L6) are dispatched to can_assign_thrift_enum, not specified here")
    c.ensures("implies(not tobj.is_thrift_enum and isa(other, KnownValue),"
              " (not is_error(result)) == (not is_error(tobj.can_assign(self, other, ctx)) or tobj.is_instance(other.val)))", name="literal_accepted_iff_nominal_check_or_isinstance")
    c.ensures("implies(not tobj.is_thrift_enum and isa(other, TypedValue) and not isa(other, KnownValue),"
              " (not is_error(result)) == (not (self.literal_only and not other.literal_only) and not is_error(tobj.can_assign(self, other, ctx))))", name="type_accepted_iff_nominal_check_and_literal_string_rule")
    c.ensures("implies(not tobj.is_thrift_enum and isa(other, SubclassValue) and not isa(other, (KnownValue, TypedValue)) and isa(other.typ, TypedValue),"
              " result is tobj.can_assign(self, other, ctx))", name="type_objects_by_metaclass_check")


@contract("pyanalyze.value.KnownValue.__eq__", props=P4 + ["C14"])
def _(c):
    c.returns("bool")
    c.ensures("result == (isa(other, KnownValue) and type(self.val) is type(other.val) and safe_equals(self.val, other.val))", name="same_type_and_equal")


@contract("method:get_signature", props=P4, kind="assumed")
def _(c):
    c.param("self", "val"); c.param("obj", "val")
    c.returns("val")
    c.functional = True


@contract("pyanalyze.value.KnownValue.can_assign", props=P4)
def _(c):
    c.returns("val")
    c.functional = True
    c.fn_name = "can_assign"
    c.fieldspec("val", "val")
    c.callee("CallableValue", lambda k: (k.param("signature", "val"), k.returns("val")))
    c.assume("function literals are compared as callables (CallableValue, property C07); not specified here")
    plain = "(not isinstance(self.val, FunctionType) or ctx.get_signature(self.val) is None)"
    c.ensures(f"implies({plain} and isa(other, KnownValue), (not is_error(result)) =="
              " (self.val is other.val or (safe_equals(self.val, other.val) and type(self.val) is type(other.val)) or not is_error(super_can_assign(self, other, ctx))))",
              name="a_literal_accepts_the_same_object_or_an_equal_one_of_the_same_type")
    c.ensures(f"implies({plain}, " + "implies(not is_error(result) and static(self) and static(other), subset(other, self)))", name="sound")


@contract("pyanalyze.value.SequenceValue.can_assign", props=P4)
def _(c):
    c.returns("val")
    c.functional = True
    c.fn_name = "can_assign"
    c.fieldspec("typ", "val")
    c.fieldspec("members", "seq[pair[bool,obj:Value]]")
    c.callee("replace_known_sequence_value", lambda k: (k.param("value", "val"), k.returns("val"), setattr(k, "functional", True), setattr(k, "fn_name", "replace_known_sequence_value")))
    c.callee("super().can_assign", lambda k: (k.param("other", "val"), k.param("ctx", "val"), k.returns("val")))
    c.callee("unify_bounds_maps", lambda k: (k.param("maps", "seq"), k.returns("val"), k.ensures("not is_error(result)")))
    c.let("o", "replace_known_sequence_value(other)")
    c.let("tobj", "self.get_type_object(ctx)")
    seqv = "isa(o, SequenceValue)"
    n = "len(self.members)"
    nominal = "(not is_error(tobj.can_assign(self, o, ctx)))"
    members_ok = ("all(self.members[i][0] == o.members[i][0] and not is_error(self.members[i][1].can_assign(o.members[i][1], ctx)) for i in range(len(self.members)))")
    c.loop(0, invariant=[("members_so_far_accepted", "all(self.members[i][0] == other.members[i][0] and not is_error(self.members[i][1].can_assign(other.members[i][1], ctx)) for i in range(_k0))")])
    # a literal / heterogeneous sequence type accepts another one exactly when the container class fits, the lengths agree and
    # the members match position by position (single with single, unpacked with unpacked)
    c.ensures(f"implies({seqv}, (not is_error(result)) == ({nominal} and {n} == len(o.members) and {members_ok}))",
              name="positional_sequences_accepted_iff_class_length_and_members_match")
    c.ensures(f"implies({seqv} and {n} != len(o.members), is_error(result))", name="different_lengths_are_rejected")
    c.assume("unify_bounds_maps of the members' bounds maps is a bounds map (C04 kernel unify_bounds_maps: total); the non-sequence case delegates to GenericValue.can_assign (dispatch contract)")


@contract("method:get_generic_args_for_type", props=P4, kind="assumed")
def _(c):
    c.param("self", "val"); c.param("typ", "val"); c.param("ctx", "val")
    c.returns("opt[seq[obj:Value]]")
    c.functional = True
    c.assume("TypedValue.get_generic_args_for_type(typ, ctx): the type arguments with which the value's class instantiates the generic base `typ` (None when it is not a generic base); a pure function of its operands")


@contract("pyanalyze.value.GenericValue.can_assign", props=P4)
def _(c):
    c.returns("val")
    c.functional = True
    c.fn_name = "can_assign"
    c.fieldspec("typ", "val")
    c.fieldspec("args", "seq[obj:Value]")
    c.fieldspec("val", "val")
    c.callee("replace_known_sequence_value", lambda k: (k.param("value", "val"), k.returns("val"), setattr(k, "functional", True), setattr(k, "fn_name", "replace_known_sequence_value")))
    c.callee("super().can_assign", lambda k: (k.param("other", "val"), k.param("ctx", "val"), k.returns("val"), setattr(k, "functional", True), setattr(k, "fn_name", "TypedValue.can_assign.super")))
    c.callee("unify_bounds_maps", lambda k: (k.param("maps", "seq"), k.returns("val"), k.ensures("not is_error(result)")))
    c.callee("self.maybe_specify_error", lambda k: (k.param("self", "val"), k.param("i", "val"), k.param("other", "val"), k.param("error", "val"), k.param("ctx", "val"), k.returns("obj:CanAssignError")))
    c.callee("TypedValue", lambda k: (k.param("t", "val"), k.returns("obj:TypedValue"), setattr(k, "functional", True), setattr(k, "fn_name", "new_TypedValue"), k.ensures("result.typ is t")))
    c.let("o0", "replace_known_sequence_value(other)")
    c.let("o", "ite(isa(o0, KnownValue), TypedValue(type(o0.val)), o0)")
    c.let("ga", "o.get_generic_args_for_type(self.typ, ctx)")
    typed = "(isa(o, TypedValue) and not isinstance(o.typ, super))"
    c.loop(0, invariant=[("arguments_so_far_accepted", "all(not is_error(self.args[i].can_assign(generic_args[i], ctx)) for i in range(_k0)) and len(bounds_maps) == _k0")])
    # a literal is compared through its class (a str literal is an Iterable[str], not an Iterable[int]): once the other value is
    # (re-expressed as) a class with known generic arguments for this origin, it is accepted exactly when every type argument is
    c.ensures(f"implies({typed} and ga is not None and len(self.args) == len(ga) and len(self.args) > 0,"
              " (not is_error(result)) == all(not is_error(self.args[i].can_assign(ga[i], ctx)) for i in range(len(self.args))))",
              name="accepted_iff_every_type_argument_accepts_the_others")
    c.ensures(f"implies({typed} and ga is not None and len(self.args) == len(ga) and len(self.args) == 0, is_error(result))", name="no_arguments_no_match")
    c.assume("replace_known_sequence_value / get_generic_args_for_type / the TypedValue constructor are functional callees; when the other value's class has no known generic arguments for this origin the decision is TypedValue.can_assign's (nominal)")


@contract("pyanalyze.value.SubclassValue.can_assign", props=P4)
def _(c):
    c.returns("val")
    c.functional = True
    c.fn_name = "can_assign"
    c.fieldspec("typ", "val")
    c.fieldspec("val", "val")
    c.fieldspec("typevar", "val")
    c.callee("super().can_assign", lambda k: (k.param("other", "val"), k.param("ctx", "val"), k.returns("val"), setattr(k, "functional", True), setattr(k, "fn_name", "Value.can_assign.super")))
    c.callee("TypedValue", lambda k: (k.param("t", "val"), k.returns("obj:TypedValue"), setattr(k, "functional", True), setattr(k, "fn_name", "new_TypedValue"), k.ensures("result.typ is t")))
    c.callee("LowerBound", lambda k: (k.param("tv", "val"), k.param("v", "val"), k.returns("val")))
    # Type[X] is covariant in X; a class object literal is judged as the class it denotes
    c.ensures("implies(isa(other, SubclassValue), same(result, self.typ.can_assign(other.typ, ctx)))", name="type_of_is_covariant")
    c.ensures("implies(isa(other, KnownValue) and not isa(other, SubclassValue) and isinstance(other.val, type) and isa(self.typ, TypedValue),"
              " same(result, self.typ.get_type_object(ctx).can_assign(self, TypedValue(other.val), ctx)))", name="a_class_literal_is_judged_as_the_class_it_denotes")
    c.ensures("implies(isa(other, TypedValue) and not isa(other, (SubclassValue, KnownValue)) and other.typ is type, not is_error(result))", name="plain_type_is_accepted")

"""C06 — call checking: arguments against parameter types (signature.Signature._check_param_type_compatibility and the
per-parameter loop of check_call_with_bound_args)."""
from pyvc.dsl import REG, contract
from pyvc.core import parse_spec

P = ["C06"]
REG.fieldspec(annotation="val")


@contract("pyanalyze.signature.Signature._check_param_type_compatibility", props=P)
def _(c):
    c.param("param", "obj:SigParameter")
    c.param("composite", "obj:Composite")
    c.param("typevar_map", "val")
    c.param("is_overload", "bool")
    c.returns("pair[val,bool,val]")
    c.fieldspec("value", "obj:Value")
    c.fieldspec("default", "val")
    c.fieldspec("node", "val")
    c.fieldspec("name", "str")
    c.record_calls += ["ctx.on_error"]
    c.callee("can_assign_and_used_any", lambda k: (k.param("t", "val"), k.param("v", "val"), k.param("ctx", "val"), k.returns("pair[val,bool]"),
                                                   k.ensures("same(result[0], t.can_assign(v, ctx)) and result[0] is not None", name="first_component_is_can_assign")))
    c.callee("decompose_union", lambda k: (k.param("t", "val"), k.param("v", "val"), k.param("ctx", "val"), k.returns("val"), setattr(k, "functional", True), setattr(k, "fn_name", "decompose_union3")))
    c.callee("param.annotation.substitute_typevars", lambda k: (k.param("self", "val"), k.param("m", "val"), k.returns("obj:Value"), setattr(k, "functional", True), setattr(k, "fn_name", "substitute_typevars")))
    c.callee("bounds_map.get_error_code", lambda k: (k.param("self", "val"), k.returns("val")))
    typ = "ite(truthy(typevar_map), param.annotation.substitute_typevars(typevar_map), param.annotation)"
    ann = "(param.annotation != UNANNOTATED)"
    rej = f"(is_error({typ}.can_assign(composite.value, ctx.can_assign_ctx)) and composite.value is not param.default)"
    c.ensures(f"implies(not {ann}, result[0] is not None and len(appended('ctx.on_error')) == 0 and result[2] is None)", name="unannotated_parameter_accepts_anything")
    c.ensures(f"implies({ann} and not is_overload, (result[0] is None) == {rej})", name="rejected_iff_the_declared_type_does_not_accept_the_argument")
    c.ensures(f"implies({ann} and not is_overload, (len(appended('ctx.on_error')) == 1) == {rej} and len(appended('ctx.on_error')) <= 1)", name="one_diagnostic_exactly_for_a_rejected_argument")
    c.ensures("implies(not is_overload, result[2] is None)", name="union_decomposition_only_for_overloads")
    c.ensures(f"implies({ann} and not {rej}, result[0] is not None and len(appended('ctx.on_error')) == 0)", name="accepted_argument_is_never_diagnosed")
    c.ensures(f"implies({ann} and is_overload and {rej} and decompose_union({typ}, composite.value, ctx.can_assign_ctx) is None, result[0] is None and len(appended('ctx.on_error')) == 1)",
              name="overload_without_union_decomposition_is_rejected_too")
    c.ensures(f"implies({ann} and not is_error({typ}.can_assign(composite.value, ctx.can_assign_ctx)), same(result[0], {typ}.can_assign(composite.value, ctx.can_assign_ctx)))",
              name="the_bounds_of_an_accepted_argument_are_those_of_can_assign")
    c.assume("can_assign_and_used_any returns (param_typ.can_assign(value, ctx), used-Any flag) (value.py, three lines; the flag is read from the context); a parameter's own default object is always accepted")


@contract("pyanalyze.signature.Signature.check_call_with_bound_args", props=P)
def _(c):
    c.param("preprocessed", "val")
    c.param("bound_args", "dict[str,pair[val,obj:Composite]]")
    c.param("is_overload", "bool")
    c.returns("obj:CallReturn")
    c.fieldspec("parameters", "dict[str,obj:SigParameter]")
    c.fieldspec("value", "obj:Value")
    c.fieldspec("default", "val")
    c.fieldspec("is_error", "bool")
    c.fieldspec("all_typevars", "val")
    c.fieldspec("keywords", "dict[val,val]")
    c.fieldspec("positionals", "seq")
    c.callee("self._apply_annotated_constraints", lambda k: (k.param("self", "val"), k.param("rv", "val"), k.param("composites", "val"), k.param("ctx", "val"), k.returns("val")))
    c.callee("param.annotation.substitute_typevars", lambda k: (k.param("self", "val"), k.param("m", "val"), k.returns("obj:Value"), setattr(k, "functional", True), setattr(k, "fn_name", "substitute_typevars")))
    # scope: a plain (non-generic, non-overloaded) signature without impl / evaluator / runtime call
    c.requires("not truthy(self.all_typevars) and self.impl is None and self.evaluator is None and not truthy(self.allow_call) and not is_overload"
               " and (self.callable is None or ctx.visitor is None)", name="scope.plain_signature")
    c.requires("all(name in self.parameters for name in bound_args)", name="bound_arguments_name_parameters")
    rej = ("(self.parameters[{n}].annotation != UNANNOTATED and is_error(self.parameters[{n}].annotation.can_assign(bound_args[{n}][1].value, ctx.can_assign_ctx))"
           " and bound_args[{n}][1].value is not self.parameters[{n}].default)")
    c.let("names", "list(bound_args)")
    c.loop(0, invariant="True")
    c.loop(2, invariant="True")
    c.loop(1, invariant=[("error_iff_some_argument_so_far_rejected", "had_error == any(" + rej.format(n="names[j]") + " for j in range(_k1))"
                          " and new_args is None and not is_overload")])
    c.ensures("result.is_error == any(" + rej.format(n="names[j]") + " for j in range(len(names)))", name="call_is_an_error_iff_some_argument_is_rejected_by_its_parameter_type")
    c.assume("scope: plain signatures (generic signatures: the TypeVar pre-pass and resolve_bounds_map are covered by C15's solve contract and the bounded stand-in); impl / evaluator / allow_call branches executed only natively")

"""C19 — operations on known objects: binary-operator dispatch (name_check_visitor._visit_binop_no_mvv) and
calling the real function on literal arguments (signature._maybe_perform_call)."""
from pyvc.dsl import REG, contract
from pyvc.core import parse_spec

P = ["C19"]


@contract("pyanalyze.name_check_visitor.NameCheckVisitor._visit_binop_no_mvv", props=P)
def _(c):
    c.param("allow_call", "bool")
    c.returns("val")
    c.record_calls += ["self._check_dunder_call", "self.show_error", "self._check_dunder_call_or_catch", "self._show_error_if_checking", "self.show_caught_errors"]
    c.record_result_specs["self._check_dunder_call"] = parse_spec("pair[val,val]")
    c.transparent_with += ["self.catch_errors"]
    c.callee("is_iterable", lambda k: (k.param("a", "val"), k.param("b", "val"), k.returns("val")))
    c.fieldspec("value", "val")
    c.let("entry", "unS_(BINARY_OPERATION_TO_DESCRIPTION_AND_METHOD[type(op)])")
    c.ignore_exceptions += ["KeyError", "ValueError"]
    c.assume("every ast operator type has a 4-tuple entry in BINARY_OPERATION_TO_DESCRIPTION_AND_METHOD; _check_dunder_call returns a pair; visitor.catch_errors() yields the list of diagnostics emitted inside the block (non-empty iff the dunder call was diagnosed)")
    refl = "(entry[3] is not None)"
    L = "call_result('self._check_dunder_call', 0)[0]"
    R = "call_result('self._check_dunder_call', 1)[0]"
    c.ensures(f"implies({refl}, len(appended('self._check_dunder_call')) == 2"
              " and same(call_args('self._check_dunder_call', 0)[1], left_composite) and same(call_args('self._check_dunder_call', 0)[2], entry[1])"
              " and same(call_args('self._check_dunder_call', 1)[1], right_composite) and same(call_args('self._check_dunder_call', 1)[2], entry[3]))",
              name="tries_the_operator_method_of_the_left_operand_then_the_reflected_method_of_the_right_operand")
    c.ensures("implies(entry[3] is None and entry[1] != '__contains__', len(appended('self._check_dunder_call')) == 1"
              " and same(call_args('self._check_dunder_call', 0)[1], left_composite) and same(call_args('self._check_dunder_call', 0)[2], entry[1])"
              f" and same(result, {L}) and len(appended('self.show_error')) == 0)", name="an_operator_without_reflected_method_is_the_left_operands_method")
    c.ensures(f"implies({refl} and truthy(final('left_errors')) and truthy(final('right_errors')), is_any(result) and len(appended('self.show_error')) == 1)",
              name="unsupported_operation_iff_both_attempts_fail")
    c.ensures(f"implies({refl} and not (truthy(final('left_errors')) and truthy(final('right_errors'))), len(appended('self.show_error')) == 0)", name="no_diagnostic_when_one_attempt_succeeds")
    c.ensures(f"implies({refl} and truthy(final('left_errors')) and not truthy(final('right_errors')), same(result, {R}))", name="falls_back_to_the_reflected_method")
    c.ensures(f"implies({refl} and not truthy(final('left_errors')) and truthy(final('right_errors')), same(result, {L}))", name="left_method_result_when_only_it_succeeds")
    c.ensures(f"implies({refl} and not truthy(final('left_errors')) and not truthy(final('right_errors')) and not is_any({R}) and not reflected_has_priority(left_composite, right_composite, entry[3]), same(result, {L}))", name="left_method_wins_when_both_succeed_and_the_right_operand_has_no_priority")
    c.ensures(f"implies({refl} and not truthy(final('left_errors')) and not truthy(final('right_errors')) and reflected_has_priority(left_composite, right_composite, entry[3]), same(result, {R}))",
              name="reflected_method_first_when_the_right_operand_is_a_proper_subclass_overriding_it")


@REG.static_check("C19.operator_table", props=P)
def _():
    """the dispatch table read by _visit_binop_no_mvv (re-read from the source on every run): every arithmetic / bitwise
    operator names CPython's own slot triple (__op__, __iop__, __rop__) for its ast node, as operator documents them"""
    import ast as _ast
    from pyvc import extract
    mod = extract.get_module("pyanalyze.name_check_visitor")
    node = mod.assigns.get("BINARY_OPERATION_TO_DESCRIPTION_AND_METHOD")
    want = {"Add": "add", "Sub": "sub", "Mult": "mul", "Div": "truediv", "FloorDiv": "floordiv", "Mod": "mod", "Pow": "pow", "LShift": "lshift", "RShift": "rshift",
            "BitOr": "or", "BitXor": "xor", "BitAnd": "and", "MatMult": "matmul"}
    out = []
    if not isinstance(node, _ast.Dict):
        return [{"name": "C19.operator_table:shape", "ok": False, "detail": "BINARY_OPERATION_TO_DESCRIPTION_AND_METHOD is no longer a dict display: the table cannot be read"}]
    seen = set()
    for k, v in zip(node.keys, node.values):
        op = _ast.unparse(k).replace("ast.", "")
        if op not in want or not isinstance(v, _ast.Tuple) or len(v.elts) != 4:
            continue
        seen.add(op)
        got = tuple(e.value if isinstance(e, _ast.Constant) else None for e in v.elts[1:])
        stem = want[op]
        exp = (f"__{stem}__", f"__i{stem}__", f"__r{stem}__")
        out.append({"name": f"C19.operator_table:{op}", "ok": got == exp,
                    "detail": f"ast.{op}: table gives {got}, CPython's slots for this operator are {exp}" if got != exp else f"ast.{op} -> {exp}"})
    for op in sorted(set(want) - seen):
        out.append({"name": f"C19.operator_table:{op}", "ok": False, "detail": f"ast.{op} has no 4-tuple row in the table"})
    # the unary table read by visit_UnaryOp
    unode = mod.assigns.get("UNARY_OPERATION_TO_DESCRIPTION_AND_METHOD")
    uwant = {"UAdd": "__pos__", "USub": "__neg__", "Invert": "__invert__"}
    if not isinstance(unode, _ast.Dict):
        out.append({"name": "C19.operator_table:unary_shape", "ok": False, "detail": "UNARY_OPERATION_TO_DESCRIPTION_AND_METHOD is no longer a dict display: the table cannot be read"})
    else:
        ugot = {}
        for k, v in zip(unode.keys, unode.values):
            if k is not None and isinstance(v, _ast.Tuple) and len(v.elts) == 2 and isinstance(v.elts[1], _ast.Constant):
                ugot[_ast.unparse(k).replace("ast.", "")] = v.elts[1].value
        for op, meth in uwant.items():
            out.append({"name": f"C19.operator_table:{op}", "ok": ugot.get(op) == meth,
                        "detail": f"ast.{op}: table gives {ugot.get(op)!r}, CPython's slot for this operator is {meth!r}"})
    return out

"""C01 — local soundness of abstract operations: indexing a sequence value (pyanalyze/implementation.py)."""
from pyvc.dsl import REG, contract

P = ["C01"]


@contract("pyanalyze.implementation._sequence_common_getitem_impl.inner", props=P + ["C19"])
def _(c):
    c.free_vars += ["ctx", "typ"]
    c.param("ctx", "val"); c.param("typ", "val")
    c.returns("val")
    c.fieldspec("val", "val")
    c.fieldspec("args", "seq")
    c.record_calls += ["ctx.show_error"]
    c.callee("ctx.visitor._check_dunder_call", lambda k: (k.param("a", "val"), k.param("b", "val"), k.param("c", "val"), k.param("d", "val"), k.param("allow_call", "val"),
                                                        k.returns("pair[val,val]")))
    c.callee("SequenceValue.make_or_known", lambda k: (k.param("typ", "val"), k.param("members", "val"), k.returns("val")))
    c.callee("replace_known_sequence_value", lambda k: (k.param("value", "val"), k.returns("val"), setattr(k, "functional", True), setattr(k, "fn_name", "replace_known_sequence_value")))
    c.let("sv", "replace_known_sequence_value(ctx.vars['self'])")
    c.let("k0", "replace_known_sequence_value(key)")
    c.let("M", "sv.members")
    c.ignore_exceptions += ["KeyError"]
    c.requires("implies(isa(sv, SequenceValue), len(sv.args) >= 1)", name="class_invariant.sequence_value_has_its_common_type")
    c.assume("ctx.vars has the key 'self' (impl calling convention); SequenceValue.__init__ always sets args = (united member type,)")
    c.loop(0, invariant=("prefix_is_single", "all(not truthy(self_value.members[j][0]) and j != unI_(key.val) for j in range(_k0))"))
    c.loop(1, invariant=("suffix_is_single", "all(not truthy(self_value.members[len(self_value.members) - 1 - j][0]) and j != index_from_back for j in range(_k1))"))
    intkey = ("(isa(sv, TypedValue) and TypedValue(slice).is_assignable(k0, ctx.visitor) and isa(k0, KnownValue) and isinstance(k0.val, int) and isa(sv, SequenceValue))")
    k = "unI_(k0.val)"
    n = "len(M)"
    fixed = "all(not truthy(m[0]) for m in M)"
    c.ensures(f"implies({intkey} and {fixed} and -{n} <= {k} and {k} < {n}, same(result, M[ite({k} < 0, {k} + {n}, {k})][1]))", name="fixed_length.the_indexed_member")
    c.ensures(f"implies({intkey} and {fixed} and not (-{n} <= {k} and {k} < {n}) and typ is tuple, is_any(result) and len(appended('ctx.show_error')) == 1)", name="fixed_length.tuple_index_out_of_range_is_diagnosed")
    c.ensures(f"implies({intkey} and not {fixed} and {k} >= 0 and {k} < {n} and all(not truthy(M[j][0]) for j in range({k} + 1)), same(result, M[{k}][1]))",
              name="variadic.front_index_before_the_unpacked_part")
    c.ensures(f"implies({intkey} and not {fixed} and {k} < 0 and -{k} <= {n} and all(not truthy(M[{n} - 1 - j][0]) for j in range(-{k})), same(result, M[{n} + {k}][1]))",
              name="variadic.back_index_after_the_unpacked_part")
    c.ensures(f"implies({intkey} and not {fixed} and (({k} >= 0 and exists(lambda j: 0 <= j and j <= {k} and j < {n} and truthy(M[j][0]))) or"
              f" ({k} < 0 and exists(lambda j: 0 <= j and j < -{k} and j < {n} and truthy(M[{n} - 1 - j][0])))), same(result, sv.args[0]))",
              name="variadic.index_across_the_unpacked_part_falls_back_to_the_common_type")
    c.assume("soundness of these answers for every concrete sequence of the type follows from the segmentation meaning of SequenceValue (a single member occupies exactly one position) -- theory-level, not discharged")

"""C01 — local soundness of abstract operations: indexing a sequence value (pyanalyze/implementation.py)."""
from pyvc.dsl import REG, contract

P = ["C01"]


@contract("pyanalyze.implementation._sequence_common_getitem_impl.inner", props=P + ["C19"])
def _(c):
    c.free_vars += ["ctx", "typ"]
    c.param("ctx", "val"); c.param("typ", "val")
    c.returns("val")
    c.fieldspec("val", "val")
    c.fieldspec("args", "seq")
    c.record_calls += ["ctx.show_error"]
    c.callee("ctx.visitor._check_dunder_call", lambda k: (k.param("a", "val"), k.param("b", "val"), k.param("c", "val"), k.param("d", "val"), k.param("allow_call", "val"),
                                                        k.returns("pair[val,val]")))
    c.callee("SequenceValue.make_or_known", lambda k: (k.param("typ", "val"), k.param("members", "val"), k.returns("val")))
    c.callee("replace_known_sequence_value", lambda k: (k.param("value", "val"), k.returns("val"), setattr(k, "functional", True), setattr(k, "fn_name", "replace_known_sequence_value")))
    c.let("sv", "replace_known_sequence_value(ctx.vars['self'])")
    c.let("k0", "replace_known_sequence_value(key)")
    c.let("M", "sv.members")
    c.ignore_exceptions += ["KeyError"]
    c.requires("implies(isa(sv, SequenceValue), len(sv.args) >= 1)", name="class_invariant.sequence_value_has_its_common_type")
    c.assume("ctx.vars has the key 'self' (impl calling convention); SequenceValue.__init__ always sets args = (united member type,)")
    c.loop(0, invariant=("prefix_is_single", "all(not truthy(self_value.members[j][0]) and j != unI_(key.val) for j in range(_k0))"))
    c.loop(1, invariant=("suffix_is_single", "all(not truthy(self_value.members[len(self_value.members) - 1 - j][0]) and j != index_from_back for j in range(_k1))"))
    intkey = ("(isa(sv, TypedValue) and TypedValue(slice).is_assignable(k0, ctx.visitor) and isa(k0, KnownValue) and isinstance(k0.val, int) and isa(sv, SequenceValue))")
    k = "unI_(k0.val)"
    n = "len(M)"
    fixed = "all(not truthy(m[0]) for m in M)"
    c.ensures(f"implies({intkey} and {fixed} and -{n} <= {k} and {k} < {n}, same(result, M[ite({k} < 0, {k} + {n}, {k})][1]))", name="fixed_length.the_indexed_member")
    c.ensures(f"implies({intkey} and {fixed} and not (-{n} <= {k} and {k} < {n}) and typ is tuple, is_any(result) and len(appended('ctx.show_error')) == 1)", name="fixed_length.tuple_index_out_of_range_is_diagnosed")
    c.ensures(f"implies({intkey} and not {fixed} and {k} >= 0 and {k} < {n} and all(not truthy(M[j][0]) for j in range({k} + 1)), same(result, M[{k}][1]))",
              name="variadic.front_index_before_the_unpacked_part")
    c.ensures(f"implies({intkey} and not {fixed} and {k} < 0 and -{k} <= {n} and all(not truthy(M[{n} - 1 - j][0]) for j in range(-{k})), same(result, M[{n} + {k}][1]))",
              name="variadic.back_index_after_the_unpacked_part")
    c.ensures(f"implies({intkey} and not {fixed} and (({k} >= 0 and exists(lambda j: 0 <= j and j <= {k} and j < {n} and truthy(M[j][0]))) or"
              f" ({k} < 0 and exists(lambda j: 0 <= j and j < -{k} and j < {n} and truthy(M[{n} - 1 - j][0])))), same(result, sv.args[0]))",
              name="variadic.index_across_the_unpacked_part_falls_back_to_the_common_type")
    c.assume("soundness of these answers for every concrete sequence of the type follows from the segmentation meaning of SequenceValue (a single member occupies exactly one position) -- theory-level, not discharged")


# ---------------------------------------------------------------------------
# unpacking a sequence value into assignment targets: `a, b, c = x` and `a, *b, c = x`

def _unite(k):
    k.param("*values", "tuple"); k.returns("val"); k.functional = True; k.fn_name = "unite_values"


@contract("pyanalyze.value._unpack_sequence_value", props=P)
def _(c):
    c.param("value", "obj:SequenceValue"); c.param("target_length", "int"); c.param("post_starred_length", "opt[int]")
    c.fieldspec("members", "seq[pair[bool,val]]")
    c.returns("val")
    c.callee("unite_values", _unite)
    c.requires("target_length >= 0 and (post_starred_length is None or post_starred_length >= 0)", name="lengths_are_counts")
    M = "value.members"
    n = f"len({M})"
    c.loop(0, invariant=[("head_is_the_leading_single_members",
                          f"len(head) <= target_length and len(head) <= {n} and all(not truthy({M}[j][0]) and same(head[j], {M}[j][1]) for j in range(len(head)))")])
    tail_inv = f"len(tail) + len(head) <= {n} and all(not truthy({M}[{n} - 1 - j][0]) and same(tail[j], {M}[{n} - 1 - j][1]) for j in range(len(tail)))"
    c.loop(1, invariant=[("tail_is_the_trailing_single_members_backwards", f"len(tail) <= target_length - len(head) and {tail_inv}")])
    c.loop(2, invariant=[("tail_is_the_trailing_single_members_backwards", f"len(tail) <= post_starred_length and {tail_inv}")])
    R = "unS_(result)"
    ok = "not isa(result, CanAssignError)"
    # the segmentation meaning of a SequenceValue: a single member occupies exactly one position.  Counting from the front, position i of every
    # concrete sequence is described by member i as long as members 0..i are all single; counting from the back likewise.
    c.ensures(f"implies({ok} and post_starred_length is None, len({R}) == target_length)", name="plain.one_value_per_target")
    c.ensures(f"implies({ok} and post_starred_length is None, all(implies(i < {n} and all(not truthy({M}[j][0]) for j in range(i + 1)), same({R}[i], {M}[i][1])) for i in range(target_length)))",
              name="plain.a_target_before_the_unpacked_part_gets_the_member_at_its_position")
    c.ensures(f"implies({ok} and post_starred_length is None, all(implies(i < {n} and all(not truthy({M}[{n} - 1 - j][0]) for j in range(i + 1))"
              f" and ({n} == target_length or not (target_length - 1 - i < {n} and all(not truthy({M}[j][0]) for j in range(target_length - i)))),"
              f" same({R}[target_length - 1 - i], {M}[{n} - 1 - i][1])) for i in range(target_length)))",
              name="plain.a_target_after_the_unpacked_part_gets_the_member_at_its_position_from_the_back")
    # (when the front rule and the back rule both apply to one position with different members, the single members alone outnumber the targets:
    #  no concrete sequence has that length and nothing is claimed)
    c.ensures(f"implies({ok} and post_starred_length is not None, len({R}) == target_length + 1 + post_starred_length)", name="starred.one_value_per_target")
    c.ensures(f"implies({ok} and post_starred_length is not None, all(implies(i < {n} and all(not truthy({M}[j][0]) for j in range(i + 1)), same({R}[i], {M}[i][1])) for i in range(target_length)))",
              name="starred.a_target_before_the_star_gets_the_member_at_its_position")
    c.ensures(f"implies({ok} and post_starred_length is not None, all(implies(i < {n} - target_length and all(not truthy({M}[{n} - 1 - j][0]) for j in range(i + 1)), same({R}[target_length + post_starred_length - i], {M}[{n} - 1 - i][1])) for i in range(post_starred_length)))",
              name="starred.a_target_after_the_star_gets_the_member_at_its_position_from_the_back")

"""C09 — name binding: the scope primitives of stacked_scopes.FunctionScope (join, isolation, kill, use recording).
The composition in the visitor's visit_* methods (the CFG sandwich itself) is covered only by the bounded stand-in."""
from pyvc.dsl import REG, contract

P = ["C09"]
REG.fieldspec(current_loop_scopes="seq[dict[val,seq]]", name_to_current_definition_nodes="dict[val,seq]")

KEPT = "(LEAVES_LOOP not in scopes[{k}] and (LEAVES_SCOPE not in scopes[{k}] or ignore_leaves_scope))"


def kept(k):
    return KEPT.format(k=k)


@contract("pyanalyze.stacked_scopes.FunctionScope.get_combined_scope", props=P)
def _(c):
    c.param("scopes", "seq[dict[val,seq]]")
    c.param("ignore_leaves_scope", "bool")
    c.returns("dict[val,seq]")
    c.modifies("self.current_loop_scopes")
    c.local("new_scopes", "seq[dict[val,seq]]")
    any_kept = f"exists(lambda k: 0 <= k and k < len(scopes) and {kept('k')}, 'int')"
    c.loop(0, invariant=[
        ("kept_prefix", f"all(exists(lambda k: 0 <= k and k < _k0 and {kept('k')} and same(s, scopes[k]), 'int') for s in new_scopes)"
                        f" and all(implies({kept('k')}, exists(lambda j: 0 <= j and j < len(new_scopes) and same(new_scopes[j], scopes[k]), 'int')) for k in range(_k0))"),
        ("loop_leavers", "all(implies(LEAVES_LOOP in scopes[k], contains(self.current_loop_scopes, scopes[k])) for k in range(_k0))"
                         " and all(contains(old(self.current_loop_scopes), s) or exists(lambda k: 0 <= k and k < _k0 and LEAVES_LOOP in scopes[k] and same(s, scopes[k]), 'int') for s in self.current_loop_scopes)"
                         " and all(contains(self.current_loop_scopes, s) for s in old(self.current_loop_scopes))"),
    ])
    c.ensures(f"implies(not {any_kept}, len(result) == 1 and LEAVES_SCOPE in result and len(result[LEAVES_SCOPE]) == 0)", name="all_branches_leave_gives_the_leaves_scope_marker")
    c.ensures(f"implies({any_kept}, forall(lambda v: (v in result) == exists(lambda k: 0 <= k and k < len(scopes) and {kept('k')} and v in scopes[k], 'int'), 'val'))",
              name="joined_names_are_the_names_of_the_branches_that_fall_through")
    c.ensures(f"implies({any_kept}, forall(lambda v: forall(lambda n: implies(v in result, contains(result[v], n) == exists(lambda k: 0 <= k and k < len(scopes) and {kept('k')}"
              " and ((v in scopes[k] and contains(scopes[k][v], n)) or (v not in scopes[k] and n is _UNINITIALIZED)), 'int')), 'val'), 'val'))",
              name="definitions_after_the_join_are_the_union_over_falling_through_branches_with_uninitialized_for_missing")
    c.ensures("all(implies(LEAVES_LOOP in scopes[k], contains(self.current_loop_scopes, scopes[k])) for k in range(len(scopes)))", name="loop_leaving_branches_are_handed_to_the_enclosing_loop")
    c.ensures("all(contains(old(self.current_loop_scopes), s) or exists(lambda k: 0 <= k and k < len(scopes) and LEAVES_LOOP in scopes[k] and same(s, scopes[k]), 'int') for s in self.current_loop_scopes)",
              name="nothing_else_is_handed_to_the_loop")


@contract("pyanalyze.stacked_scopes.FunctionScope.subscope", props=P)
def _(c):
    c.generator = True
    c.returns("seq[dict[val,seq]]")
    c.ensures("len(yielded) == 1", name="one_subscope_per_entry")
    c.ensures("forall(lambda v: implies(v in yielded[0], v in old(self.name_to_current_definition_nodes) and v is not LEAVES_SCOPE), 'val')"
              " and all(implies(v is not LEAVES_SCOPE, v in yielded[0]) for v in old(self.name_to_current_definition_nodes))",
              name="a_new_subscope_starts_from_the_current_definitions_without_the_leaves_scope_marker")
    c.ensures("forall(lambda v: implies(v in yielded[0], same(yielded[0][v], old(self.name_to_current_definition_nodes)[v])), 'val')", name="with_the_same_definition_lists")
    c.ensures("same(self.name_to_current_definition_nodes, old(self.name_to_current_definition_nodes))", name="the_parent_map_is_restored_on_exit")
    c.assume("defaultdict(list, m) is modelled as the mapping m (reads of missing names inside the block create empty lists: not modelled); qcore.override restores the attribute on exit")


@contract("pyanalyze.stacked_scopes.FunctionScope.combine_subscopes", props=P)
def _(c):
    from pyvc.core import parse_spec
    c.param("scopes", "seq[dict[val,seq]]")
    c.param("ignore_leaves_scope", "bool")
    c.returns("val")
    c.modifies("self.name_to_current_definition_nodes", "self.current_loop_scopes")
    c.record_calls += ["self.get_combined_scope"]
    c.record_result_specs["self.get_combined_scope"] = parse_spec("dict[val,seq]")
    J = "call_result('self.get_combined_scope', 0)"
    c.ensures("len(appended('self.get_combined_scope')) == 1 and same(call_args('self.get_combined_scope', 0)[0], scopes)", name="joins_exactly_the_given_branches")
    c.ensures(f"all(v in self.name_to_current_definition_nodes and same(self.name_to_current_definition_nodes[v], {J}[v]) for v in {J})", name="joined_names_take_the_joined_definitions")
    c.ensures(f"forall(lambda v: implies(v not in {J}, (v in self.name_to_current_definition_nodes) == (v in old(self.name_to_current_definition_nodes))"
              " and implies(v in old(self.name_to_current_definition_nodes), same(self.name_to_current_definition_nodes[v], old(self.name_to_current_definition_nodes)[v]))), 'val')",
              name="names_bound_in_no_branch_keep_their_definitions")


@contract("pyanalyze.stacked_scopes.FunctionScope._add_single_constraint", props=P + ["C02", "C01"])
def _(c):
    c.param("constraint", "obj:Constraint")
    c.returns("val")
    c.fieldspec("definition_node_to_value", "dict[val,val]")
    c.modifies("self.name_to_current_definition_nodes", "self.definition_node_to_value")
    c.callee("constraint.varname.get_all_varnames", lambda k: (k.param("self", "val"), k.returns("seq[pair[val,val]]"), setattr(k, "functional", True), setattr(k, "fn_name", "get_all_varnames")))
    c.callee("constraint.varname.get_varname", lambda k: (k.param("self", "val"), k.returns("val"), setattr(k, "functional", True), setattr(k, "fn_name", "get_varname")))
    c.callee("self.get_origin", lambda k: (k.param("self", "val"), k.param("v", "val"), k.param("node", "val"), k.param("state", "val"), k.returns("val"), setattr(k, "functional", True), setattr(k, "fn_name", "get_origin")))
    c.callee("self._resolve_origin", lambda k: (k.param("self", "val"), k.param("d", "val"), k.returns("set[val]"), setattr(k, "functional", True), setattr(k, "fn_name", "resolve_origin")))
    c.callee("self._add_composite", lambda k: (k.param("self", "val"), k.param("v", "val"), k.returns("val")))
    c.callee("_ConstrainedValue", lambda k: (k.param("nodes", "val"), k.param("cs", "val"), k.returns("obj:_ConstrainedValue"), setattr(k, "functional", True), setattr(k, "fn_name", "new_ConstrainedValue")))
    c.loop(0, invariant=[("no_stale_variable_so_far",
                          "all(forall(lambda n: implies(n in self._resolve_origin(self.get_origin(constraint.varname.get_all_varnames()[j][0], node, state)),"
                          " n in self._resolve_origin(constraint.varname.get_all_varnames()[j][1])), 'val') for j in range(_k0))"
                          " and same(self.name_to_current_definition_nodes, old(self.name_to_current_definition_nodes)) and same(self.definition_node_to_value, old(self.definition_node_to_value))")])
    stale = ("exists(lambda j: 0 <= j and j < len(constraint.varname.get_all_varnames()) and exists(lambda n: n in self._resolve_origin(self.get_origin(constraint.varname.get_all_varnames()[j][0], node, state))"
             " and n not in self._resolve_origin(constraint.varname.get_all_varnames()[j][1]), 'val'), 'int')")
    # a narrowing condition computed earlier may be applied only if no variable it mentions has since acquired a definition
    # the condition did not see (otherwise the narrowed type would not contain the values of the new definition)
    c.ensures(f"implies(constraint.varname is None or {stale}, same(self.name_to_current_definition_nodes, old(self.name_to_current_definition_nodes))"
              " and same(self.definition_node_to_value, old(self.definition_node_to_value)))", name="a_stale_constraint_is_not_applied")
    c.ensures(f"implies(constraint.varname is not None and not {stale}, constraint.varname.get_varname() in self.name_to_current_definition_nodes"
              " and len(self.name_to_current_definition_nodes[constraint.varname.get_varname()]) == 1)", name="a_current_constraint_becomes_the_single_definition")
    c.assume("get_origin / _resolve_origin are treated as pure here (get_origin also records the use); _add_composite only maintains the composite index")
    c.unmodelled += ["self._add_composite"]
    c.ignore_exceptions += ["KeyError"]
    c.assume("name_to_current_definition_nodes is a defaultdict(list): the read of a missing name cannot raise (its result, an empty list, only feeds the _ConstrainedValue's definition nodes, about which nothing is claimed)")


@contract("pyanalyze.stacked_scopes.FunctionScope.set", props=P)
def _(c):
    c.param("varname", "val")
    c.param("value", "obj:Value")
    c.returns("val")
    c.fieldspec("definition_node_to_value", "dict[val,val]")
    c.fieldspec("name_to_composites", "dict[val,set[val]]")
    c.fieldspec("referencing_value_vars", "dict[val,val]")
    c.modifies("self.name_to_current_definition_nodes", "self.definition_node_to_value")
    c.callee("self._add_composite", lambda k: (k.param("self", "val"), k.param("v", "val"), k.returns("val")))
    c.unmodelled += ["self._add_composite", "self.name_to_all_definition_nodes", "self.accessed_from_special_nodes", "ref_var.scope"]
    c.ignore_exceptions += ["KeyError"]
    c.requires("not isa(value, ReferencingValue) and not isa(self.referencing_value_vars[varname], ReferencingValue)", name="scope.plain_local_variable")
    c.requires("varname not in self.name_to_composites[varname]", name="class_invariant.the_composites_of_a_name_are_CompositeVariable_objects_not_the_name")
    comps = "self.name_to_composites[varname]"
    c.loop(0, invariant=[("only_composites_reset",
                          "varname in self.name_to_current_definition_nodes and len(self.name_to_current_definition_nodes[varname]) == 1 and same(self.name_to_current_definition_nodes[varname][0], node)"
                          " and forall(lambda k: implies(k is not varname and k not in old(self.name_to_composites)[varname], (k in self.name_to_current_definition_nodes) == (k in old(self.name_to_current_definition_nodes))"
                          " and implies(k in old(self.name_to_current_definition_nodes), same(self.name_to_current_definition_nodes[k], old(self.name_to_current_definition_nodes)[k]))), 'val')")])
    c.ensures("varname in self.name_to_current_definition_nodes and len(self.name_to_current_definition_nodes[varname]) == 1 and same(self.name_to_current_definition_nodes[varname][0], node)",
              name="an_assignment_kills_all_previous_definitions_of_the_name")
    c.ensures("node in self.definition_node_to_value and same(self.definition_node_to_value[node], value)", name="the_definition_node_carries_the_assigned_value")
    c.ensures("forall(lambda k: implies(k is not varname and k not in old(self.name_to_composites)[varname], (k in self.name_to_current_definition_nodes) == (k in old(self.name_to_current_definition_nodes))"
              " and implies(k in old(self.name_to_current_definition_nodes), same(self.name_to_current_definition_nodes[k], old(self.name_to_current_definition_nodes)[k]))), 'val')",
              name="other_names_keep_their_definitions")
    c.assume("defaultdict reads of missing names yield empty containers (not modelled: treated as reads of arbitrary values that cannot raise); global / nonlocal names (ReferencingValue) are outside this contract's scope")


@contract("pyanalyze.stacked_scopes.FunctionScope.get_local", props=P)
def _(c):
    c.param("varname", "val")
    c.param("from_parent_scope", "bool")
    c.returns("pair[val,val]")
    c.fieldspec("usage_to_definition_nodes", "dict[val,seq]")
    c.fieldspec("unbound_usages", "set[val]")
    c.fieldspec("referencing_value_vars", "dict[val,val]")
    c.modifies("self.usage_to_definition_nodes", "self.unbound_usages")
    c.callee("self._add_composite", lambda k: (k.param("self", "val"), k.param("v", "val"), k.returns("val")))
    c.callee("_LookupContext", lambda k: (k.param("a", "val"), k.param("b", "val"), k.param("c", "val"), k.param("d", "val"), k.returns("val")))
    c.callee("self._get_value_from_nodes", lambda k: (k.param("self", "val"), k.param("nodes", "val"), k.param("ctx", "val"), k.returns("val")))
    c.callee("self._resolve_origin", lambda k: (k.param("self", "val"), k.param("d", "val"), k.returns("val"), setattr(k, "functional", True), setattr(k, "fn_name", "resolve_origin")))
    c.unmodelled += ["self._add_composite", "self.accessed_from_special_nodes"]
    c.ignore_exceptions += ["KeyError"]
    c.requires("node is not None and state is not VisitorState.check_names and not from_parent_scope", name="scope.a_local_use_visited_while_collecting_names")
    c.requires("implies((node, varname) not in self.usage_to_definition_nodes, True)")
    bound = "(varname in old(self.name_to_current_definition_nodes))"
    defs = "old(self.name_to_current_definition_nodes)[varname]"
    use = "self.usage_to_definition_nodes[(node, varname)]"
    c.ensures(f"implies({bound}, (node, varname) in self.usage_to_definition_nodes and all(contains({use}, d) for d in {defs}))", name="a_use_records_every_current_definition_of_the_name")
    c.ensures(f"implies({bound} and (node, varname) in old(self.unbound_usages), contains({use}, _UNINITIALIZED))", name="a_use_seen_unbound_on_an_earlier_visit_stays_possibly_undefined")
    c.ensures(f"implies({bound} and (node, varname) in old(self.usage_to_definition_nodes), all(contains({use}, d) for d in old(self.usage_to_definition_nodes)[(node, varname)]))",
              name="definitions_recorded_on_earlier_visits_are_kept")
    c.ensures(f"implies(not {bound}, (node, varname) in self.unbound_usages and same(self.usage_to_definition_nodes, old(self.usage_to_definition_nodes)))", name="an_unbound_use_is_remembered")
    c.assume("usage_to_definition_nodes is a defaultdict(list) (`+=` on a missing key starts from []: modelled as a read that cannot raise); uses are keyed by (node, name) tuples compared structurally")


# ---------------------------------------------------------------------------
# the composite index: an assignment to `x.a` must reset what is known about `x.a.b`, `x.a.b.c`, ... (FunctionScope.set walks name_to_composites)

@contract("pyanalyze.stacked_scopes.FunctionScope._add_composite", props=P + ["C01", "C02"])
def _(c):
    c.param("varname", "val")
    c.fieldspec("attributes", "tuple")
    # ghost event logs: the prefix composites built, and the index entries added under them (the dict of sets itself is not modelled)
    c.record_calls += ["CompositeVariable", "self.name_to_composites[composite].add", "self.name_to_composites[varname.varname].add"]
    built = "appended('CompositeVariable')"
    added = "appended('self.name_to_composites[composite].add')"
    inv = (f"len({built}) == _k0 and len({added}) == _k0 and all(same(call_args('CompositeVariable', j)[0], varname.varname) and seq_eq(unS_(call_args('CompositeVariable', j)[1]), varname.attributes[:j + 1])"
           f" and same(call_args('self.name_to_composites[composite].add', j)[0], varname) for j in range(_k0))")
    c.loop(0, invariant=[("one_index_entry_per_proper_prefix_so_far", inv)])
    n = "len(varname.attributes)"
    c.ensures("implies(isa(varname, CompositeVariable), len(appended('self.name_to_composites[varname.varname].add')) == 1 and same(call_args('self.name_to_composites[varname.varname].add', 0)[0], varname))",
              name="a_composite_is_indexed_under_its_root_name")
    c.ensures(f"implies(isa(varname, CompositeVariable) and {n} > 1, len({built}) == {n} - 1 and len({added}) == {n} - 1)", name="one_index_entry_per_proper_prefix")
    c.ensures(f"implies(isa(varname, CompositeVariable) and {n} > 1, all(same(call_args('CompositeVariable', j)[0], varname.varname) and seq_eq(unS_(call_args('CompositeVariable', j)[1]), varname.attributes[:j + 1])"
              f" and same(call_args('self.name_to_composites[composite].add', j)[0], varname) for j in range({n} - 1)))",
              name="a_composite_is_indexed_under_every_proper_prefix_so_assigning_to_an_ancestor_resets_it")
    c.assume("the j-th recorded add goes to the set stored under the j-th composite built (the statement `self.name_to_composites[composite].add(varname)` directly follows the construction of `composite`)")

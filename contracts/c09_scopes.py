"""C09 — name binding: the scope primitives of stacked_scopes.FunctionScope (join, isolation, kill, use recording).
The composition in the visitor's visit_* methods (the CFG sandwich itself) is covered only by the bounded stand-in."""
from pyvc.dsl import REG, contract

P = ["C09"]
REG.fieldspec(current_loop_scopes="seq[dict[val,seq]]", name_to_current_definition_nodes="dict[val,seq]")

KEPT = "(LEAVES_LOOP not in scopes[{k}] and (LEAVES_SCOPE not in scopes[{k}] or ignore_leaves_scope))"


def kept(k):
    return KEPT.format(k=k)


@contract("pyanalyze.stacked_scopes.FunctionScope.get_combined_scope", props=P)
def _(c):
    c.param("scopes", "seq[dict[val,seq]]")
    c.param("ignore_leaves_scope", "bool")
    c.returns("dict[val,seq]")
    c.modifies("self.current_loop_scopes")
    c.local("new_scopes", "seq[dict[val,seq]]")
    any_kept = f"exists(lambda k: 0 <= k and k < len(scopes) and {kept('k')}, 'int')"
    c.loop(0, invariant=[
        ("kept_prefix", f"all(exists(lambda k: 0 <= k and k < _k0 and {kept('k')} and same(s, scopes[k]), 'int') for s in new_scopes)"
                        f" and all(implies({kept('k')}, exists(lambda j: 0 <= j and j < len(new_scopes) and same(new_scopes[j], scopes[k]), 'int')) for k in range(_k0))"),
        ("loop_leavers", "all(implies(LEAVES_LOOP in scopes[k], contains(self.current_loop_scopes, scopes[k])) for k in range(_k0))"
                         " and all(contains(old(self.current_loop_scopes), s) or exists(lambda k: 0 <= k and k < _k0 and LEAVES_LOOP in scopes[k] and same(s, scopes[k]), 'int') for s in self.current_loop_scopes)"
                         " and all(contains(self.current_loop_scopes, s) for s in old(self.current_loop_scopes))"),
    ])
    c.ensures(f"implies(not {any_kept}, len(result) == 1 and LEAVES_SCOPE in result and len(result[LEAVES_SCOPE]) == 0)", name="all_branches_leave_gives_the_leaves_scope_marker")
    c.ensures(f"implies({any_kept}, forall(lambda v: (v in result) == exists(lambda k: 0 <= k and k < len(scopes) and {kept('k')} and v in scopes[k], 'int'), 'val'))",
              name="joined_names_are_the_names_of_the_branches_that_fall_through")
    c.ensures(f"implies({any_kept}, forall(lambda v: forall(lambda n: implies(v in result, contains(result[v], n) == exists(lambda k: 0 <= k and k < len(scopes) and {kept('k')}"
              " and ((v in scopes[k] and contains(scopes[k][v], n)) or (v not in scopes[k] and n is _UNINITIALIZED)), 'int')), 'val'), 'val'))",
              name="definitions_after_the_join_are_the_union_over_falling_through_branches_with_uninitialized_for_missing")
    c.ensures("all(implies(LEAVES_LOOP in scopes[k], contains(self.current_loop_scopes, scopes[k])) for k in range(len(scopes)))", name="loop_leaving_branches_are_handed_to_the_enclosing_loop")
    c.ensures("all(contains(old(self.current_loop_scopes), s) or exists(lambda k: 0 <= k and k < len(scopes) and LEAVES_LOOP in scopes[k] and same(s, scopes[k]), 'int') for s in self.current_loop_scopes)",
              name="nothing_else_is_handed_to_the_loop")


@contract("pyanalyze.stacked_scopes.FunctionScope.subscope", props=P)
def _(c):
    c.generator = True
    c.returns("seq[dict[val,seq]]")
    c.ensures("len(yielded) == 1", name="one_subscope_per_entry")
    c.ensures("forall(lambda v: implies(v in yielded[0], v in old(self.name_to_current_definition_nodes) and v is not LEAVES_SCOPE), 'val')"
              " and all(implies(v is not LEAVES_SCOPE, v in yielded[0]) for v in old(self.name_to_current_definition_nodes))",
              name="a_new_subscope_starts_from_the_current_definitions_without_the_leaves_scope_marker")
    c.ensures("forall(lambda v: implies(v in yielded[0], same(yielded[0][v], old(self.name_to_current_definition_nodes)[v])), 'val')", name="with_the_same_definition_lists")
    c.ensures("same(self.name_to_current_definition_nodes, old(self.name_to_current_definition_nodes))", name="the_parent_map_is_restored_on_exit")
    c.assume("defaultdict(list, m) is modelled as the mapping m (reads of missing names inside the block create empty lists: not modelled); qcore.override restores the attribute on exit")


@contract("pyanalyze.stacked_scopes.FunctionScope.combine_subscopes", props=P)
def _(c):
    from pyvc.core import parse_spec
    c.param("scopes", "seq[dict[val,seq]]")
    c.param("ignore_leaves_scope", "bool")
    c.returns("val")
    c.modifies("self.name_to_current_definition_nodes", "self.current_loop_scopes")
    c.record_calls += ["self.get_combined_scope"]
    c.record_result_specs["self.get_combined_scope"] = parse_spec("dict[val,seq]")
    J = "call_result('self.get_combined_scope', 0)"
    c.ensures("len(appended('self.get_combined_scope')) == 1 and same(call_args('self.get_combined_scope', 0)[0], scopes)", name="joins_exactly_the_given_branches")
    c.ensures(f"all(v in self.name_to_current_definition_nodes and same(self.name_to_current_definition_nodes[v], {J}[v]) for v in {J})", name="joined_names_take_the_joined_definitions")
    c.ensures(f"forall(lambda v: implies(v not in {J}, (v in self.name_to_current_definition_nodes) == (v in old(self.name_to_current_definition_nodes))"
              " and implies(v in old(self.name_to_current_definition_nodes), same(self.name_to_current_definition_nodes[v], old(self.name_to_current_definition_nodes)[v]))), 'val')",
              name="names_bound_in_no_branch_keep_their_definitions")

"""C14 — value algebra: unions, flattening, annotation, equality/hash, substitution (pyanalyze/value.py)."""
from pyvc.dsl import REG, contract

REG.fieldspec(metadata="seq", vals="seq")
P = ["C14"]


@contract("pyanalyze.value._is_unreachable", props=P)
def _(c):
    c.returns("bool")
    c.functional = True
    c.ensures("implies(not isa(value, AnnotatedValue), result == (isa(value, AnyValue) and value.source is AnySource.unreachable))", name="unreachable_any")
    c.ensures("implies(isa(value, AnnotatedValue), result == _is_unreachable(value.value))", name="looks_through_annotated")


@contract("pyanalyze.value.is_union", props=P)
def _(c):
    c.returns("bool")
    c.ensures("result == (isa(val, MultiValuedValue) or (isa(val, AnnotatedValue) and isa(val.value, MultiValuedValue)))")


@contract("pyanalyze.value.annotate_value", props=P, kind="assumed")
def _(c):
    c.param("origin", "val"); c.param("metadata", "seq")
    c.returns("val")
    c.functional = True
    c.ensures("forall(lambda o: mem(o, result) == (mem(o, origin) and md_ok(o, metadata)), 'obj')", name="meaning")
    c.ensures("implies(not union_like(origin), not union_like(result))", name="no_new_union")
    c.ensures("_is_unreachable(result) == _is_unreachable(origin)", name="reachability_preserved")
    c.ensures("implies(static(origin), static(result))", name="static_preserved")
    c.assume("annotate_value: gamma(result) = gamma(origin) restricted by the metadata (verified separately below where the engine reaches it)")


@contract("pyanalyze.value.flatten_values", props=P)
def _(c):
    c.param("unwrap_annotated", "bool")
    c.generator = True
    c.returns("seq")
    c.requires("wf_union(val) and implies(isa(val, AnnotatedValue), wf_union(val.value))", name="well_formed_union")
    c.ensures("implies(not unwrap_annotated, forall(lambda o: mem(o, val) == exists(lambda i: 0 <= i and i < len(result) and mem(o, result[i])), 'obj'))", name="same_members")
    c.ensures("implies(not unwrap_annotated, all(not union_like(r) for r in result))", name="no_union_among_the_results")
    c.ensures("implies(not unwrap_annotated, all(flat_member(r, val) for r in result))", name="results_come_from_the_argument")
    c.ensures("implies(isa(val, MultiValuedValue), seq_eq(result, val.vals))", name="a_union_yields_its_members_in_order")
    c.ensures("implies(static(val) and not unwrap_annotated, all(static(r) for r in result))", name="static_members")
    c.ensures("implies(not isa(val, MultiValuedValue) and not (isa(val, AnnotatedValue) and isa(val.value, MultiValuedValue)) and not unwrap_annotated, len(result) == 1 and same(result[0], val))", name="identity_on_non_unions")


@contract("pyanalyze.value.MultiValuedValue", props=P, kind="assumed")
def _(c):
    """constructor (dataclass __init__ + __post_init__ flattening): assumed here, __post_init__ is a kernel below"""
    c.param("raw_vals", "seq")
    c.returns("obj:MultiValuedValue")
    c.functional = True
    c.ensures("typeis(result, MultiValuedValue)")
    c.requires("all(wf_union(v) and implies(isa(v, AnnotatedValue), wf_union(v.value)) for v in raw_vals)", name="arguments_well_formed")
    c.ensures("forall(lambda o: exists(lambda i: 0 <= i and i < len(result.vals) and mem(o, result.vals[i])) =="
              " exists(lambda j: 0 <= j and j < len(raw_vals) and mem(o, raw_vals[j])), 'obj')", name="members_are_the_members_of_the_arguments")
    c.ensures("all(not union_like(m) for m in result.vals)", name="never_nested")
    c.ensures("all(exists(lambda j: 0 <= j and j < len(raw_vals) and flat_member(m, raw_vals[j])) for m in result.vals)", name="members_come_from_the_arguments")
    c.assume("MultiValuedValue(raw_vals) = dataclass __init__ followed by __post_init__(raw_vals); the two clauses are exactly the postconditions proved for the kernel MultiValuedValue.__post_init__")


IN_EXISTING = ("(exists(lambda e: 0 <= e and e < len(keys_of(hashable_vals)) and mem(o, keys_of(hashable_vals)[e]))"
               " or exists(lambda e: 0 <= e and e < len(unhashable_vals) and mem(o, unhashable_vals[e])))")
FLAT = ("all(not union_like(x) and not _is_unreachable(x) for x in keys_of(hashable_vals))"
        " and all(not union_like(x) and not _is_unreachable(x) for x in unhashable_vals)")


@contract("pyanalyze.value.unite_values", props=P + ["C10"])
def _(c):
    c.param("values", "tuple")
    c.returns("val")
    c.dict_keys = "pyeq"
    c.merge_paths = False
    c.requires("all(wf_union(v) and implies(isa(v, AnnotatedValue), wf_union(v.value)) for v in values)", name="well_formed_unions")
    c.requires("all(not _is_unreachable(v) and implies(isa(v, MultiValuedValue), all(not _is_unreachable(m) for m in v.vals))"
               " and implies(isa(v, AnnotatedValue) and isa(v.value, MultiValuedValue), all(not _is_unreachable(m) for m in v.value.vals)) for v in values)",
               name="no_unreachable_any")
    c.assume("scope: operands without AnyValue(AnySource.unreachable) members (the documented unreachable rule drops those and is not part of the set semantics)")
    g_outer = f"forall(lambda o: {IN_EXISTING} == exists(lambda j: 0 <= j and j < _k0 and mem(o, values[j])), 'obj')"
    STATIC = ("implies(all(static(v) for v in values), all(static(x) for x in keys_of(hashable_vals)) and all(static(x) for x in unhashable_vals))")
    c.loop(0, invariant=[("members_so_far", g_outer), ("flat_and_reachable", FLAT), ("static_members", STATIC)])
    g_inner = (f"forall(lambda o: {IN_EXISTING} =="
               " (exists(lambda j: 0 <= j and j < _k0 and mem(o, values[j])) or exists(lambda s: 0 <= s and s < _k1 and mem(o, subvals[s]))), 'obj')")
    sub_ok = "all(not union_like(x) and not _is_unreachable(x) for x in subvals)"
    sub_mean = "forall(lambda o: mem(o, value) == exists(lambda s: 0 <= s and s < len(subvals) and mem(o, subvals[s])), 'obj')"
    sub_static = "implies(all(static(v) for v in values), all(static(x) for x in subvals))"
    c.loop(1, invariant=[("members_so_far", g_inner), ("flat_and_reachable", FLAT), ("subvals_flat", sub_ok), ("subvals_mean_value", sub_mean),
                         ("static_members", STATIC), ("static_subvals", sub_static)])
    c.ensures("implies(len(values) == 0, result is NO_RETURN_VALUE)", name="never_is_the_identity")
    c.ensures("forall(lambda o: mem(o, result) == exists(lambda j: 0 <= j and j < len(values) and mem(o, values[j])), 'obj')", name="members_are_exactly_the_members_of_the_operands")
    c.ensures("wf_union(result)", name="never_nested")
    c.ensures("implies(all(static(v) for v in values), static(result))", name="static_operands_give_a_static_union")


@contract("pyanalyze.value.MultiValuedValue.__post_init__", props=P)
def _(c):
    c.param("raw_vals", "seq")
    c.callee("self._get_known_subvals", lambda k: (k.param("self", "val"), k.returns("val")))
    c.requires("all(wf_union(v) and implies(isa(v, AnnotatedValue), wf_union(v.value)) for v in raw_vals)", name="arguments_well_formed")
    c.ensures("forall(lambda o: exists(lambda i: 0 <= i and i < len(self.vals) and mem(o, self.vals[i])) =="
              " exists(lambda j: 0 <= j and j < len(raw_vals) and mem(o, raw_vals[j])), 'obj')", name="members_are_the_members_of_the_arguments")
    c.ensures("all(not union_like(m) for m in self.vals)", name="never_nested")
    c.ensures("all(exists(lambda j: 0 <= j and j < len(raw_vals) and flat_member(m, raw_vals[j])) for m in self.vals)", name="members_come_from_the_arguments")


# ---- substitution is structure preserving (each class re-builds itself from its substituted parts and keeps its own flags) ----
_SUBST = lambda k: (k.param("self", "val"), k.param("m", "val"), k.returns("obj:Value"), setattr(k, "functional", True), setattr(k, "fn_name", "substitute_typevars"))


@contract("pyanalyze.value.CallableValue.substitute_typevars", props=P)
def _(c):
    c.returns("val")
    c.fieldspec("signature", "val"); c.fieldspec("typ", "val")
    c.callee("self.signature.substitute_typevars", lambda k: (k.param("self", "val"), k.param("m", "val"), k.returns("val"), setattr(k, "functional", True), setattr(k, "fn_name", "Signature.substitute_typevars")))
    c.callee("CallableValue", lambda k: (k.param("sig", "val"), k.param("fallback", "val"), k.returns("obj:CallableValue"),
                                         k.ensures("result.signature is sig and result.typ is fallback", name="constructor_stores_its_arguments")))
    c.ensures("isa(result, CallableValue) and result.typ is self.typ and same(result.signature, self.signature.substitute_typevars(typevars))",
              name="keeps_the_fallback_type_and_substitutes_in_the_signature")
    c.assume("CallableValue.__init__(signature, fallback) stores both (three-line constructor; default fallback collections.abc.Callable)")


@contract("pyanalyze.value.SubclassValue.substitute_typevars", props=P)
def _(c):
    c.returns("val")
    c.fieldspec("typ", "val"); c.fieldspec("exactly", "bool")
    c.callee("self.typ.substitute_typevars", _SUBST)
    c.callee("self.make", lambda k: (k.param("self", "val"), k.param("origin", "val"), k.param("exactly", "bool"), k.returns("val"), setattr(k, "functional", True), setattr(k, "fn_name", "SubclassValue.make")))
    c.ensures("same(result, self.make(self.typ.substitute_typevars(typevars), exactly=self.exactly))", name="keeps_exactness_and_substitutes_in_the_class")


@contract("pyanalyze.value.TypeVarValue.substitute_typevars", props=P)
def _(c):
    c.param("typevars", "dict[val,val]")
    c.returns("val")
    c.fieldspec("typevar", "val")
    c.ensures("implies(self.typevar in typevars, same(result, typevars[self.typevar]))", name="a_mapped_type_variable_is_replaced_by_its_image")
    c.ensures("implies(self.typevar not in typevars, result is self)", name="an_unmapped_type_variable_is_left_alone")


@contract("pyanalyze.value.MultiValuedValue.substitute_typevars", props=P)
def _(c):
    c.param("typevars", "val")
    c.returns("val")
    c.callee("MultiValuedValue", lambda k: (k.param("raw_vals", "seq"), k.returns("obj:MultiValuedValue"), setattr(k, "functional", True), setattr(k, "fn_name", "new_MultiValuedValue")))
    c.ensures("implies(len(self.vals) == 0 or not truthy(typevars), result is self)", name="nothing_to_substitute")
    c.ensures("implies(len(self.vals) > 0 and truthy(typevars), isa(result, MultiValuedValue))", name="a_union_is_rebuilt_through_the_flattening_constructor")

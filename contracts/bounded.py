"""Bounded native stand-ins (labelled bounded, never counted as proved) for functions the contracts do not reach.
Each runs a property's own statement with the REAL functions over an enumerated universe (replay/r_*.py)."""
from pyvc.dsl import REG

REG.bounded_check("C03.literal_membership", ["C03"], "C03.bounded",
                  covers=["pyanalyze.runtime.is_assignable", "GenericValue.can_assign", "SequenceValue.can_assign", "TypedDictValue.can_assign (literal dict branch)",
                          "SubclassValue.can_assign", "NewTypeValue.can_assign", "replace_known_sequence_value", "annotations.type_from_runtime"],
                  bound="42 objects x 49 static types (depth <= 2): is_assignable(o, T) == member(o, T) for a reference membership function")
REG.bounded_check("C04.type_pairs", ["C04"], "C04.bounded",
                  covers=["GenericValue.can_assign", "SequenceValue.can_assign", "TypedDictValue.can_assign", "SubclassValue.can_assign", "TypeObject.can_assign (via type_from_runtime values)"],
                  bound="49 x 49 static types against 42 objects (accepted => membership inclusion), reflexivity / Never / object on 43 types, union laws on 14^3 triples; documented leniencies and known findings D23/D24 skipped")
REG.bounded_check("C14.union_and_substitution_laws", ["C14"], "C14.bounded",
                  covers=["annotate_value", "substitute_typevars of every Value class", "MultiValuedValue.__eq__", "Value.is_assignable on united operands", "member order of unite_values (C10)"],
                  bound="18 values: all pairs (idempotence, Never identity, members, commutativity, operand acceptance, first-occurrence order), triples over 12 (associativity); substitution: identity on 23 closed values x 3 maps, full replacement on 10 open values, commutation with uniting on 36 pairs")
REG.bounded_check("C17.percent_and_str_format", ["C17"], "C17.bounded",
                  covers=["ConversionSpecifier.from_match / _FORMAT_STRING_REGEX", "PercentFormatString.accept", "format_strings.parse_format_string", "implementation._str_format_impl"],
                  bound="17 %-conversions x str/bytes x 24 literals; 12 %-templates x tuples of length 0..5; 23 str.format templates (field names that look like numbers but are keywords included) x 9 argument lists, compared with the real % operator / str.format through the checker (unused-argument lint territory compared one way only)")
REG.bounded_check("C13.two_routes", ["C13"], "C13.bounded",
                  covers=["arg_spec.ArgSpecCache.from_signature / _make_sig_parameter", "functions.compute_value_of_function", "annotations.type_from_runtime (simple annotations)"],
                  bound="def headers: <=2 positional-only x <=2 positional-or-keyword x default suffixes x *args x <=2 keyword-only x **kwargs against inspect.signature; 9 annotated headers x sync/async x 11 call shapes judged through a nested def (def-statement route) and a module-level def (runtime-object route); quoted annotations naming a module class that shadows a builtin; an async def with a nested sync generator helper")
REG.bounded_check("C11.reference_projection", ["C11"], "pyanalyze.node_visitor.BaseNodeVisitor.show_error",
                  covers=["BaseNodeVisitor.show_error / has_file_level_ignore / get_unused_ignores (cross-check of the proved kernels)"],
                  bound="files of <= 3 lines over 8 line shapes x line numbers x 3 codes x obey_ignore x settings")
REG.bounded_check("C16.step_and_autofix", ["C16"], "C16.bounded",
                  covers=["BaseNodeVisitor._apply_changes_to_lines / show_error add_ignores (cross-check)", "replace_node / NodeTransformer / decompile", "fix producers: unused variable removal, use_fstrings"],
                  bound="files of <= 4 lines, every single-line replacement with 0..2 additions; add-ignores step on files of <= 3 lines over 4 line shapes; 14 programs with fixable diagnostics (multi-line statements closed by ), ] and } on their own line; %-conversions with width / precision / flags): fix-apply-recheck to the fixpoint, parse, no new diagnostics, same result of a sample call")
REG.bounded_check("C02.narrowing", ["C02"], "pyanalyze.stacked_scopes.Constraint.apply_to_value",
                  covers=["Constraint.apply_to_value (cross-check)", "Value.is_assignable on literals"],
                  bound="12 objects x 14 values x 11 classes x both polarities (isinstance), 5 singletons (is); known findings D2/D3 skipped")
REG.bounded_check("C15.solutions", ["C15"], "C15.bounded",
                  covers=["typevar.solve (cross-check)", "TypeVarValue.can_assign / can_be_assigned / get_inherent_bounds", "resolve_bounds_map", "Signature.check_call_with_bound_args (TypeVar part)"],
                  bound="bound lists of length <= 3 over 6 static values x {lower, upper} + one IsOneOf (known finding D11 skipped); 24 generic calls (bounded / constrained TypeVar in a parameter, only in a callback, in both; callees whose return type has no type variable; constraints listed wide-first and narrow-first) through the checker")
REG.bounded_check("C18.layering", ["C18"], "C18.bounded",
                  covers=["Options.from_option_list (sorted by sort_key)", "parse_config_file / extend_config", "Options.for_module / get_value_for", "NameCheckVisitor.prepare_constructor_kwargs"],
                  bound="two chained config files x every subset of <= 3 of {command line, main a.b / a / top-level, base a.b / a / top-level} x extend_config first/last x 5 module paths, integer and list option; falsy and truthy command-line values over a config file")
REG.bounded_check("C08.reference_resolver", ["C08"], "C08.bounded",
                  covers=["Signature.check_call_preprocessed / bind_arguments (as used by overload resolution)", "@overload collection (extensions.py, arg_spec.py)", "union decomposition (_check_param_type_compatibility)"],
                  bound="7 overload sets (3 signatures, arity 1-2, overlapping and shadowed) x all literal argument tuples of length <= 2 over 5 literals; union arguments passed positionally and by keyword, a two-argument set where an earlier overload takes part of the union but rejects the other argument, unions with an Any member, one Any-argument case")
REG.bounded_check("C20.reference_denotation", ["C20"], "C20.bounded",
                  covers=["ConditionEvaluator.visit_is_of_type / visit_BoolOp / visit_Compare", "EvaluateVisitor.visit_show_error / _evaluate_ret", "arg_spec._maybe_make_evaluator_sig", "signature argument positions"],
                  bound="8 evaluator bodies (if / nested if / not / and / or over is_of_type and is_provided, return, show_error) x {literal int, literal str, Union[int, str]} x {y omitted, positional, keyword}; 4 bodies over two union parameters (and / or / not with a nested condition) x 9 argument pairs; 2 bodies of several ifs in sequence x 9 argument pairs (known finding D51 kept apart); unions with an Any member under exclude_any; 8 calls on the UNKNOWN / KEYWORD / POSITIONAL / DEFAULT kinds of keyword-only and positional-only parameters with defaults")
REG.bounded_check("C01.instrumented_execution", ["C01"], "C01.bounded",
                  covers=["NameCheckVisitor (assignment, branching, loops, try/except, narrowing, unpacking, indexing, calls to annotated and generic functions, match)",
                          "stacked_scopes lookups", "implementation impl functions", "patma"],
                  bound="23 programs x 1-4 argument tuples: every evaluated Name/Subscript/Call/BinOp/IfExp/BoolOp/Compare node's runtime value must belong to its inferred type (annotate_code)")
REG.bounded_check("C01.unpacking", ["C01"], "C01.unpack",
                  covers=["value._unpack_sequence_value (also under contract: the bounded run checks the semantic reading the contract's position rules stand for)"],
                  bound="SequenceValues of <= 4 members (every single/unpacked pattern, pairwise distinct member types) x target_length 0..5 x post_starred_length in {None, 0, 1, 2}: "
                        "every admitted concrete sequence (each unpacked member repeated 0..targets+1 times) of a fitting length is unpacked soundly position by position")
REG.bounded_check("C02.narrowing_programs", ["C02"], "C02.programs",
                  covers=["predicates.EqualsPredicate (enum members against wider declared types, bool)", "implementation.len_of_value / len_transformer on tuples with an unpacked part",
                          "FunctionScope._add_composite / set (nested composites reset by an assignment to an ancestor)", "value._unpack_sequence_value through assignments"],
                  bound="6 programs x 3-5 argument tuples, executed under CPython with every evaluated node instrumented: in each branch the runtime value of the narrowed variable belongs "
                        "to the type it is narrowed to there (arguments equal to a literal of another type, 1 == True, are known finding D54 and kept out)")
REG.bounded_check("C11.error_code_layers", ["C11"], "C11.layers",
                  covers=["NameCheckVisitor.prepare_constructor_kwargs (the -e/-d `settings` loop)", "options._parse_config_section (disable_all, overrides)", "Options.is_error_code_enabled", "options.parse_config_file (inclusion cycles)"],
                  bound="2 x 2 config files (top-level value, override for module a, disable_all override for module b) x 4 command-line settings x 5 module paths x 2 error codes: "
                        "enabled == command line, else disable_all / override of the module, else top level, else default; extend_config cycles through 2 and 3 files are InvalidConfigOption")
REG.bounded_check("C10.determinism", ["C10"], "C10.bounded",
                  covers=["the whole checker on the corpus: union member order, listed names, message text"],
                  bound="15 source files (format mapping keys, unexpected keywords, or/and narrowing, `in` narrowing, unused variables, branch unions, protocols, overloads, try/with definitions, nested functions, stdlib calls, iterator classes) x PYTHONHASHSEED in {0,1,2,3,5,7} (thorough: 0..15) in fresh subprocesses (full rendered messages compared); two check orders in one process; one Checker shared by all files (both orders) against the fresh-Checker baseline; 2 non-importable scripts checked without a module object, alone and after each other; module-name tokens normalised")
REG.bounded_check("C19.literal_operations", ["C19"], "C19.bounded",
                  covers=["NameCheckVisitor.visit_BinOp / visit_UnaryOp / _check_dunder_call", "signature._maybe_perform_call", "attributes._get_attribute_from_known / _get_attribute_from_mro",
                          "implementation subscript impls (tuple / str / list __getitem__)"],
                  bound="12 literals x 9 binary operators x 12 literals (str/bytes % excluded: C17), 4 unary operators, 6 attribute names, 3 receivers x 7 literal indices, module/class/enum operands x 8 attributes and 3 operators: "
                        "diagnosed <=> CPython raises TypeError/AttributeError (IndexError on the tuple), inferred Literal == evaluated result in value and type; known findings D30/D31 skipped")
REG.bounded_check("C09.scope_primitives", ["C09"], "C09.prims",
                  covers=["FunctionScope.get_combined_scope (cross-check of the proved kernel)", "FunctionScope.set (kill)", "FunctionScope.subscope (isolation)", "FunctionScope.get_local (use recording)"],
                  bound="get_combined_scope on all lists of <= 2 (a third of the universe for 3) branch scopes over 31 scopes (names x, y, LEAVES_SCOPE / LEAVES_LOOP markers) x ignore_leaves_scope; one kill / isolation / use-recording scenario")
REG.bounded_check("C09.sandwich", ["C09"], "C09.bounded",
                  covers=["NameCheckVisitor.visit_If / visit_For / visit_While / _handle_loop_else / visit_Try / visit_try_except / visit_With / visit_Break / visit_Continue / visit_Return / visit_Raise",
                          "FunctionScope.suppressing_subscope / loop_scope / combine_subscopes / get_local", "resolve_name undefined / possibly undefined reporting"],
                  bound="82 systematically built skeletons (a guarded assignment followed by each kind of jump inside each block context) + 1200 (quick) / 7500 (thorough) generated statement skeletons of nesting depth <= 2-4 (assignments of distinct literals, opaque conditions, if/else, while/for with else, while True, break/continue, "
                        "try/except/else/finally, with, return/raise as last statement of a block; one variable; nested functions and global/nonlocal not generated): strict <= reported <= liberal against an independent "
                        "reaching-definitions analysis; mismatches explained by the edges of known findings D36-D39 are counted, not reported")
REG.bounded_check("C02.conditions", ["C02"], "C02.conditions",
                  covers=["NameCheckVisitor.visit_BoolOp / visit_UnaryOp (not) / constraint_from_condition", "stacked_scopes.extract_constraints / AndConstraint.make / OrConstraint.make / OrConstraint.apply / invert",
                          "the isinstance / is / truthiness / == condition-to-constraint translation"],
                  bound="10 atomic conditions on x: Union[int, str, None] (isinstance, is None, truthiness, ==, an opaque call), all ordered pairs under and / or, 80 three-operand shapes with not / nesting, "
                        "x in {1, 0, 's', '', None} x both results of the opaque call: the value that takes a branch at run time belongs to the type x is narrowed to there; 52 comparisons of len(y) with a constant on either side on tuples of length 0-4; 60 match statements with an opaque guard on the first case x subject values x both guard results")
REG.bounded_check("C05.binding", ["C05"], "C05.bounded",
                  covers=["Signature.bind_arguments", "signature.preprocess_args (literal * / ** arguments, merging)", "arg_spec.ArgSpecCache.from_signature (def statements)", "the visitor's call-site argument collection"],
                  bound="180 def signatures (<= 4 parameters: positional-only, positional-or-keyword, *args, keyword-only, **kwargs, every default pattern) x 140 sampled (quick) / all 512 (thorough) call shapes "
                        "(<= 3 positionals, <= 2 keywords, optional *tuple-literal and **dict-literal): incompatible_call <=> calling the real function raises TypeError; "
                        "148 signatures (<= 3 parameters) x 11 shapes with list[int] / tuple[int, ...] / dict[str, int] star-arguments: accepted => some expansion (lengths 0-4) binds, "
                        "rejected => no expansion taking an element from every star-argument binds (known finding D44 skipped), including a **mapping keyed by a str subclass; 7 signatures with dunder-named parameters of every kind x 11 call shapes")
REG.bounded_check("C05.validate", ["C05"], "C05.validate",
                  covers=["Signature.validate (cross-check of the proved kernel against CPython's parameter rules)"], bound="all parameter lists of <= 3 parameters over 5 kinds x default / required")
REG.bounded_check("C07.shape_inclusion", ["C07"], "C07.bounded",
                  covers=["Signature.can_assign", "can_assign_var_positional / can_assign_var_keyword (cross-check)", "arg_spec signatures of def statements", "NameCheckVisitor._check_for_incompatible_overrides / _get_base_class_attributes / _can_assign_to_base_callable, bind_self"],
                  bound="148 x 148 (thorough: 180 x 180, <= 4 parameters) pairs of def signatures (<= 3 parameters of all kinds / default patterns): accepted => every one of 40 call shapes (<= 3 positionals, <= 3 keywords) that binds to the expected "
                        "function binds to the actual one (real calls); 16 x 16 typed pairs over bool/int/object/str: accepted <=> parameter contravariance and return covariance; 179 method overrides (13 x 13 method signatures, double inheritance, functions assigned in the class body): incompatible_override <=> some of 32 call shapes binds to a base method and fails on the override (known finding D5 skipped)")
REG.bounded_check("C06.calls", ["C06"], "C06.bounded",
                  covers=["Signature.check_call_with_bound_args (generic pre-pass, resolve_bounds_map, return substitution)", "Signature._check_param_type_compatibility (cross-check)", "arg_spec constructor / dataclass / bound-method signatures, bind_self",
                          "the inferred type of the call against the runtime result"],
                  bound="405 calls: 11 single-parameter functions and methods (int, str, float, Optional, Union, List, Tuple, object; instance / class / static method) x 10 literals; two-parameter, defaulted, *args: int, "
                        "**kwargs: str functions and a dataclass constructor x 36 literal pairs; 5 TypeVar-generic functions (unbounded, bound, constrained); ill-typed defaults passed explicitly; constructors through a Python-level __new__ with annotated cls; several star-arguments of unknown length in one call; generic callbacks sharing a TypeVar: diagnosed <=> some argument outside its declared type (PEP 484 promotions), "
                        "and the value returned by executing the call belongs to the inferred type")
REG.bounded_check("C12.totality", ["C12"], "C12.bounded",
                  covers=["NameCheckVisitor on generated modules (catch-all, location extraction, context rendering)", "annotations._Visitor on odd annotations", "Value.can_assign / is_assignable / unite_values / substitute_typevars / can_overlap / __eq__ / __hash__ / __str__ on generated values"],
                  bound="120 (quick) / 600 (thorough) modules of 3-8 functions drawn from 118 statement templates and 57 odd annotation texts in 5 positions (string annotations on variables, parameters, returns, cast) (wrong arities, bad operands, undefined names, odd annotations, decorators, classes, comprehensions, lambdas, "
                        "star-expressions, f-strings, walrus, match, async), all error codes enabled as in the project's tests: no exception, no internal_error, registered code, line inside the file, column inside the line, "
                        "non-empty message; 44 x 44 pairs of Values (every Value class, TypeVars, empty / nested shapes, literal unions of >= 10 members against unhashable literals): the value API returns")

# additions of the third wave of seeded changes (kept apart so that the texts above stay as they were reviewed)
_EXTRA = {
    "C03.literal_membership": "; wave 3: + unions of >= 10 literal arms with a non-literal arm (unhashable objects), TypedDicts with Optional / NotRequired values against dicts holding None, type / ABCMeta / a Thrift-style enum class, class objects as values, an Enum class included (47 objects x 57 types; known findings D57 / D58)",
    "C04.type_pairs": "; wave 3: the same extended universe (57 x 57 types), + a generic protocol asked with two instantiations in both orders on one checker (was known finding D22), leniency L3 (bare `type` read as type[Any])",
    "C05.binding": "; wave 3: + 9 calls to nested defs that shadow module-level functions and 40 calls to (inherited) static / class / instance methods through an instance and through the class, compared with executing the call",
    "C06.calls": "; wave 3: + 9 calls mixing explicit keywords with a **mapping against a typed **kwargs, 5 calls solving a bound TypeVar from callback parameters only",
    "C07.shape_inclusion": "; wave 3: + 17 calls through the checker: a protocol inheriting members from another protocol, a callback protocol and Callable[[int], None] against module-level defs, nested defs and lambdas with and without positional-only parameters",
    "C08.reference_resolver": "; wave 3: + an `object` overload before a `str` overload with an Any argument, overloads whose default does not fit its annotation called with an explicit equal literal (None, ...)",
    "C09.sandwich": "; wave 3: with statements now carry 1-2 items (suppressing cm(), non-suppressing plain(), in both orders) in the structured (118 skeletons) and random families; an explicit raise inside a suppressing with certainly continues after it (strict bound)",
    "C10.determinism": "; wave 3: + a_abs.py / b_abs.py (a cached generic-protocol bounds map must not be extended by later checks), the generic-protocol instantiation order scenario (was D22)",
    "C12.totality": "; wave 3: + every annotation text (57 odd ones, 17 special forms subscripted with (), 6 mistakes nested inside a subscript) as a string annotation in each of the 5 positions, systematically; literals whose == raises or has no truth value in the value universe",
    "C13.two_routes": "; wave 3: + collections.abc.Callable[[int], str] quoted / plain / typing.Callable on both routes, methods of a class nested in a class (unannotated self)",
    "C14.union_and_substitution_laws": "; wave 3: + equal values hash equal and merge (TypedDicts with reordered keys), TypedDicts whose extra_keys mention type variables among the open values",
    "C15.solutions": "; wave 3: + 10 calls: a conflict on one type variable next to another type variable in both argument orders, bounds collected from non-last tuple members, Type[T] with a declared bound / constraints",
    "C16.step_and_autofix": "; wave 3: + 4 programs (positional-to-keyword rewrite of calls with keywords and **mapping; unused ignore comments after code and on their own line)",
    "C17.percent_and_str_format": "; wave 3: + 10 template/argument pairs as a binary % expression and as the augmented assignment s %= args through the checker",
    "C18.layering": "; wave 3: + error-code options: 4 config files x 4 command-line -e/-d settings x 5 module paths x 2 codes (override, disable_all), extend_config cycles through 2 and 3 files",
    "C20.reference_denotation": "; wave 3: + 4 bodies whose `and` tests the same parameter twice, is_of_type against a union type (Literal['r', 'w']) with an Any argument under exclude_any True / False",
    "C19.literal_operations": "; wave 3: + the names the mock module adds (count, called, call_count, reset_mock) on classes whose attributes are all known (int, float, bytes, an Enum class); S: the unary operator table",
    "C01.instrumented_execution": "; wave 3: + the 6 narrowing programs of C02.narrowing_programs",
}
for _bc in REG.bounded_checks:
    if _bc["name"] in _EXTRA:
        _bc["bound"] += _EXTRA[_bc["name"]]
assert not set(_EXTRA) - {b["name"] for b in REG.bounded_checks}, set(_EXTRA) - {b["name"] for b in REG.bounded_checks}

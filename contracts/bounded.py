"""Bounded native stand-ins (labelled bounded, never counted as proved) for functions the contracts do not reach.
Each runs a property's own statement with the REAL functions over an enumerated universe (replay/r_*.py)."""
from pyvc.dsl import REG

REG.bounded_check("C03.literal_membership", ["C03"], "C03.bounded",
                  covers=["pyanalyze.runtime.is_assignable", "GenericValue.can_assign", "SequenceValue.can_assign", "TypedDictValue.can_assign (literal dict branch)",
                          "SubclassValue.can_assign", "NewTypeValue.can_assign", "replace_known_sequence_value", "annotations.type_from_runtime"],
                  bound="33 objects x 43 static types (depth <= 2): is_assignable(o, T) == member(o, T) for a reference membership function")
REG.bounded_check("C04.type_pairs", ["C04"], "C04.bounded",
                  covers=["GenericValue.can_assign", "SequenceValue.can_assign", "TypedDictValue.can_assign", "SubclassValue.can_assign", "TypeObject.can_assign (via type_from_runtime values)"],
                  bound="43 x 43 static types against 33 objects (accepted => membership inclusion), reflexivity / Never / object on 43 types, union laws on 14^3 triples; documented leniencies and known findings D23/D24 skipped")
REG.bounded_check("C14.union_and_substitution_laws", ["C14"], "C14.bounded",
                  covers=["annotate_value", "substitute_typevars of every Value class", "MultiValuedValue.__eq__", "Value.is_assignable on united operands", "member order of unite_values (C10)"],
                  bound="18 values: all pairs (idempotence, Never identity, members, commutativity, operand acceptance, first-occurrence order), triples over 12 (associativity); substitution: identity on 23 closed values x 3 maps, full replacement on 10 open values, commutation with uniting on 36 pairs")

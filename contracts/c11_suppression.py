"""C11 — suppression and enabling are a projection (pyanalyze/node_visitor.py); C16 one-step lemmas; C12 output shape."""
from pyvc.dsl import REG, contract

REG.fieldspec(used_ignores="set[int]", seen_errors="set", all_failures="seq", CONTEXT_LINES="int",
              lineno="int", col_offset="int", add_ignores="bool", fail_after_first="bool", had_failure="bool",
              linenos_to_delete="seq[int]")
for q, r in [("re.search", "val"), ("re.escape", "str"), ("re.match", "val"), ("os.path.abspath", "str")]:
    REG.pure_external(q, r)

P = ["C11"]

OWN_LINE = ("(line.strip() == ignore_comment or (error_code is not None and line.strip() == f'{ignore_comment}[{error_code.name}]'))")


def _lines_contract(c):
    c.returns("seq[str]")
    c.functional = True
    c.assume("BaseNodeVisitor._lines() is the cached list of the file's lines (str.splitlines: external); same list on every call")


contract("pyanalyze.node_visitor.BaseNodeVisitor._lines", props=P + ["C16", "C12"], kind="assumed")(_lines_contract)


@contract("pyanalyze.node_visitor.BaseNodeVisitor.is_enabled", props=P)
def _(c):
    c.fieldspec("settings", "opt[dict[val,bool]]")
    c.returns("bool")
    c.ensures("result == (self.settings is None or (error_code not in self.settings) or self.settings[error_code])", name="settings_lookup_default_true")


def file_ign(k):
    return (f"(self._lines()[{k}].strip() == ignore_comment or (error_code is not None and "
            f"self._lines()[{k}].strip() == f'{{ignore_comment}}[{{error_code.name}}]'))")


@contract("pyanalyze.node_visitor.BaseNodeVisitor.has_file_level_ignore", props=P)
def _(c):
    c.param("ignore_comment", "str")
    c.returns("bool")
    c.functional = True
    c.modifies("self.used_ignores")
    c.assume("@cached_per_instance dropped: the body is verified as executed on the first call for each argument pair")
    c.loop(0, invariant=[
        ("leading_comments", f"all(self._lines()[j].startswith('#') and not {file_ign('j')} for j in range(_k0))"),
        ("frame", "forall(lambda x: (x in self.used_ignores) == (x in old(self.used_ignores)))"),
    ])
    first = (f"exists(lambda k: 0 <= k and k < len(self._lines()) and self._lines()[k].startswith('#') and {file_ign('k')}"
             f" and all(self._lines()[j].startswith('#') and not {file_ign('j')} for j in range(k))"
             " and forall(lambda x: (x in self.used_ignores) == (x in old(self.used_ignores) or x == k)))")
    c.ensures(f"implies(result, {first})", name="leading_ignore_found_and_marked_used")
    c.ensures(f"implies(not result, not exists(lambda k: 0 <= k and k < len(self._lines()) and {file_ign('k')}"
              " and all(self._lines()[j].startswith('#') for j in range(k + 1))))", name="no_leading_ignore")
    c.ensures("implies(not result, forall(lambda x: (x in self.used_ignores) == (x in old(self.used_ignores))))", name="frame_when_false")


@contract("pyanalyze.node_visitor.BaseNodeVisitor.get_unused_ignores", props=P)
def _(c):
    c.returns("seq")
    c.ensures("forall(lambda i: implies(0 <= i and i < len(self._lines()),"
              " exists(lambda j: 0 <= j and j < len(result) and pair_first(result[j]) == i) =="
              " ((IGNORE_COMMENT in self._lines()[i]) and (i not in self.used_ignores))))", name="exactly_the_unused_ignore_lines")


# ---------------------------------------------------------------------------
# show_error: the decision, the bookkeeping of used ignores, the duplicate filter

def _pure_bool(c):
    c.param("self", "val"); c.param("error_code", "val")
    c.returns("bool")
    c.functional = True
    c.assume("is_enabled (dynamically dispatched; NameCheckVisitor consults Options) is a pure function of (visitor, code) during one show_error call")


@contract("pyanalyze.analysis_lib.get_indentation", props=["C16"])
def _(c):
    c.param("line", "str")
    c.returns("int")
    c.functional = True
    c.ensures("result >= 0", name="nonnegative")
    c.assume("string model axiom (theory/strings.py): str.lstrip never lengthens a string")


@contract("method:get_description_for_error_code", props=P, kind="assumed")
def _(c):
    c.param("self", "val"); c.param("error_code", "val")
    c.returns("str")


BARE = "re.search(f'{re.escape(ignore_comment)}(?!\\\\[)', LINE)"
CODED = "(error_code is not None and f'{ignore_comment}[{error_code.name}]' in LINE)"
OWN = "(LINE.strip() == ignore_comment or (error_code is not None and LINE.strip() == f'{ignore_comment}[{error_code.name}]'))"


def this_line_ign(n):
    ln = f"self._lines()[{n} - 1]"
    return f"(truthy({BARE.replace('LINE', ln)}) or {CODED.replace('LINE', ln)})"


def prev_line_ign(n):
    ln = f"self._lines()[{n} - 2]"
    return f"({n} >= 2 and {OWN.replace('LINE', ln)})"


@contract("pyanalyze.node_visitor.BaseNodeVisitor.show_error", props=P + ["C12", "C16"])
def _(c):
    c.param("e", "opt[str]")
    c.param("obey_ignore", "bool")
    c.param("ignore_comment", "str")
    c.param("save", "bool")
    c.fieldspec("name", "str")
    c.fieldspec("filename", "str")
    c.fieldspec("caught_errors", "val")
    c.returns("val")
    c.callee("self.is_enabled", _pure_bool)
    c.unmodelled += ["self._changes_for_fixer", "self.caught_errors"]
    c.modifies("self.used_ignores", "self.seen_errors", "self.all_failures", "self.had_failure")
    c.raises("VisitorError", when="self.fail_after_first")
    c.raises("AssertionError", when="e is None and error_code is None")
    c.let("has_pos", "truthy(node) and hasattr(node, 'lineno') and hasattr(node, 'col_offset')")
    c.let("n", "node.lineno")
    c.let("key", "(node, error_code or e)")
    c.requires("implies(has_pos, 1 <= node.lineno and node.lineno <= len(self._lines()))", name="line_in_file")
    c.requires("implies(has_pos, node.col_offset >= 0)", name="col_nonneg")
    c.requires("self.CONTEXT_LINES >= 0")
    c.assume("callers pass nodes whose lineno lies inside the file being checked (1..len(lines)); checked as a precondition, not proved for the visitor")
    suppressed = f"(obey_ignore and has_pos and ({this_line_ign('n')} or {prev_line_ign('n')}))"
    shown = (f"((error_code is None or self.is_enabled(error_code))"
             f" and not old(self).has_file_level_ignore(error_code, ignore_comment)"
             f" and not (key in old(self.seen_errors))"
             f" and not {suppressed})")
    c.ensures(f"(result is not None) == {shown}", name="emitted_iff_enabled_unsuppressed_unseen")
    c.ensures("implies(error_code is not None and not self.is_enabled(error_code),"
              " forall(lambda x: (x in self.seen_errors) == (x in old(self.seen_errors)), 'val'))", name="disabled_code_does_not_consume_duplicate_filter")
    c.ensures(f"implies(result is None and (error_code is None or self.is_enabled(error_code)) and not old(self).has_file_level_ignore(error_code, ignore_comment)"
              f" and not (key in old(self.seen_errors)) and obey_ignore and has_pos and {this_line_ign('n')},"
              " (n - 1) in self.used_ignores)", name="trailing_ignore_marked_used")
    c.ensures(f"implies(result is None and (error_code is None or self.is_enabled(error_code)) and not old(self).has_file_level_ignore(error_code, ignore_comment)"
              f" and not (key in old(self.seen_errors)) and obey_ignore and has_pos and not {this_line_ign('n')} and {prev_line_ign('n')},"
              " (n - 2) in self.used_ignores)", name="own_line_ignore_marked_used")
    # C12: a produced failure is well formed
    c.ensures("implies(result is not None and has_pos, result['lineno'] == n and 1 <= n and n <= len(self._lines()) and result['col_offset'] == node.col_offset)", name="failure_location_in_file")
    c.ensures("implies(result is not None, 'description' in result and 'message' in result)", name="failure_has_text")
    c.ensures("implies(result is not None and error_code is not None, result['code'] is error_code)", name="failure_carries_code")


# C16: the replacement show_error proposes under add_ignores (hypothesis `own(c, code0)` of lemma add_ignores_step)
_TXT = "'self._changes_for_fixer[self.filename]'"
_c = REG.contracts["pyanalyze.node_visitor.BaseNodeVisitor.show_error"]
_c.fieldspec("lines_to_add", "seq[str]")
_c.ensures(f"implies(result is not None and has_pos and self._changes_for_fixer is not None and self.add_ignores,"
           f" len(appended({_TXT})) == 1 and len(appended({_TXT})[0].linenos_to_delete) == 1 and appended({_TXT})[0].linenos_to_delete[0] == n"
           f" and len(appended({_TXT})[0].lines_to_add) == 2 and same(appended({_TXT})[0].lines_to_add[1], self._lines()[n - 1])"
           f" and same(appended({_TXT})[0].lines_to_add[0], '{{}}{{}}\\n'.format(' ' * analysis_lib.get_indentation(self._lines()[n - 1]),"
           f" ite(error_code is not None, f'{{ignore_comment}}[{{error_code.name}}]', ignore_comment))))",
           name="proposed_ignore_line_is_own_line_form")
_c.ensures(f"implies(result is None or not has_pos or self._changes_for_fixer is None, len(appended({_TXT})) == 0)", name="no_fix_proposed_without_failure")


# catch_errors() mode: the two modes of show_error are separated here.  Every clause above describes the reporting mode
# (caught_errors is None); while errors are being caught, show_error records the error -- whatever its code, enabled or not,
# because callers use the record as a probe ("did this attempt fail?") -- and reports nothing.
for _cl in _c.ensures_:
    _cl.expr = f"implies(self.caught_errors is None, {_cl.expr})"
    _cl.tree = None
_c.ensures("implies(self.caught_errors is not None, result is None and len(appended('self.caught_errors')) == 1)", name="while_catching_every_error_is_recorded_whatever_its_code")
_c.ensures("implies(self.caught_errors is not None, forall(lambda x: (x in self.seen_errors) == (x in old(self.seen_errors)), 'val') and len(appended(" + _TXT + ")) == 0)",
           name="while_catching_nothing_is_reported_or_consumed")
_c.ensures("implies(self.caught_errors is None, len(appended('self.caught_errors')) == 0)", name="nothing_is_recorded_outside_catch_errors")


# ---------------------------------------------------------------------------
# NameCheckVisitor's override of is_enabled: the options look-up chain
# is_enabled -> Options.is_error_code_enabled -> Options._get_value_for_no_default -> ConfigOption.get_value_from_instances (all under contract, c18_options.py)

@contract("pyanalyze.name_check_visitor.NameCheckVisitor.is_enabled", props=P + ["C18"])
def _(c):
    c.param("error_code", "val")
    c.returns("val")
    c.callee("self.options.is_error_code_enabled", lambda k: (k.param("code", "val"), k.returns("val")))
    c.record_calls += ["self.options.is_error_code_enabled"]
    # (what is_enabled answers for objects that are not Error members is not part of C11: no option can name them)
    c.ensures("implies(isa(error_code, Error), len(appended('self.options.is_error_code_enabled')) == 1 and same(call_args('self.options.is_error_code_enabled', 0)[0], error_code)"
              " and same(result, call_result('self.options.is_error_code_enabled', 0)))", name="an_error_code_is_enabled_exactly_as_the_options_of_this_module_say")

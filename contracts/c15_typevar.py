"""C15 — type-variable solutions satisfy the bounds they were solved from (pyanalyze/typevar.py)."""
from pyvc.dsl import REG, contract

REG.fieldspec(constraints="seq", children="seq", vals="seq")
if "pyanalyze.safe" not in REG.modules:
    REG.modules.append("pyanalyze.safe")

P = ["C15"]


@contract("pyanalyze.safe.all_of_type", props=P + ["C14"])
def _(c):
    c.param("elts", "seq")
    c.returns("bool")
    c.ensures("result == all(isinst(x, typ) for x in elts)", name="all_instances")


@contract("pyanalyze.typevar.remove_redundant_solutions", props=P)
def _(c):
    c.param("solutions", "seq")
    c.returns("seq")
    c.loop(0, invariant="len(temp_solutions) == len(solutions) and all(temp_solutions[j] is None or temp_solutions[j] is solutions[j] for j in range(len(solutions)))", name="only_erases")
    c.loop(1, invariant="len(temp_solutions) == len(solutions) and all(temp_solutions[j] is None or temp_solutions[j] is solutions[j] for j in range(len(solutions)))", name="only_erases")
    c.ensures("all(exists(lambda j: 0 <= j and j < len(solutions) and same(r, solutions[j])) for r in result)", name="subsequence")


@contract("pyanalyze.typevar.solve", props=P)
def _(c):
    c.param("bounds", "seq[obj:Bound]")
    c.returns("val")
    c.requires("all(implies(isa(b, (LowerBound, UpperBound)), static(b.value)) for b in bounds)", name="static_bounds")
    c.requires("all(typeis(b, (LowerBound, UpperBound, OrBound, IsOneOf)) for b in bounds)", name="known_bound_kinds")
    c.requires("all(implies(isa(b, IsOneOf), all(static(o) for o in b.constraints)) for b in bounds)", name="static_constraints")
    c.assume("bounds range over static values (the property's quantifier); the four Bound classes are not subclassed (closed world for Bound)")
    chain = ("all(implies(isa(bounds[i], UpperBound) and isa(bounds[j], UpperBound),"
             " bounds[i].value.is_assignable(bounds[j].value, ctx) or bounds[j].value.is_assignable(bounds[i].value, ctx))"
             " for i in range(len(bounds)) for j in range(len(bounds)))")
    c.let("chain", "forall(lambda i, j: implies(0 <= i and i < len(bounds) and 0 <= j and j < len(bounds) and isa(bounds[i], UpperBound) and isa(bounds[j], UpperBound),"
                   " bounds[i].value.is_assignable(bounds[j].value, ctx) or bounds[j].value.is_assignable(bounds[i].value, ctx)))")
    inv = [
        ("bottom_static", "bottom is BOTTOM or static(bottom)"),
        ("top_static", "top is TOP or static(top)"),
        ("lower_accepted", "all(implies(isa(bounds[j], LowerBound), bottom is not BOTTOM and subset(bounds[j].value, bottom)) for j in range(_k0))"),
        ("bottom_is_lub", "bottom is BOTTOM or forall(lambda o: implies(mem(o, bottom), exists(lambda j: 0 <= j and j < _k0 and isa(bounds[j], LowerBound) and mem(o, bounds[j].value))), 'obj')"),
        ("upper_seen", "all(implies(isa(bounds[j], UpperBound), top is not TOP) for j in range(_k0))"),
        ("top_is_an_upper", "implies(chain, top is TOP or exists(lambda j: 0 <= j and j < _k0 and isa(bounds[j], UpperBound) and top is bounds[j].value))"),
        ("upper_accepts_chain", "implies(chain, all(implies(isa(bounds[j], UpperBound), subset(top, bounds[j].value)) for j in range(_k0)))"),
        ("options_from_bound", "options is None or exists(lambda j: 0 <= j and j < _k0 and isa(bounds[j], IsOneOf) and options is bounds[j].constraints)"),
        ("options_set", "all(implies(isa(bounds[j], IsOneOf), options is not None) for j in range(_k0))"),
    ]
    c.loop(0, invariant=inv)
    c.ensures("implies(not is_error(result), all(implies(isa(b, LowerBound), subset(b.value, result)) for b in bounds))", name="accepts_every_lower_bound")
    c.ensures("implies(not is_error(result) and not is_any(result) and chain and not any(isa(b, IsOneOf) for b in bounds),"
              " all(implies(isa(b, UpperBound), subset(result, b.value)) for b in bounds))", name="accepted_by_every_upper_bound.comparable")
    c.ensures("implies(not is_error(result) and not is_any(result) and not any(isa(b, IsOneOf) for b in bounds),"
              " all(implies(isa(b, UpperBound), subset(result, b.value)) for b in bounds))", name="accepted_by_every_upper_bound.any")
    c.ensures("implies(not is_error(result) and any(isa(b, IsOneOf) for b in bounds),"
              " is_any(result) or any(isa(b, IsOneOf) and contains(b.constraints, result) for b in bounds))", name="one_of_the_constraints")

"""C15 — type-variable solutions satisfy the bounds they were solved from (pyanalyze/typevar.py)."""
from pyvc.dsl import REG, contract

REG.fieldspec(constraints="seq", children="seq", vals="seq")
if "pyanalyze.safe" not in REG.modules:
    REG.modules.append("pyanalyze.safe")

P = ["C15"]


@contract("pyanalyze.safe.all_of_type", props=P + ["C14"])
def _(c):
    c.param("elts", "seq")
    c.returns("bool")
    c.ensures("result == all(isinst(x, typ) for x in elts)", name="all_instances")


@contract("pyanalyze.typevar.remove_redundant_solutions", props=P)
def _(c):
    c.param("solutions", "seq[obj:Value]")
    c.returns("seq")
    erases = "len(temp_solutions) == len(solutions) and all(temp_solutions[j] is None or temp_solutions[j] is solutions[j] for j in range(len(solutions)))"
    wider = "(solutions[{a}].is_assignable(solutions[{b}], ctx) and not solutions[{b}].is_assignable(solutions[{a}], ctx))"
    kept_ok = ("all(implies(temp_solutions[a] is not None, all(implies(b != a and temp_solutions[b] is not None, not " + wider.format(a="a", b="b") + ") for b in range(len(solutions))))"
               " for a in range({n}))")
    c.loop(0, invariant=[("only_erases", erases), ("kept_candidates_have_no_strictly_narrower_kept_candidate", kept_ok.format(n="_k0"))])
    c.loop(1, invariant=[("only_erases", erases), ("kept_candidates_have_no_strictly_narrower_kept_candidate", kept_ok.format(n="i")),
                         ("current_candidate_checked_so_far", "same(sol, solutions[i]) and 0 <= i and i < len(solutions) and implies(temp_solutions[i] is not None, all(implies(b != i and temp_solutions[b] is not None, not "
                          + wider.format(a="i", b="b") + ") for b in range(_k1)))")])
    c.ensures("all(exists(lambda j: 0 <= j and j < len(solutions) and same(r, solutions[j])) for r in result)", name="subsequence")
    c.ensures("implies(len(solutions) <= 10, all(all(implies(a != b and contains(result, solutions[a]) and contains(result, solutions[b]) and distinct(solutions), not " + wider.format(a="a", b="b")
              + ") for b in range(len(solutions))) for a in range(len(solutions))))", name="no_kept_candidate_strictly_contains_another_kept_candidate")
    c.assume("is_assignable is a pure function of its operands during the call (functional dispatch symbol); with more than 10 candidates the list is returned unchanged")


@contract("pyanalyze.typevar.solve", props=P)
def _(c):
    c.param("bounds", "seq[obj:Bound]")
    c.returns("val")
    c.requires("all(implies(isa(b, (LowerBound, UpperBound)), static(b.value)) for b in bounds)", name="static_bounds")
    c.requires("all(typeis(b, (LowerBound, UpperBound, OrBound, IsOneOf)) for b in bounds)", name="known_bound_kinds")
    c.requires("all(implies(isa(b, IsOneOf), all(static(o) for o in b.constraints)) for b in bounds)", name="static_constraints")
    c.assume("bounds range over static values (the property's quantifier); the four Bound classes are not subclassed (closed world for Bound)")
    chain = ("all(implies(isa(bounds[i], UpperBound) and isa(bounds[j], UpperBound),"
             " bounds[i].value.is_assignable(bounds[j].value, ctx) or bounds[j].value.is_assignable(bounds[i].value, ctx))"
             " for i in range(len(bounds)) for j in range(len(bounds)))")
    c.let("chain", "forall(lambda i, j: implies(0 <= i and i < len(bounds) and 0 <= j and j < len(bounds) and isa(bounds[i], UpperBound) and isa(bounds[j], UpperBound),"
                   " bounds[i].value.is_assignable(bounds[j].value, ctx) or bounds[j].value.is_assignable(bounds[i].value, ctx)))")
    inv = [
        ("bottom_static", "bottom is BOTTOM or static(bottom)"),
        ("top_static", "top is TOP or static(top)"),
        ("lower_accepted", "all(implies(isa(bounds[j], LowerBound), bottom is not BOTTOM and subset(bounds[j].value, bottom)) for j in range(_k0))"),
        ("bottom_is_lub", "bottom is BOTTOM or forall(lambda o: implies(mem(o, bottom), exists(lambda j: 0 <= j and j < _k0 and isa(bounds[j], LowerBound) and mem(o, bounds[j].value))), 'obj')"),
        ("upper_seen", "all(implies(isa(bounds[j], UpperBound), top is not TOP) for j in range(_k0))"),
        ("top_is_an_upper", "implies(chain, top is TOP or exists(lambda j: 0 <= j and j < _k0 and isa(bounds[j], UpperBound) and top is bounds[j].value))"),
        ("upper_accepts_chain", "implies(chain, all(implies(isa(bounds[j], UpperBound), subset(top, bounds[j].value)) for j in range(_k0)))"),
        ("options_from_bound", "options is None or exists(lambda j: 0 <= j and j < _k0 and isa(bounds[j], IsOneOf) and options is bounds[j].constraints)"),
        ("options_set", "all(implies(isa(bounds[j], IsOneOf), options is not None) for j in range(_k0))"),
    ]
    c.loop(0, invariant=inv)
    c.ensures("implies(not is_error(result), all(implies(isa(b, LowerBound), subset(b.value, result)) for b in bounds))", name="accepts_every_lower_bound")
    c.ensures("implies(not is_error(result) and not is_any(result) and chain and not any(isa(b, IsOneOf) for b in bounds),"
              " all(implies(isa(b, UpperBound), subset(result, b.value)) for b in bounds))", name="accepted_by_every_upper_bound.comparable")
    c.ensures("implies(not is_error(result) and not is_any(result) and not any(isa(b, IsOneOf) for b in bounds),"
              " all(implies(isa(b, UpperBound), subset(result, b.value)) for b in bounds))", name="accepted_by_every_upper_bound.any")
    c.ensures("implies(not is_error(result) and any(isa(b, IsOneOf) for b in bounds),"
              " is_any(result) or any(isa(b, IsOneOf) and contains(b.constraints, result) for b in bounds))", name="one_of_the_constraints")

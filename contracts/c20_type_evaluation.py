"""C20 — type evaluation functions follow docs/type_evaluation.md (pyanalyze/type_evaluation.py)."""
from pyvc.dsl import REG, contract

REG.fieldspec(left_varmap="val", right_varmap="val", positions="dict[str,val]", keywords="seq", args="seq", id="str", children="seq")
P = ["C20"]


@contract("pyanalyze.type_evaluation.ConditionReturn.reverse", props=P)
def _(c):
    c.returns("obj:ConditionReturn")
    c.ensures("result.left_varmap is self.right_varmap and result.right_varmap is self.left_varmap", name="not_swaps_the_two_variable_maps")


@contract("pyanalyze.type_evaluation.can_assign_maybe_exclude_any", props=P)
def _(c):
    c.param("exclude_any", "bool")
    c.returns("val")
    c.functional = True
    c.transparent_with += ["ctx.set_exclude_any"]
    c.ensures("same(result, left.can_assign(right, ctx))", name="is_can_assign_under_the_flag")
    c.assume("`with ctx.set_exclude_any()` only toggles the flag read by should_exclude_any(); the flag dependence of can_assign is not modelled (the functional symbol ignores it)")


@contract("pyanalyze.type_evaluation.decompose_union", props=P)
def _(c):
    c.param("exclude_any", "bool")
    c.returns("val")
    c.callee("unite_values", lambda k: (k.param("*values", "tuple"), k.returns("val"), setattr(k, "functional", True), setattr(k, "fn_name", "unite_values")))
    c.raises("AssertionError", when="isa(unannotate(parent_value), MultiValuedValue) and all(not is_error(can_assign_maybe_exclude_any(expected_type, m, ctx, exclude_any)) for m in unannotate(parent_value).vals)"
                                    " and len(unannotate(parent_value).vals) > 0")
    rem = "[m for m in unannotate(parent_value).vals if is_error(can_assign_maybe_exclude_any(expected_type, m, ctx, exclude_any))]"
    c.loop(0, invariant=[("partition", "len(remaining_values) + len(bounds_maps) == _k0"
                                       " and all(is_error(can_assign_maybe_exclude_any(expected_type, r, ctx, exclude_any)) and exists(lambda j: 0 <= j and j < _k0 and same(r, value.vals[j])) for r in remaining_values)"
                                       " and all(implies(is_error(can_assign_maybe_exclude_any(expected_type, value.vals[j], ctx, exclude_any)), exists(lambda t: 0 <= t and t < len(remaining_values) and same(remaining_values[t], value.vals[j]))) for j in range(_k0))"
                                       " and (len(bounds_maps) > 0) == any(not is_error(can_assign_maybe_exclude_any(expected_type, value.vals[j], ctx, exclude_any)) for j in range(_k0))")])
    c.ensures("(result is None) == (not isa(unannotate(parent_value), MultiValuedValue) or all(is_error(can_assign_maybe_exclude_any(expected_type, m, ctx, exclude_any)) for m in unannotate(parent_value).vals))",
              name="none_iff_not_a_union_or_no_member_matches")
    c.ensures("implies(result is not None, exists(lambda R: len(R) > 0 and all(is_error(can_assign_maybe_exclude_any(expected_type, r, ctx, exclude_any))"
              " and exists(lambda j: 0 <= j and j < len(unannotate(parent_value).vals) and same(r, unannotate(parent_value).vals[j])) for r in R)"
              " and all(implies(is_error(can_assign_maybe_exclude_any(expected_type, m, ctx, exclude_any)), exists(lambda t: 0 <= t and t < len(R) and same(R[t], m))) for m in unannotate(parent_value).vals)"
              " and same(result[1], unite_values(*R)), 'seq'))", name="remaining_is_the_union_of_exactly_the_rejected_members")


@contract("pyanalyze.type_evaluation.ConditionEvaluator.visit_Call", props=P)
def _(c):
    c.returns("val")
    c.fieldspec("func", "val")
    c.fieldspec("ctx", "val")
    c.callee("self.return_invalid", lambda k: (k.param("self", "val"), k.param("message", "val"), k.param("node", "val"), k.returns("obj:ConditionReturn"),
                                                k.ensures("result.left_varmap is None and result.right_varmap is None")))
    c.callee("self.visit_is_of_type", lambda k: (k.param("self", "val"), k.param("varname_node", "val"), k.param("typ", "val"), k.param("op", "val"), k.param("exclude_any", "bool"), k.returns("val")))
    c.callee("self.evaluator.evaluate_generic_type", lambda k: (k.param("a", "val"), k.param("b", "val"), k.returns("val")))
    c.loop(0, invariant="True")
    kind_call = ("(isinstance(node.func, ast.Name) and len(node.keywords) == 0 and len(node.args) == 1 and isinstance(node.args[0], ast.Name)"
                 " and node.args[0].id in self.ctx.positions)")
    pos = "self.ctx.positions[node.args[0].id]"
    # docs/type_evaluation.md: is_provided <=> kind is POSITIONAL or KEYWORD; is_positional <=> POSITIONAL; is_keyword <=> KEYWORD
    # positions: int / ARGS = positional, str / KWARGS = keyword, DEFAULT, UNKNOWN
    c.ensures(f"implies({kind_call} and node.func.id == 'is_provided', (result.left_varmap is not None) == ({pos} is not DEFAULT and {pos} is not UNKNOWN)"
              " and (result.right_varmap is not None) == (result.left_varmap is None))", name="is_provided_iff_not_default_and_not_unknown")
    c.ensures(f"implies({kind_call} and node.func.id == 'is_positional', (result.left_varmap is not None) == ({pos} is ARGS or isinstance({pos}, int))"
              " and (result.right_varmap is not None) == (result.left_varmap is None))", name="is_positional_iff_positional_or_star_args")
    c.ensures(f"implies({kind_call} and node.func.id == 'is_keyword', (result.left_varmap is not None) == ({pos} is KWARGS or isinstance({pos}, str))"
              " and (result.right_varmap is not None) == (result.left_varmap is None))", name="is_keyword_iff_keyword_or_star_kwargs")
    c.ensures(f"implies({kind_call} and node.func.id in ('is_provided', 'is_positional', 'is_keyword') and result.left_varmap is not None, not truthy(result.left_varmap))",
              name="argument_kind_tests_do_not_narrow")


@contract("pyanalyze.type_evaluation.EvaluateVisitor.visit_If", props=P)
def _(c):
    c.returns("val")
    c.fieldspec("validation_mode", "bool")
    c.fieldspec("errors", "val")
    c.unmodelled += ["self.errors"]
    c.record_calls += ["self.visit_block", "self.add_invalid", "visitor.visit"]
    c.transparent_with += ["self.ctx.narrow_variables", "self.add_active_condition"]
    c.callee("ConditionEvaluator", lambda k: (k.param("a", "val"), k.param("b", "val"), k.param("c", "val"), k.returns("val")))
    c.callee("CombinedReturn.make", lambda k: (k.param("*returns", "tuple"), k.returns("val"), setattr(k, "functional", True), setattr(k, "fn_name", "CombinedReturn.make")))
    c.let("cond", "call_result('visitor.visit', 0)")
    c.assume("`self.errors += visitor.errors` and the narrow_variables / add_active_condition context managers are outside the modelled state: what is proved is WHICH blocks are evaluated and how their results combine")
    L = "(field(call_result('visitor.visit', 0), 'left_varmap') is not None)"
    R = "(field(call_result('visitor.visit', 0), 'right_varmap') is not None)"
    n = "len(appended('self.visit_block'))"
    c.ensures(f"implies(not self.validation_mode, {n} == ite({L}, 1, 0) + ite({R}, 1, 0))", name="a_branch_is_evaluated_iff_its_variable_map_exists")
    c.ensures(f"implies(not self.validation_mode and {L}, same(call_args('self.visit_block', 0)[0], node.body))", name="the_body_is_evaluated_when_the_condition_may_match")
    c.ensures(f"implies(not self.validation_mode and {R}, same(call_args('self.visit_block', ite({L}, 1, 0))[0], node.orelse))", name="the_else_branch_is_evaluated_when_the_condition_may_fail")
    c.ensures(f"implies(not self.validation_mode and {L} and not {R}, same(result, call_result('self.visit_block', 0)))", name="definite_match_gives_the_body_result")
    c.ensures(f"implies(not self.validation_mode and not {L} and {R}, same(result, call_result('self.visit_block', 0)))", name="definite_mismatch_gives_the_else_result")
    c.ensures(f"implies(not self.validation_mode and {L} and {R}, same(result, CombinedReturn.make(call_result('self.visit_block', 0), call_result('self.visit_block', 1))))",
              name="undetermined_condition_combines_both_results")
    c.ensures(f"implies(not self.validation_mode and not {L} and not {R}, result is None and len(appended('self.add_invalid')) == 1)", name="a_condition_must_match_or_not_match")


@contract("pyanalyze.type_evaluation.EvaluateVisitor.visit_block", props=P)
def _(c):
    c.param("statements", "seq")
    c.returns("val")
    c.record_calls += ["self.visit"]
    c.callee("CombinedReturn.make", lambda k: (k.param("*returns", "tuple"), k.returns("val"), setattr(k, "functional", True), setattr(k, "fn_name", "CombinedReturn.make")))
    definite = "(isa(call_result('self.visit', j), Value) or (call_result('self.visit', j) is not None and all(ch is not None for ch in call_result('self.visit', j).children)))"
    c.loop(0, invariant=[("one_visit_per_statement_so_far", "len(appended('self.visit')) == _k0 and all(same(call_args('self.visit', j)[0], statements[j]) for j in range(_k0))"),
                         ("no_definite_return_so_far", f"all(not {definite} for j in range(_k0))"),
                         ("only_partial_returns_collected", "implies(all(call_result('self.visit', j) is None for j in range(_k0)), len(possible_returns) == 0)")])
    c.ensures(f"exists(lambda k: 0 <= k and k <= len(statements) and len(appended('self.visit')) == ite(k < len(statements), k + 1, k)"
              f" and all(not {definite} for j in range(k)) and implies(k < len(statements), {definite.replace('j)', 'k)')}))",
              name="statements_after_the_first_definite_return_are_not_evaluated")
    c.ensures("implies(all(call_result('self.visit', j) is None for j in range(len(appended('self.visit')))), same(result, CombinedReturn.make(None)))", name="no_return_at_all_falls_through")
    c.ensures("implies(len(appended('self.visit')) > 0 and isa(call_result('self.visit', len(appended('self.visit')) - 1), Value)"
              " and all(call_result('self.visit', j) is None for j in range(len(appended('self.visit')) - 1)),"
              " same(result, CombinedReturn.make(call_result('self.visit', len(appended('self.visit')) - 1))))", name="first_definite_return_is_the_result")


@contract("pyanalyze.type_evaluation.unite_varmaps", props=P)
def _(c):
    c.param("varmaps", "seq[dict[val,val]]")
    c.returns("opt[dict[val,val]]")
    c.requires("all(all(wf_union(m[k]) and implies(isa(m[k], AnnotatedValue), wf_union(m[k].value)) and not _is_unreachable(m[k])"
               " and implies(isa(m[k], MultiValuedValue), all(not _is_unreachable(x) for x in m[k].vals))"
               " and implies(isa(m[k], AnnotatedValue) and isa(m[k].value, MultiValuedValue), all(not _is_unreachable(x) for x in m[k].value.vals)) for k in m) for m in varmaps)",
               name="narrowed_types_are_well_formed_values")
    c.ensures("implies(len(varmaps) == 0, result is None)", name="no_operand_no_narrowing")
    # the other branch of an `and` / `or` is reached when SOME operand failed: a variable may be narrowed there only if
    # every operand narrows it, and then to the union of the operands' narrowed types
    c.ensures("implies(len(varmaps) > 0, result is not None and forall(lambda k: (k in result) == all(k in m for m in varmaps), 'val'))", name="narrowed_variables_are_those_every_operand_narrows")
    c.ensures("implies(len(varmaps) > 0, all(forall(lambda o: mem(o, result[k]) == exists(lambda j: 0 <= j and j < len(varmaps) and mem(o, varmaps[j][k]), 'int'), 'obj') for k in result))",
              name="narrowed_to_the_union_of_the_operands_types")

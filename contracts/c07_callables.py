"""C07 — callable compatibility: the helpers by which an expected parameter is absorbed by the other signature's
*args / **kwargs (signature.can_assign_var_positional / can_assign_var_keyword).  Signature.can_assign itself (the
280-line case analysis) is covered only by the bounded stand-in (replay/r_c07.py)."""
from pyvc.dsl import REG, contract

P = ["C07"]


@contract("pyanalyze.signature.can_assign_var_positional", props=P)
def _(c):
    c.param("my_param", "obj:SigParameter")
    c.param("args_annotation", "obj:Value")
    c.param("idx", "int")
    c.returns("val")
    c.callee("my_param.get_annotation", lambda k: (k.param("self", "val"), k.returns("obj:Value"), setattr(k, "functional", True), setattr(k, "fn_name", "SigParameter.get_annotation")))
    c.callee("is_iterable", lambda k: (k.param("v", "val"), k.param("ctx", "val"), k.returns("val"), setattr(k, "functional", True), setattr(k, "fn_name", "is_iterable")))
    c.requires("idx >= 0")
    M = "args_annotation.get_member_sequence()"
    fixed = f"(isa(args_annotation, SequenceValue) and {M} is not None)"
    A = "my_param.get_annotation()"
    # contravariance: the type the other signature's *args accepts at this position must accept the expected parameter's type
    c.ensures(f"implies({fixed}, is_error(result) == (idx >= len({M}) or is_error({M}[idx].can_assign({A}, ctx))))",
              name="fixed_length_star_args.the_position_exists_and_its_type_accepts_the_expected_parameter")
    c.ensures(f"implies(not {fixed}, is_error(result) == (is_error(is_iterable(args_annotation, ctx)) or is_error(is_iterable(args_annotation, ctx).can_assign({A}, ctx))))",
              name="variadic_star_args.the_element_type_accepts_the_expected_parameter")
    c.assume("is_iterable(v, ctx) is the element type of v or a CanAssignError (implementation.is_iterable, not under contract)")


@contract("pyanalyze.signature.can_assign_var_keyword", props=P)
def _(c):
    c.param("my_param", "obj:SigParameter")
    c.param("kwargs_annotation", "obj:Value")
    c.returns("val")
    c.fieldspec("items", "dict[str,val]")
    c.fieldspec("typ", "val")
    c.fieldspec("name", "str")
    c.callee("my_param.get_annotation", lambda k: (k.param("self", "val"), k.returns("obj:Value"), setattr(k, "functional", True), setattr(k, "fn_name", "SigParameter.get_annotation")))
    c.callee("get_tv_map", lambda k: (k.param("a", "val"), k.param("b", "val"), k.param("ctx", "val"), k.returns("val"), setattr(k, "functional", True), setattr(k, "fn_name", "get_tv_map")))
    c.callee("mapping_tv_map.get", lambda k: (k.param("self", "val"), k.param("key", "val"), k.param("default", "val"), k.returns("obj:Value"), setattr(k, "functional", True), setattr(k, "fn_name", "tv_map_get")))
    A = "my_param.get_annotation()"
    td = "isa(kwargs_annotation, TypedDictValue)"
    c.ensures(f"implies({td}, is_error(result) == (my_param.name not in kwargs_annotation.items or is_error(kwargs_annotation.items[my_param.name].typ.can_assign({A}, ctx))))",
              name="typed_dict_kwargs.the_key_is_declared_and_its_type_accepts_the_expected_parameter")
    c.ensures(f"implies(not {td} and is_error(get_tv_map(MappingValue, kwargs_annotation, ctx)), is_error(result))", name="non_mapping_kwargs_rejected")
    c.assume("get_tv_map(MappingValue, v, ctx) yields the key / value type arguments of a mapping type or a CanAssignError")

"""C05 — argument binding.  Signature.validate establishes the parameter-order invariant that bind_arguments relies on
(kinds in CPython's order, defaults only where CPython allows them, no required positional parameter after a defaulted
one).  bind_arguments itself (a 340-line state machine) is covered only by the bounded stand-in (replay/r_c05.py)."""
from pyvc.dsl import REG, contract

P = ["C05"]


@contract("pyanalyze.signature.Signature.validate", props=P)
def _(c):
    c.fieldspec("parameters", "dict[str,obj:SigParameter]")
    c.fieldspec("kind", "val")
    c.fieldspec("default", "val")
    c.fieldspec("name", "str")
    c.returns("val")
    c.raises("InvalidSignature")
    c.let("ps", "list(self.parameters.values())")
    c.let("ks", "list(self.parameters)")
    c.requires("all(self.parameters[k].kind in KIND_TO_ALLOWED_PREVIOUS for k in self.parameters)", name="type_invariant.kind_is_a_ParameterKind_member")
    PO, POK = "ParameterKind.POSITIONAL_ONLY", "ParameterKind.POSITIONAL_OR_KEYWORD"
    order = "all(all(implies(i < j, ps[i].kind in KIND_TO_ALLOWED_PREVIOUS[ps[j].kind]) for i in range({n})) for j in range({n}))"
    names = "all(ks[j] == ps[j].name for j in range({n}))"
    dflt = "all(implies(ps[j].default is not None, ps[j].kind in CAN_HAVE_DEFAULT) for j in range({n}))"
    req = ("all(all(implies(i < j and ps[i].default is not None and ps[j].default is None,"
           f" not (ps[j].kind is {PO} and ps[i].kind is {PO}) and not (ps[j].kind is {POK} and (ps[i].kind is {PO} or ps[i].kind is {POK})))"
           " for i in range({n})) for j in range({n}))")
    c.loop(0, invariant=[
        ("seen_kinds", "forall(lambda x: (x in seen_kinds) == exists(lambda t: 0 <= t and t < _k0 and ps[t].kind is x, 'int'), 'val')"),
        ("seen_with_default", "forall(lambda x: (x in seen_with_default) == exists(lambda t: 0 <= t and t < _k0 and ps[t].default is not None and ps[t].kind is x, 'int'), 'val')"),
        ("order", order.format(n="_k0")), ("names", names.format(n="_k0")), ("defaults", dflt.format(n="_k0")), ("required_first", req.format(n="_k0")),
    ])
    c.ensures(order.format(n="len(ps)"), name="kinds_appear_in_cpythons_order")
    c.ensures(names.format(n="len(ps)"), name="keys_are_the_parameter_names")
    c.ensures(dflt.format(n="len(ps)"), name="defaults_only_where_cpython_allows_them")
    c.ensures(req.format(n="len(ps)"), name="no_required_positional_parameter_after_a_defaulted_one")

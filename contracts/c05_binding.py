"""C05 — argument binding.  Signature.validate establishes the parameter-order invariant that bind_arguments relies on
(kinds in CPython's order, defaults only where CPython allows them, no required positional parameter after a defaulted
one).  bind_arguments itself (a 340-line state machine) is covered only by the bounded stand-in (replay/r_c05.py)."""
from pyvc.dsl import REG, contract

P = ["C05"]


@contract("pyanalyze.signature.Signature.validate", props=P)
def _(c):
    c.fieldspec("parameters", "dict[str,obj:SigParameter]")
    c.fieldspec("kind", "val")
    c.fieldspec("default", "val")
    c.fieldspec("name", "str")
    c.returns("val")
    c.raises("InvalidSignature")
    c.let("ps", "list(self.parameters.values())")
    c.let("ks", "list(self.parameters)")
    c.requires("all(self.parameters[k].kind in KIND_TO_ALLOWED_PREVIOUS for k in self.parameters)", name="type_invariant.kind_is_a_ParameterKind_member")
    PO, POK = "ParameterKind.POSITIONAL_ONLY", "ParameterKind.POSITIONAL_OR_KEYWORD"
    order = "all(all(implies(i < j, ps[i].kind in KIND_TO_ALLOWED_PREVIOUS[ps[j].kind]) for i in range({n})) for j in range({n}))"
    names = "all(ks[j] == ps[j].name for j in range({n}))"
    dflt = "all(implies(ps[j].default is not None, ps[j].kind in CAN_HAVE_DEFAULT) for j in range({n}))"
    req = ("all(all(implies(i < j and ps[i].default is not None and ps[j].default is None,"
           f" not (ps[j].kind is {PO} and ps[i].kind is {PO}) and not (ps[j].kind is {POK} and (ps[i].kind is {PO} or ps[i].kind is {POK})))"
           " for i in range({n})) for j in range({n}))")
    c.loop(0, invariant=[
        ("seen_kinds", "forall(lambda x: (x in seen_kinds) == exists(lambda t: 0 <= t and t < _k0 and ps[t].kind is x, 'int'), 'val')"),
        ("seen_with_default", "forall(lambda x: (x in seen_with_default) == exists(lambda t: 0 <= t and t < _k0 and ps[t].default is not None and ps[t].kind is x, 'int'), 'val')"),
        ("order", order.format(n="_k0")), ("names", names.format(n="_k0")), ("defaults", dflt.format(n="_k0")), ("required_first", req.format(n="_k0")),
    ])
    c.ensures(order.format(n="len(ps)"), name="kinds_appear_in_cpythons_order")
    c.ensures(names.format(n="len(ps)"), name="keys_are_the_parameter_names")
    c.ensures(dflt.format(n="len(ps)"), name="defaults_only_where_cpython_allows_them")
    c.ensures(req.format(n="len(ps)"), name="no_required_positional_parameter_after_a_defaulted_one")


@contract("pyanalyze.signature.Signature.bind_arguments", props=P)
def _(c):
    c.param("actual_args", "obj:ActualArguments")
    c.returns("opt[dict[str,val]]")
    c.fieldspec("parameters", "dict[str,obj:SigParameter]")
    c.fieldspec("positionals", "seq[pair[bool,val]]")
    c.fieldspec("keywords", "dict[str,pair[bool,val]]")
    c.fieldspec("kind", "val")
    c.fieldspec("default", "val")
    c.fieldspec("name", "str")
    c.fieldspec("value", "obj:Value")
    c.fieldspec("star_kwargs", "val")
    c.record_calls += ["self.show_call_error"]
    c.loop(0, invariant=[("bound_so_far", "all(list(self.parameters)[j] in bound_args for j in range(_k0))"),
                         ("no_error_reported_yet", "len(appended('self.show_call_error')) == 0"),
                         ("positional_cursor", "positional_index >= 0")])
    c.loop(1, invariant=[("cursor_and_log", "positional_index >= 0 and len(appended('self.show_call_error')) == 0 and all(list(self.parameters)[j] in bound_args for j in range(_k0))")])
    c.requires("all(self.parameters[k].name == k for k in self.parameters)", name="validated.keys_are_parameter_names")
    c.requires("all(self.parameters[k].kind in KIND_TO_ALLOWED_PREVIOUS for k in self.parameters)", name="type_invariant.kind_is_a_ParameterKind_member")
    # the values bound to *args / **kwargs are united; nothing is claimed about them here, so unite_values is an opaque local callee
    c.callee("unite_values", lambda k: (k.param("*values", "tuple"), k.returns("obj:Value")))
    c.ensures("implies(result is not None, all(k in result for k in self.parameters))", name="a_successful_binding_binds_every_parameter")
    c.ensures("implies(result is None, len(appended('self.show_call_error')) == 1)", name="a_failed_binding_reports_exactly_one_error")
    c.ensures("implies(result is not None, len(appended('self.show_call_error')) <= 1)", name="a_successful_binding_reports_at_most_the_paramspec_warning")
    c.assume("scope of this contract: structural totality of the binding state machine (every parameter bound on success, exactly one error on failure, no index / key / assertion failure for validated signatures); "
             "the equivalence with CPython's binding is decided by the bounded stand-in only")

"""C08 — overload resolution: first match, union bookkeeping, the Any rule (pyanalyze/signature.py)."""
from pyvc.dsl import REG, contract

REG.fieldspec(signatures="seq", is_error="bool", used_any_for_match="bool", remaining_arguments="val", return_value="val")
P = ["C08"]


@contract("pyanalyze.signature.preprocess_args", props=P, kind="assumed")
def _(c):
    c.returns("val")
    c.functional = True


@contract("method:bind_arguments", props=P, kind="assumed")
def _(c):
    c.param("self", "val"); c.param("actual_args", "val"); c.param("ctx", "val")
    c.returns("val")
    c.functional = True


@contract("method:check_call_preprocessed", props=P, kind="assumed")
def _(c):
    c.param("self", "val"); c.param("preprocessed", "val"); c.param("ctx", "val"); c.param("is_overload", "bool")
    c.returns("val")
    c.functional = True
    c.assume("Signature.check_call_preprocessed returns a CallReturn (is_error / used_any_for_match / remaining_arguments / return_value); a pure function of (signature, arguments, is_overload) apart from the diagnostics it emits, which check_call catches")


@contract("pyanalyze.signature.OverloadedSignature._unite_rets", props=P)
def _(c):
    c.param("any_rets", "seq"); c.param("union_and_any_rets", "seq"); c.param("union_rets", "seq"); c.param("clean_ret", "val")
    c.returns("val")
    c.functional = True
    c.fieldspec("deprecated", "val")
    c.record_calls += ["visitor.show_error"]
    c.callee("unite_values", lambda k: (k.param("*values", "tuple"), k.returns("val"), setattr(k, "functional", True), setattr(k, "fn_name", "unite_values")))
    c.raises("AssertionError", when="len(any_rets) == 0 and len(union_and_any_rets) == 0 and len(union_rets) == 0 and clean_ret is None")
    c.loop(0, invariant="True")
    c.assume("set de-duplication of return values is modelled by identity of the (canonically constructed) values")
    c.ensures("implies(len(any_rets) == 0 and len(union_and_any_rets) == 0 and len(union_rets) == 0 and clean_ret is not None,"
              " same(result, unite_values(clean_ret.return_value)))", name="a_clean_first_match_gives_its_return_type")
    c.ensures("implies((len(any_rets) > 0 or len(union_and_any_rets) > 0) and not (len(union_rets) == 0 and len(union_and_any_rets) == 0 and clean_ret is None"
              " and all(same(any_rets[i].return_value, any_rets[0].return_value) for i in range(len(any_rets)))),"
              " isa(result, AnyValue) and result.source is AnySource.multiple_overload_matches)", name="any_never_selects_one_overload_when_several_match")
    c.ensures("implies(len(any_rets) == 0 and len(union_and_any_rets) == 0 and len(union_rets) > 0 and clean_ret is None,"
              " same(result, unite_values(*[r.return_value for r in union_rets])))", name="a_union_argument_gives_the_union_of_the_member_results")


def _ret_flags(c):
    c.param("self", "val"); c.param("preprocessed", "val"); c.param("ctx", "val"); c.param("is_overload", "bool")
    c.returns("val")
    c.functional = True
    c.fn_name = "check_call_preprocessed"


CLEAN = "(not R.is_error and R.remaining_arguments is None and not R.used_any_for_match)"


@contract("pyanalyze.signature.OverloadedSignature.check_call", props=P)
def _(c):
    c.param("args", "val")
    c.returns("val")
    c.record_calls += ["visitor.show_error"]
    c.transparent_with += ["visitor.catch_errors"]
    c.callee("_VisitorBasedContext", lambda k: (k.param("visitor", "val"), k.param("node", "val"), k.returns("val"), setattr(k, "functional", True)))
    c.callee("self._make_detail", lambda k: (k.param("self", "val"), k.param("errors_per_overload", "val"), k.param("sigs", "val"), k.returns("val")))
    c.callee("self._unite_rets", lambda k: (k.param("self", "val"), k.param("any_rets", "seq"), k.param("union_and_any_rets", "seq"), k.param("union_rets", "seq"),
                                           k.param("clean_ret", "val"), k.param("visitor", "val"), k.param("node", "val"), k.returns("val"),
                                           setattr(k, "functional", True), setattr(k, "fn_name", "_unite_rets")))
    c.callee("itertools.chain.from_iterable", lambda k: (k.param("x", "val"), k.returns("seq")))
    c.ignore_exceptions += ["KeyError"]
    c.assume("records produced by visitor.catch_errors() carry the key 'error_code' (shape written by BaseNodeVisitor.show_error)")
    c.let("ctx0", "_VisitorBasedContext(visitor, node)")
    c.let("actual0", "preprocess_args(args, ctx0)")
    c.assume("check_call_preprocessed / bind_arguments are pure in (signature, arguments, is_overload): the diagnostics they emit are caught by visitor.catch_errors()")
    # loop 0: binding pass
    c.loop(0, invariant=[("one_binding_result_per_signature", "len(bound_args_per_overload) == _k0 and all(same(bound_args_per_overload[j], self.signatures[j].bind_arguments(actual0, ctx0)) for j in range(_k0))")])
    # loop 1: the resolution pass, under the hypothesis that no overload used Any or union decomposition
    hyp = ("all(sigs[j].check_call_preprocessed(actual0, ctx0, is_overload=(j != last)).is_error or"
           " (sigs[j].check_call_preprocessed(actual0, ctx0, is_overload=(j != last)).remaining_arguments is None and"
           "  not sigs[j].check_call_preprocessed(actual0, ctx0, is_overload=(j != last)).used_any_for_match) for j in range(len(sigs)))")
    c.loop(1, invariant=[("plain_case_state", f"implies({hyp}, same(actual_args, actual0) and len(any_rets) == 0 and len(union_rets) == 0 and len(union_and_any_rets) == 0"
                                              " and all(sigs[j].check_call_preprocessed(actual0, ctx0, is_overload=(j != last)).is_error for j in range(_k1)))")])
    c.loop(2, invariant="True")
    c.ensures("implies(actual0 is not None and all(s.bind_arguments(actual0, ctx0) is None for s in self.signatures),"
              " len(appended('visitor.show_error')) == 1 and isa(result, AnyValue) and result.source is AnySource.error)", name="no_binding_overload_is_diagnosed")
    binding = "[s for s in self.signatures if s.bind_arguments(actual0, ctx0) is not None]"
    plain = (f"all(R.is_error or (R.remaining_arguments is None and not R.used_any_for_match)"
             f" for R in [({binding})[j].check_call_preprocessed(actual0, ctx0, is_overload=(j != len({binding}) - 1)) for j in range(len({binding}))])")
    # `final('sigs')` is the kernel's own list of binding overloads at the return point (ghost access to a local): two
    # separately written order-preserving filters cannot be proved equal without induction
    RSJ = "final('sigs')[j].check_call_preprocessed(actual0, ctx0, is_overload=(j != len(final('sigs')) - 1))"
    RSK = RSJ.replace("[j]", "[k]").replace("(j !=", "(k !=")
    c.ensures("implies(final('sigs') is not None, all(s.bind_arguments(actual0, ctx0) is not None and exists(lambda i: 0 <= i and i < len(self.signatures) and same(s, self.signatures[i])) for s in final('sigs')))",
              name="candidates_are_the_binding_overloads")
    c.ensures(f"implies(actual0 is not None and final('sigs') is not None and all({RSJ}.is_error or ({RSJ}.remaining_arguments is None and not {RSJ}.used_any_for_match) for j in range(len(final('sigs')))),"
              f" ite(all({RSJ}.is_error for j in range(len(final('sigs')))),"
              "     len(appended('visitor.show_error')) == 1 and isa(result, AnyValue) and result.source is AnySource.error,"
              f"     exists(lambda k: 0 <= k and k < len(final('sigs')) and not {RSK}.is_error and all({RSJ}.is_error for j in range(k))"
              f"            and same(result, self._unite_rets([], [], [], {RSK}, visitor=visitor, node=node)) and len(appended('visitor.show_error')) == 0)))",
              name="first_matching_overload_wins_and_error_iff_none")

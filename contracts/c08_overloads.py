"""C08 — overload resolution: first match, union bookkeeping, the Any rule (pyanalyze/signature.py)."""
from pyvc.dsl import REG, contract

REG.fieldspec(signatures="seq", is_error="bool", used_any_for_match="bool", remaining_arguments="val", return_value="val")
P = ["C08"]


@contract("pyanalyze.signature.preprocess_args", props=P, kind="assumed")
def _(c):
    c.returns("val")
    c.functional = True


@contract("method:bind_arguments", props=P, kind="assumed")
def _(c):
    c.param("self", "val"); c.param("actual_args", "val"); c.param("ctx", "val")
    c.returns("val")
    c.functional = True


@contract("method:check_call_preprocessed", props=P, kind="assumed")
def _(c):
    c.param("self", "val"); c.param("preprocessed", "val"); c.param("ctx", "val"); c.param("is_overload", "bool")
    c.returns("val")
    c.functional = True
    c.assume("Signature.check_call_preprocessed returns a CallReturn (is_error / used_any_for_match / remaining_arguments / return_value); a pure function of (signature, arguments, is_overload) apart from the diagnostics it emits, which check_call catches")


@contract("pyanalyze.signature.OverloadedSignature._unite_rets", props=P)
def _(c):
    c.param("any_rets", "seq"); c.param("union_and_any_rets", "seq"); c.param("union_rets", "seq"); c.param("clean_ret", "val")
    c.returns("val")
    c.functional = True
    c.fieldspec("deprecated", "val")
    c.record_calls += ["visitor.show_error"]
    c.callee("unite_values", lambda k: (k.param("*values", "tuple"), k.returns("val"), setattr(k, "functional", True), setattr(k, "fn_name", "unite_values")))
    c.raises("AssertionError", when="len(any_rets) == 0 and len(union_and_any_rets) == 0 and len(union_rets) == 0 and clean_ret is None")
    c.loop(0, invariant="True")
    c.ensures("implies(len(any_rets) == 0 and len(union_and_any_rets) == 0 and len(union_rets) == 0 and clean_ret is not None,"
              " same(result, unite_values(clean_ret.return_value)))", name="a_clean_first_match_gives_its_return_type")
    c.ensures("implies((len(any_rets) > 0 or len(union_and_any_rets) > 0) and not (len(union_rets) == 0 and len(union_and_any_rets) == 0 and clean_ret is None"
              " and all(any_rets[i].return_value == any_rets[0].return_value for i in range(len(any_rets)))),"
              " isa(result, AnyValue) and result.source is AnySource.multiple_overload_matches)", name="any_never_selects_one_overload_when_several_match")
    c.ensures("implies(len(any_rets) == 0 and len(union_and_any_rets) == 0 and len(union_rets) > 0 and clean_ret is None,"
              " same(result, unite_values(*[r.return_value for r in union_rets])))", name="a_union_argument_gives_the_union_of_the_member_results")

"""C13 — parameter structure of a def node = CPython's own rule (pyanalyze/functions.py)."""
from pyvc.dsl import REG, contract

REG.fieldspec(defaults="seq", kw_defaults="seq", posonlyargs="seq", kwonlyargs="seq", arg="str")
P = ["C13"]


@contract("pyanalyze.functions._visit_default", props=P, kind="assumed")
def _(c):
    c.returns("val")
    c.functional = True
    c.ensures("result is not None", name="a_default_is_a_value")
    c.assume("_visit_default returns the inferred Value of the default expression (never None)")


@contract("pyanalyze.functions.translate_vararg_type", props=P, kind="assumed")
def _(c):
    c.returns("val")


@contract("pyanalyze.functions.compute_parameters", props=P)
def _(c):
    c.param("is_staticmethod", "bool"); c.param("is_classmethod", "bool"); c.param("is_nested_in_class", "bool")
    c.fieldspec("args", "val")
    c.returns("seq")
    c.present_attrs += ["posonlyargs"]
    c.callee("unite_values", lambda k: (k.param("*values", "tuple"), k.returns("val"), k.ensures("result is not None")))
    c.let("a", "node.args")
    c.let("po", "field(node.args, 'posonlyargs')")
    c.let("pk", "unS_(field(node.args, 'args'))")
    c.let("p", "len(field(node.args, 'posonlyargs'))")
    c.let("q", "len(unS_(field(node.args, 'args')))")
    c.let("d", "len(node.args.defaults)")
    c.let("v", "ite(node.args.vararg is not None, 1, 0)")
    c.let("k", "len(node.args.kwonlyargs)")
    c.let("w", "ite(node.args.kwarg is not None, 1, 0)")
    c.requires("d <= p + q", name="ast.defaults_fit")
    c.requires("len(node.args.kw_defaults) == k", name="ast.kw_defaults_aligned")
    c.assume("ast invariants of a FunctionDef/Lambda node: len(defaults) <= len(posonlyargs)+len(args), len(kw_defaults) == len(kwonlyargs); posonlyargs always present (Python >= 3.8)")
    c.ignore_exceptions += []
    shape = ("all(param_kind(params[j]) is kind_at(j, p, q, v, k) and (param_default(params[j]) is None) == no_default_at(node.args, j, p, q, d, v, k)"
             " and same(param_name(params[j]), name_at(node.args, j, p, q, v, k)) for j in range(_k0))")
    c.loop(0, invariant=[("one_per_declared_parameter", "len(params) == _k0"), ("kind_name_default", shape),
                         ("paramspec_args_is_a_pair", "seen_paramspec_args is None or len(unS_(seen_paramspec_args)) == 2")])
    c.ensures("len(result) == p + q + v + k + w", name="one_entry_per_declared_parameter")
    c.ensures("all(param_kind(result[j]) is kind_at(j, p, q, v, k) for j in range(len(result)))", name="kinds_in_cpython_order")
    c.ensures("all(same(param_name(result[j]), name_at(node.args, j, p, q, v, k)) for j in range(len(result)))", name="names_in_declaration_order")
    c.ensures("all((param_default(result[j]) is None) == no_default_at(node.args, j, p, q, d, v, k) for j in range(len(result)))", name="defaults_align_to_the_last_positional_parameters")


@contract("pyanalyze.arg_spec.ArgSpecCache._make_sig_parameter", props=P + ["C05"])
def _(c):
    c.param("parameter", "val")
    c.param("is_wrapped", "bool")
    c.param("index", "int")
    c.param("seen_paramspec_args", "val")
    c.returns("pair[val,bool,val]")
    c.fieldspec("kind", "val"); c.fieldspec("default", "val"); c.fieldspec("name", "str"); c.fieldspec("annotation", "val"); c.fieldspec("param_spec", "val")
    c.callee("self._get_type_for_parameter", lambda k: (k.param("self", "val"), k.param("p", "val"), k.param("g", "val"), k.param("f", "val"), k.param("i", "val"), k.returns("obj:Value"),
                                                        setattr(k, "functional", True), setattr(k, "fn_name", "_get_type_for_parameter")))
    c.callee("is_positional_only_arg_name", lambda k: (k.param("name", "val"), k.param("cls", "val"), k.returns("bool"), setattr(k, "functional", True), setattr(k, "fn_name", "is_positional_only_arg_name")))
    c.callee("_get_class_name", lambda k: (k.param("f", "val"), k.returns("val"), setattr(k, "functional", True), setattr(k, "fn_name", "_get_class_name")))
    c.callee("ParameterKind", lambda k: (k.param("v", "val"), k.returns("val"), setattr(k, "functional", True), setattr(k, "fn_name", "ParameterKind.of")))
    c.callee("AnyValue", lambda k: (k.param("s", "val"), k.returns("obj:Value")))
    c.callee("KnownValue", lambda k: (k.param("v", "val"), k.returns("obj:KnownValue"), setattr(k, "functional", True), setattr(k, "fn_name", "new_KnownValue"), k.ensures("result is not None")))
    c.callee("TypeVarValue", lambda k: (k.param("v", "val"), k.returns("obj:Value")))
    legacy = "(parameter.kind == inspect.Parameter.POSITIONAL_OR_KEYWORD and is_positional_only_arg_name(parameter.name, _get_class_name(function_object)))"
    made = "(result[0] is not None)"
    # the runtime-object route keeps every declared parameter's name, kind and default; only a dunder-named positional-or-keyword
    # parameter is re-read as positional-only (legacy convention) -- never a keyword-only, *args or **kwargs one
    c.ensures(f"implies({made}, result[0].name == parameter.name)", name="keeps_the_declared_name")
    c.ensures(f"implies({made}, (result[0].default is None) == (parameter.default is inspect.Parameter.empty))", name="default_iff_declared")
    c.ensures(f"implies({made} and {legacy}, result[0].kind is ParameterKind.POSITIONAL_ONLY and result[1])", name="dunder_named_positional_or_keyword_parameter_is_positional_only")
    c.ensures(f"implies({made} and not {legacy} and not (result[0].kind is ParameterKind.PARAM_SPEC), same(result[0].kind, ParameterKind(parameter.kind)) and not result[1])",
              name="every_other_parameter_keeps_its_declared_kind")
    c.assume("inspect.Parameter kinds map onto ParameterKind by value (ParameterKind(parameter.kind)); annotation translation (_get_type_for_parameter) is an opaque functional callee (C13's annotation half is bounded only)")

"""C13 — parameter structure of a def node = CPython's own rule (pyanalyze/functions.py)."""
from pyvc.dsl import REG, contract

REG.fieldspec(defaults="seq", kw_defaults="seq", posonlyargs="seq", kwonlyargs="seq", arg="str")
P = ["C13"]


@contract("pyanalyze.functions._visit_default", props=P, kind="assumed")
def _(c):
    c.returns("val")
    c.functional = True
    c.ensures("result is not None", name="a_default_is_a_value")
    c.assume("_visit_default returns the inferred Value of the default expression (never None)")


@contract("pyanalyze.functions.translate_vararg_type", props=P, kind="assumed")
def _(c):
    c.returns("val")


@contract("pyanalyze.functions.compute_parameters", props=P)
def _(c):
    c.param("is_staticmethod", "bool"); c.param("is_classmethod", "bool"); c.param("is_nested_in_class", "bool")
    c.fieldspec("args", "val")
    c.returns("seq")
    c.present_attrs += ["posonlyargs"]
    c.callee("unite_values", lambda k: (k.param("*values", "tuple"), k.returns("val"), k.ensures("result is not None")))
    c.let("a", "node.args")
    c.let("po", "field(node.args, 'posonlyargs')")
    c.let("pk", "unS_(field(node.args, 'args'))")
    c.let("p", "len(field(node.args, 'posonlyargs'))")
    c.let("q", "len(unS_(field(node.args, 'args')))")
    c.let("d", "len(node.args.defaults)")
    c.let("v", "ite(node.args.vararg is not None, 1, 0)")
    c.let("k", "len(node.args.kwonlyargs)")
    c.let("w", "ite(node.args.kwarg is not None, 1, 0)")
    c.requires("d <= p + q", name="ast.defaults_fit")
    c.requires("len(node.args.kw_defaults) == k", name="ast.kw_defaults_aligned")
    c.assume("ast invariants of a FunctionDef/Lambda node: len(defaults) <= len(posonlyargs)+len(args), len(kw_defaults) == len(kwonlyargs); posonlyargs always present (Python >= 3.8)")
    c.ignore_exceptions += []
    shape = ("all(param_kind(params[j]) is kind_at(j, p, q, v, k) and (param_default(params[j]) is None) == no_default_at(node.args, j, p, q, d, v, k)"
             " and same(param_name(params[j]), name_at(node.args, j, p, q, v, k)) for j in range(_k0))")
    c.loop(0, invariant=[("one_per_declared_parameter", "len(params) == _k0"), ("kind_name_default", shape),
                         ("paramspec_args_is_a_pair", "seen_paramspec_args is None or len(unS_(seen_paramspec_args)) == 2")])
    c.ensures("len(result) == p + q + v + k + w", name="one_entry_per_declared_parameter")
    c.ensures("all(param_kind(result[j]) is kind_at(j, p, q, v, k) for j in range(len(result)))", name="kinds_in_cpython_order")
    c.ensures("all(same(param_name(result[j]), name_at(node.args, j, p, q, v, k)) for j in range(len(result)))", name="names_in_declaration_order")
    c.ensures("all((param_default(result[j]) is None) == no_default_at(node.args, j, p, q, d, v, k) for j in range(len(result)))", name="defaults_align_to_the_last_positional_parameters")

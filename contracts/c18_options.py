"""C18 — configuration layering (pyanalyze/options.py)."""
import z3

from pyvc import seqs as Q
from pyvc.dsl import REG, contract, spec_function, lemma
from pyvc.core import S_bool, Sym, Spec, SeqV, V, IntS, fresh, Obligation
from pyvc.values import as_seq, as_int, box, fld, uf, unbox
from pyvc.core import unS

REG.fieldspec(applicable_to="tuple[str]", from_command_line="bool", priority="int")


@spec_function()
def applicable(ex, st, inst, path):
    """spec: an option instance applies to a module path iff its prefix is a prefix of the path"""
    app = unS(fld("applicable_to")(box(inst, st)))
    return S_bool(Q.PrefixOf(app, as_seq(path, st)))


_concat_app = z3.Function("concat_app", SeqV, SeqV, IntS, SeqV)


@spec_function()
def concat_app(ex, st, instances, path, n):
    """spec: concatenation of the values of the applicable instances among the first n (unfolded at the call site)"""
    ins, p, k = as_seq(instances, st), as_seq(path, st), as_int(n, st)
    t = _concat_app(ins, p, k)
    st.pc.append(z3.Implies(k <= 0, Q.Length(t) == 0))
    last = Q.At(ins, k - 1)
    app = Q.PrefixOf(unS(fld("applicable_to")(last)), p)
    st.pc.append(z3.Implies(k > 0, Q.Eq(t, Q.Concat(st, _concat_app(ins, p, k - 1),
                                                  z3.If(app, unS(fld("value")(last)), Q.Empty())))))
    return Sym("seq", t, Spec("seq", Spec("val")))


@contract("pyanalyze.options.ConfigOption.is_applicable_to", props=["C18", "C11"])   # C11: which instance of an error-code option applies to a module decides enablement
def _(c):
    c.param("module_path", "tuple[str]")
    c.returns("bool")
    c.ensures("result == applicable(self, module_path)", name="prefix")


@contract("pyanalyze.options.ConfigOption.sort_key", props=["C18", "C11"])   # C11: which instance of an error-code option applies to a module decides enablement
def _(c):
    c.returns("tuple")
    c.ensures("len(result) == 3", name="arity")
    c.ensures("result[0] == (not self.from_command_line)", name="cmdline_first")
    c.ensures("result[1] == self.priority", name="priority")
    c.ensures("result[2] == -len(self.applicable_to)", name="longest_first")


@contract("pyanalyze.options.ConfigOption.get_value_from_instances", props=["C18", "C11"])   # C11: which instance of an error-code option applies to a module decides enablement
def _(c):
    c.param("instances", "seq[obj:ConfigOption]")
    c.param("module_path", "tuple[str]")
    c.loop(0, invariant=("no_earlier_applicable", "all(not applicable(instances[j], module_path) for j in range(_k0))"))
    c.raises("NotFound", when="not any(applicable(i, module_path) for i in instances)")
    c.ensures("exists(lambda k: 0 <= k and k < len(instances) and applicable(instances[k], module_path)"
              " and same(result, instances[k].value)"
              " and all(not applicable(instances[j], module_path) for j in range(k)))", name="first_applicable")
    c.ensures("any(applicable(i, module_path) for i in instances)", name="found_only_if_applicable")


@contract("pyanalyze.options.ConcatenatedOption.get_value_from_instances", props=["C18"])
def _(c):
    c.param("instances", "seq[obj:ConfigOption]")
    c.param("module_path", "tuple[str]")
    c.returns("seq")
    c.fieldspec("default_value", "seq")
    c.loop(0, invariant=("prefix_concat", "seq_eq(_retvar, concat_app(instances, module_path, _k0))"))
    c.ensures("seq_eq(result, concat_app(instances, module_path, len(instances)))", name="concat_in_order")


# ---------------------------------------------------------------------------
# parsing of configuration sections

REG.fieldspec(registry="dict[str,val]")

SPECIAL_KEYS = ("module", "extend_config", "overrides", "disable_all")


@contract("pyanalyze.options.get_all_error_codes", props=["C18"], kind="assumed")
def _(c):
    c.returns("set[str]")
    c.functional = True
    c.assume("get_all_error_codes returns the frozenset of ErrorCode member names (lru_cached, pure)")


@contract("method:parse", props=["C18"], kind="assumed")
def _(c):
    c.param("self", "val")
    c.param("data", "val")
    c.param("source_path", "val")
    c.raises("InvalidConfigOption")
    c.assume("ConfigOption.parse overrides either return the parsed value or raise InvalidConfigOption (verified for Boolean/Integer/StringSequence below)")


def _new_instance(c):
    c.param("value", "val")
    c.param("applicable_to", "tuple[str]")
    c.param("from_command_line", "bool")
    c.param("priority", "int")
    c.returns("obj:ConfigOption")
    c.ensures("same(result.value, value)")
    c.ensures("implies(applicable_to is not None, seq_eq(result.applicable_to, applicable_to))")
    c.ensures("implies(applicable_to is None, len(result.applicable_to) == 0)")
    c.ensures("result.priority == ite(priority is None, 0, priority)")
    c.ensures("result.from_command_line == ite(from_command_line is None, False, from_command_line)")
    c.assume("calling a ConfigOption subclass object runs the dataclass-generated __init__(value, applicable_to=(), from_command_line=False, priority=0)")


@contract("pyanalyze.options.parse_config_file", props=["C18"], kind="assumed")
def _(c):
    c.param("priority", "int")
    c.generator = True
    c.returns("seq[obj:ConfigOption]")
    c.raises("InvalidConfigOption")
    c.ensures("all(i.priority >= priority for i in result)", name="priority_floor")
    c.assume("parse_config_file (TOML reading, Path.resolve: external) yields what _parse_config_section yields for the file's [tool.pyanalyze] table with the given priority")


@contract("pyanalyze.options._parse_config_section", props=["C18"])
def _(c):
    c.param("section", "dict[str,val]")
    c.param("module_path", "tuple[str]")
    c.param("priority", "int")
    c.generator = True
    c.returns("seq[obj:ConfigOption]")
    c.raises("InvalidConfigOption")
    c.requires("all_in(get_all_error_codes(), ConfigOption.registry)", name="module_invariant.error_codes_registered")
    c.assume("module invariant: every ErrorCode name has a registered option class (established at import in error_code.py)")
    c.callee("option_cls", _new_instance)
    inv_prio = "all(i.priority >= priority for i in _yielded)"
    inv_keys = ("all(implies(section_key(section, j) == 'disable_all', isa(section[section_key(section, j)], bool))"
                " and implies(section_key(section, j) == 'extend_config', isa(section[section_key(section, j)], str))"
                " and implies(section_key(section, j) == 'overrides', len(module_path) == 0 and isa(section[section_key(section, j)], (list, tuple)))"
                " and implies(section_key(section, j) == 'module', len(module_path) != 0)"
                " and implies(not special_key(section_key(section, j)), section_key(section, j) in ConfigOption.registry)"
                " for j in range(_k0))")
    c.loop(0, invariant=[("priority_floor", inv_prio), ("keys_checked", inv_keys)])
    c.loop(1, invariant=[("priority_floor", inv_prio)])
    c.loop(2, invariant=[("priority_floor", inv_prio)])
    # on normal exhaustion every rejected shape is absent (the "rejected rather than ignored" half of C18)
    c.ensures("all(i.priority >= priority for i in result)", name="priority_floor")
    c.ensures("not ('module' in section and len(module_path) == 0)", name="reject.toplevel_module")
    c.ensures("implies('disable_all' in section, isa(section['disable_all'], bool))", name="reject.disable_all_type")
    c.ensures("implies('extend_config' in section, isa(section['extend_config'], str))", name="reject.extend_config_type")
    c.ensures("implies('overrides' in section, len(module_path) == 0 and isa(section['overrides'], (list, tuple)))", name="reject.nested_or_nonlist_overrides")
    c.ensures("all(implies(not special_key(k), k in ConfigOption.registry) for k in section)", name="reject.unknown_key")


@spec_function()
def section_key(ex, st, section, j):
    from pyvc.values import unbox
    return unbox(section.py.kspec, Q.At(section.py.keys, as_int(j, st)), st)


@spec_function()
def special_key(ex, st, k):
    from pyvc.core import CONSTS
    kb = box(k, st)
    return S_bool(z3.Or(*[kb == CONSTS.get("str", s) for s in SPECIAL_KEYS]))


# ---------------------------------------------------------------------------
# command-line assembly: "the command-line value if given"

REG.fieldspec(should_create_command_line_option="bool")


def _cmdline_instance(c):
    c.param("value", "val")
    c.param("from_command_line", "bool")
    c.param("callee_", "val")
    c.returns("obj:ConfigOption")
    c.ensures("same(result.value, value) and result.from_command_line == ite(from_command_line is None, False, from_command_line) and len(result.applicable_to) == 0")
    c.ensures("option_class_of(result, callee_)")
    c.assume("option_cls(value, from_command_line=True): dataclass-generated ConfigOption.__init__")


@contract("pyanalyze.name_check_visitor.NameCheckVisitor.prepare_constructor_kwargs", props=["C18"])
def _(c):
    c.param("kwargs", "dict[str,val]")
    c.param("extra_options", "seq[obj:ConfigOption]")
    c.returns("val")
    c.callee("option_cls", _cmdline_instance)
    c.record_calls += ["Options.from_option_list"]
    c.unmodelled += []
    c.transparent_with += []
    c.callee("Paths", _cmdline_instance)
    c.callee("Checker", lambda k: (k.param("raw_options", "val"), k.returns("val")))
    c.callee("patch_typing_overload", lambda k: k.returns("val"))
    c.callee("Path", lambda k: (k.param("p", "val"), k.returns("val")))
    c.callee("sys.exit", lambda k: (k.param("code", "val"), k.returns("val"), k.raises("SystemExit")))
    c.raises("SystemExit")
    c.requires("'settings' not in kwargs", name="no_settings_dict")
    c.assume("scope: per-option command-line values (the `settings` dict of error codes, handled by the first loop, is not specified)")
    c.loop(0, invariant="True")
    given = "(name_ in kwargs and ConfigOption.registry[name_].should_create_command_line_option and name_ in ConfigOption.registry)"
    frame = ("all(implies(j >= _k1, (registry_key(j) in kwargs) == (registry_key(j) in kwargs_at_entry and registry_key(j) != 'files')"
             " and implies(registry_key(j) in kwargs, same(kwargs[registry_key(j)], kwargs_at_entry[registry_key(j)]))) for j in range(len(ConfigOption.registry)))")
    inv = ("all(implies(registry_key(j) in kwargs_at_entry and registry_key(j) != 'files' and registry_value(j).should_create_command_line_option,"
           " exists(lambda t: 0 <= t and t < len(instances) and instances[t].from_command_line and same(instances[t].value, kwargs_at_entry[registry_key(j)])"
           " and len(instances[t].applicable_to) == 0 and option_class_of(instances[t], registry_value(j)))) for j in range(_k1))")
    c.let("kwargs_at_entry", "kwargs")
    c.loop(1, invariant=[("unprocessed_keys_untouched", frame), ("given_values_become_command_line_instances", inv)])
    c.ensures("len(appended('Options.from_option_list')) == 1", name="options_built_once")
    c.ensures("all(implies(registry_key(j) in kwargs and registry_key(j) != 'files' and registry_value(j).should_create_command_line_option,"
              " exists(lambda t: 0 <= t and t < len(passed_instances()) and passed_instances()[t].from_command_line and same(passed_instances()[t].value, kwargs[registry_key(j)])"
              " and len(passed_instances()[t].applicable_to) == 0 and option_class_of(passed_instances()[t], registry_value(j))))"
              " for j in range(len(ConfigOption.registry)))", name="every_given_command_line_value_reaches_the_option_list")


@spec_function()
def registry_key(ex, st, j):
    from pyvc.core import CONSTS, Spec as _S
    reg = unbox(_S("dict", (_S("str"), _S("val"))), fld("registry")(CONSTS.get("class", "ConfigOption")), st)
    return unbox(_S("str"), Q.At(reg.py.keys, as_int(j, st)), st)


@spec_function()
def registry_value(ex, st, j):
    from pyvc.core import CONSTS, Spec as _S, S_val
    reg = unbox(_S("dict", (_S("str"), _S("val"))), fld("registry")(CONSTS.get("class", "ConfigOption")), st)
    return S_val(z3.Select(reg.py.vals, Q.At(reg.py.keys, as_int(j, st))))


@spec_function()
def option_class_of(ex, st, inst, cls):
    """the instance was created by calling this option class"""
    return S_bool(uf("created_by", V, V)(box(inst, st)) == box(cls, st))


@spec_function()
def passed_instances(ex, st):
    """first positional argument of the recorded call Options.from_option_list(instances, ...)"""
    g = st.notes.get("ghost_appends") or {}
    ev = g.get("Options.from_option_list")
    from pyvc.core import unS as _unS, Spec as _S
    call0 = _unS(Q.At(ev.t, 0))
    return Sym("seq", _unS(Q.At(call0, 0)), _S("seq", _S("obj", "ConfigOption")))


# ---------------------------------------------------------------------------
# look-up: configured instances first, the built-in default last, NotFound -> default



def _default_instance(c):
    c.param("value", "val")
    c.returns("obj:ConfigOption")
    c.ensures("same(result.value, value) and len(result.applicable_to) == 0 and not result.from_command_line and result.priority == 0")
    c.assume("option(default_value): dataclass-generated ConfigOption.__init__ with applicable_to=(), from_command_line=False, priority=0")


def _gvfi(k):
    k.param("instances", "seq[obj:ConfigOption]"); k.param("module_path", "tuple[str]"); k.returns("val"); k.raises("NotFound")


@contract("pyanalyze.options.Options._get_value_for_no_default", props=["C18", "C11"])
def _(c):
    c.param("option", "val")
    c.returns("val")
    c.raises("NotFound")
    c.fieldspec("options", "dict[str,seq[obj:ConfigOption]]")
    c.fieldspec("module_path", "tuple[str]")
    c.callee("option", _default_instance)
    c.callee("option.get_value_from_instances", _gvfi)
    c.record_calls += ["option.get_value_from_instances"]
    A = "call_args('option.get_value_from_instances', 0)"
    CAND = "lookup_candidates()"
    IN = "(option.name in self.options)"
    C = "self.options[option.name]"
    c.ensures(f"implies({IN}, len({CAND}) == len({C}) + 1)", name="configured_instances_then_one_default")
    c.ensures(f"implies({IN}, all(same({CAND}[j], {C}[j]) for j in range(len({C}))))", name="configured_instances_come_first_in_their_order")
    c.ensures(f"implies(not {IN}, len({CAND}) == 1)", name="only_the_default_when_nothing_is_configured")
    c.ensures(f"same({CAND}[len({CAND}) - 1].value, option.default_value) and len({CAND}[len({CAND}) - 1].applicable_to) == 0", name="the_default_is_the_last_candidate_and_applies_everywhere")
    c.ensures(f"seq_eq({A}[1], self.module_path)", name="looked_up_for_this_module")
    c.ensures("same(result, call_result('option.get_value_from_instances', 0))", name="returns_the_lookup_result")


def _gvnd(k):
    k.param("option", "val"); k.returns("val"); k.raises("NotFound")


@contract("pyanalyze.options.Options.get_value_for", props=["C18"])
def _(c):
    c.param("option", "val")
    c.returns("val")
    c.callee("self._get_value_for_no_default", _gvnd)
    c.record_calls += ["self._get_value_for_no_default"]
    c.ensures("len(appended('self._get_value_for_no_default')) == 1 and same(call_args('self._get_value_for_no_default', 0)[0], option)", name="looks_up_the_requested_option")
    c.ensures("same(result, call_result('self._get_value_for_no_default', 0)) or same(result, option.default_value)", name="lookup_result_or_default")


@contract("pyanalyze.options.Options.is_error_code_enabled", props=["C18", "C11"])
def _(c):
    c.param("code", "val")
    c.returns("val")
    c.callee("self._get_value_for_no_default", _gvnd)
    c.record_calls += ["self._get_value_for_no_default"]
    c.requires("code.name in ConfigOption.registry", name="module_invariant.error_codes_registered")
    c.ensures("len(appended('self._get_value_for_no_default')) == 1 and same(call_args('self._get_value_for_no_default', 0)[0], ConfigOption.registry[code.name])",
              name="looks_up_the_option_registered_under_the_codes_name")
    c.ensures("same(result, call_result('self._get_value_for_no_default', 0)) or same(result, ConfigOption.registry[code.name].default_value)", name="lookup_result_or_default")


@spec_function()
def lookup_candidates(ex, st):
    """first positional argument of the recorded call option.get_value_from_instances(instances, module_path)"""
    g = st.notes.get("ghost_appends") or {}
    ev = g.get("option.get_value_from_instances")
    from pyvc.core import unS as _unS, Spec as _S
    call0 = _unS(Q.At(ev.t, 0))
    return Sym("seq", _unS(Q.At(call0, 0)), _S("seq", _S("obj", "ConfigOption")))

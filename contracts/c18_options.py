"""C18 — configuration layering (pyanalyze/options.py)."""
import z3
from pyvc.dsl import REG, contract, spec_function, lemma
from pyvc.core import S_bool, Sym, Spec, SeqV, V, IntS, fresh, Obligation
from pyvc.values import as_seq, as_int, box, fld, uf, unbox
from pyvc.core import unS

REG.fieldspec(applicable_to="tuple[str]", from_command_line="bool", priority="int")


@spec_function()
def applicable(ex, st, inst, path):
    """spec: an option instance applies to a module path iff its prefix is a prefix of the path"""
    app = unS(fld("applicable_to")(box(inst, st)))
    return S_bool(z3.PrefixOf(app, as_seq(path, st)))


_concat_app = z3.Function("concat_app", SeqV, SeqV, IntS, SeqV)


@spec_function()
def concat_app(ex, st, instances, path, n):
    """spec: concatenation of the values of the applicable instances among the first n (unfolded at the call site)"""
    ins, p, k = as_seq(instances, st), as_seq(path, st), as_int(n, st)
    t = _concat_app(ins, p, k)
    st.pc.append(z3.Implies(k <= 0, t == z3.Empty(SeqV)))
    last = ins[k - 1]
    app = z3.PrefixOf(unS(fld("applicable_to")(last)), p)
    st.pc.append(z3.Implies(k > 0, t == z3.Concat(_concat_app(ins, p, k - 1),
                                                  z3.If(app, unS(fld("value")(last)), z3.Empty(SeqV)))))
    return Sym("seq", t, Spec("seq", Spec("val")))


@contract("pyanalyze.options.ConfigOption.is_applicable_to", props=["C18"])
def _(c):
    c.param("module_path", "tuple[str]")
    c.returns("bool")
    c.ensures("result == applicable(self, module_path)", name="prefix")


@contract("pyanalyze.options.ConfigOption.sort_key", props=["C18"])
def _(c):
    c.returns("tuple")
    c.ensures("len(result) == 3", name="arity")
    c.ensures("result[0] == (not self.from_command_line)", name="cmdline_first")
    c.ensures("result[1] == self.priority", name="priority")
    c.ensures("result[2] == -len(self.applicable_to)", name="longest_first")


@contract("pyanalyze.options.ConfigOption.get_value_from_instances", props=["C18"])
def _(c):
    c.param("instances", "seq[obj:ConfigOption]")
    c.param("module_path", "tuple[str]")
    c.loop(0, invariant=("no_earlier_applicable", "all(not applicable(instances[j], module_path) for j in range(_k0))"))
    c.raises("NotFound", when="not any(applicable(i, module_path) for i in instances)")
    c.ensures("exists(lambda k: 0 <= k and k < len(instances) and applicable(instances[k], module_path)"
              " and same(result, instances[k].value)"
              " and all(not applicable(instances[j], module_path) for j in range(k)))", name="first_applicable")
    c.ensures("any(applicable(i, module_path) for i in instances)", name="found_only_if_applicable")


@contract("pyanalyze.options.ConcatenatedOption.get_value_from_instances", props=["C18"])
def _(c):
    c.param("instances", "seq[obj:ConfigOption]")
    c.param("module_path", "tuple[str]")
    c.returns("seq")
    c.fieldspec("default_value", "seq")
    c.loop(0, invariant=("prefix_concat", "seq_eq(values, concat_app(instances, module_path, _k0))"))
    c.ensures("seq_eq(result, concat(concat_app(instances, module_path, len(instances)), cls.default_value))", name="concat_in_order")

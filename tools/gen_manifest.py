#!/usr/bin/env python3
"""Regenerates MANIFEST.json from the table below (kept valid against /root/.vp/MANIFEST.schema.json)."""
import json, os, subprocess
ROOT = os.path.dirname(os.path.dirname(os.path.abspath(__file__)))
PROPS = [json.loads(l) for l in open(os.path.join(ROOT, "properties.jsonl"))]

# property -> (claimed?, level text, level note, technique, design ref)
CLAIMS = {}

def claim(pid, text, note, technique="contract-based deductive verification: VCs generated from the real source by pyvc, discharged by z3/cvc5", ref=None, category="proof"):
    CLAIMS[pid] = dict(text=text, note=note, technique=technique, ref=ref or f"DESIGN.md §6 {pid} and §12.2", category=category)

NA = {}
exec(open(os.path.join(ROOT, "tools", "claims.py")).read())

def main():
    repo_fixes = subprocess.run(["git", "-C", "/repo", "log", "--format=%h %s"], capture_output=True, text=True).stdout.splitlines()
    checks = []
    for p in PROPS:
        pid = p["id"]
        if pid not in CLAIMS:
            continue
        c = CLAIMS[pid]
        checks.append({
            "property_id": pid,
            "quick_cmd": f"./check {pid} --tier quick",
            "thorough_cmd": f"./check {pid} --tier thorough",
            "evidence_file": f"evidence/{pid}.json",
            "replay_cmd_template": f"./check {pid} --replay {{path}}",
            "engine": "pyvc",
            "level_claimed": {"category": c["category"], "text": c["text"], "design_ref": c["ref"]},
            "level_note": c["note"],
            "technique": c["technique"],
        })
    m = {
        "version": 1,
        "setup_cmd": "python3-vt -c \"import z3, sys; sys.path.insert(0, '.'); import pyvc.check\" && test -x /venv/bin/python",
        "hooks": {"guard": "PYANALYZE_VERIF", "enable": "no hooks: contracts are sidecar files under /verif/contracts, extraction re-reads /repo's working tree on every run; nothing in /repo is instrumented",
                  "baseline_off_cmd": "cd /repo && /venv/bin/python -m pytest -ra -q -p no:cacheprovider --timeout=900 --continue-on-collection-errors",
                  "source_commits": [], "add_only": True},
        "engines": [{"name": "pyvc", "path": "pyvc/", "serves_properties": sorted(CLAIMS),
                     "kind_free_text": "AST->SMT verification-condition generator over the real function sources of /repo (sidecar contracts, loop invariants, modular callee contracts), z3 5.1 + cvc5 1.0.3 back ends, counter-models replayed natively with /venv/bin/python"}],
        "checks": checks,
        "notes": "Every check re-extracts its kernels from /repo's working tree (PYVC_REPO overrides the path). VERIF_SEED is recorded but the bounded corpora use fixed seeds (deterministic verdicts; the thorough tier runs more seeds and larger corpora). Exit 0 all obligations discharged; 1 VIOLATION (sat obligation, replayed natively where a replayer exists, else no-failing-input-found); 2 undecided (unknown/timeout/unsupported construct); 3 checker crash or contradictory assumptions. fix: commits in /repo: " + "; ".join(l for l in repo_fixes if " fix:" in l),
        "not_applicable": [{"property_id": p["id"], "reason": NA.get(p["id"], "core kernels not (yet) brought under contract; see DESIGN.md §9")} for p in PROPS if p["id"] not in CLAIMS],
    }
    json.dump(m, open(os.path.join(ROOT, "MANIFEST.json"), "w"), indent=1)
    try:
        import jsonschema
        jsonschema.validate(m, json.load(open("/root/.vp/MANIFEST.schema.json")))
        print("MANIFEST.json valid;", len(checks), "checks")
    except ImportError:
        print("written (jsonschema unavailable)")

main()

#!/bin/sh
# usage: tools/detect_matrix.sh <seed-id>:<prop,prop> ...   applies each seeded patch to /repo, runs the named checks, reverts; writes seeded/<id>/detect.json
cd /verif
for s in "$@"; do
  d=${s%%:*}; props=$(echo ${s#*:} | tr ',' ' ')
  cd /repo || exit 3
  git diff --quiet || { echo "/repo not clean"; exit 3; }
  if ! git apply "/verif/seeded/$d/patch.diff" 2>/dev/null; then echo "{\"id\": \"$d\", \"applies\": false}" > /verif/seeded/$d/detect.json; echo "=== $d does not apply"; continue; fi
  out="{\"id\": \"$d\", \"applies\": true, \"repo_head\": \"$(git rev-parse --short HEAD)\", \"checks\": {"
  sep=""
  for p in $props; do
    (cd /verif && ./check $p > /tmp/detect_$p.log 2>&1); rc=$?
    vio=$(grep -c "^VIOLATION" /tmp/detect_$p.log)
    first=$(grep "^VIOLATION" /tmp/detect_$p.log | head -1 | sed 's/.*obligation=//' | cut -c1-160 | tr -d '"\\')
    out="$out$sep\"$p\": {\"exit\": $rc, \"violations\": $vio, \"first\": \"$first\"}"
    sep=", "
    echo "=== $d $p exit=$rc violations=$vio $first"
  done
  echo "$out}}" > /verif/seeded/$d/detect.json
  git -C /repo checkout -- .
done
echo MATRIXDONE

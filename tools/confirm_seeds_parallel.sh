#!/bin/sh
# usage: tools/confirm_seeds_parallel.sh <n-workers>
# confirms each agent seed without confirm.json in scratch worktrees (n in parallel): demo fails with the change, passes without, full suite passes with it
N=${1:-4}
todo=$(for d in /verif/seeded/C*_[1-9]; do [ -f $d/confirm.json ] || basename $d; done)
i=0
for w in $(seq 1 $N); do : > /tmp/confirm_part_$w.txt; done
for id in $todo; do i=$(( i % N + 1 )); echo $id >> /tmp/confirm_part_$i.txt; done
for w in $(seq 1 $N); do
  (
    WT=/tmp/wt_confirm_$w
    git -C /repo worktree remove --force $WT 2>/dev/null
    git -C /repo worktree add -q $WT HEAD || exit 3
    for id in $(cat /tmp/confirm_part_$w.txt); do
      d=/verif/seeded/$id
      cd $WT && git checkout -q -- . && git clean -fdq
      cp $d/demo.py $WT/demo_confirm.py
      /venv/bin/python demo_confirm.py >/dev/null 2>&1; clean_rc=$?
      if ! git apply $d/patch.diff 2>/dev/null; then echo "{\"id\": \"$id\", \"applies\": false}" > $d/confirm.json; continue; fi
      /venv/bin/python demo_confirm.py >/dev/null 2>&1; mut_rc=$?
      /venv/bin/python -m pytest -q -p no:cacheprovider --timeout=900 -x -q pyanalyze > /tmp/confirm_suite_$w.log 2>&1; suite_rc=$?
      tailmsg=$(grep -E "passed|failed" /tmp/confirm_suite_$w.log | tail -1 | tr -d '"')
      echo "{\"id\": \"$id\", \"applies\": true, \"demo_exit_without_change\": $clean_rc, \"demo_exit_with_change\": $mut_rc, \"suite_exit_with_change\": $suite_rc, \"suite_summary\": \"$tailmsg\", \"repo_head\": \"$(git -C /repo rev-parse --short HEAD)\"}" > $d/confirm.json
    done
    cd / && git -C /repo worktree remove --force $WT
  ) &
done
wait
echo CONFIRMDONE

#!/usr/bin/env python3
"""usage: debug_ob.py <prop> <kernel-substr> <obligation-substr> [index]  -- print slice + verdict"""
import sys, os, time
sys.path.insert(0, os.path.dirname(os.path.dirname(os.path.abspath(__file__))))
import z3
from pyvc.run import load_contracts, generate
from pyvc.executor import global_axioms
from pyvc.dsl import REG
from pyvc.solve import to_smt2, relevance_slice
load_contracts()
res = generate(sys.argv[1], sys.argv[2])
for q, w in res.undecided_kernels.items(): print("UNDECIDED", q, w)
for q, w in res.crashed.items(): print("CRASH", q, w)
ax = global_axioms(res.collector.used_classes, REG)
want = int(sys.argv[4]) if len(sys.argv) > 4 else 0
n = 0
for ob in res.obligations:
    if sys.argv[3] in ob.name:
        if n == want:
            sl = relevance_slice(ob.hyps, ob.goal)
            print(";;", ob.name, ob.where, len(sl), "/", len(ob.hyps))
            if not os.environ.get("QUIET"):
                for h in sl:
                    print("H:", str(h)[:int(os.environ.get("W", "400"))])
            print("G:", ob.goal)
            s = z3.Solver(); s.set("timeout", 10000)
            for a in ax: s.add(a)
            for h in sl: s.add(h)
            s.add(z3.Not(ob.goal))
            t = time.time(); r = s.check(); print(r, round(time.time() - t, 2))
            open("/tmp/dbg.smt2", "w").write(to_smt2(ax, sl, ob.goal))
            if r == z3.sat and os.environ.get("MODEL"):
                m = s.model()
                for d in m.decls():
                    if any(w in d.name() for w in os.environ["MODEL"].split(",")):
                        print(d.name(), "=", m[d])
        n += 1
print(n, "matching obligations")

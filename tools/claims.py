# executed by gen_manifest.py
claim("C18",
      "Proof, for unbounded instance lists / module prefixes / sections, of the precedence kernels of options.py: is_applicable_to = prefix test, sort_key = (not cmdline, priority, -len prefix), get_value_from_instances = value of the first applicable instance (NotFound iff none), ConcatenatedOption = in-order concatenation of applicable values, _parse_config_section: every yielded instance carries at least the file's priority and every malformed shape (top-level module, non-bool disable_all, non-string extend_config, nested/non-list overrides, unknown key) is rejected on normal exhaustion.",
      "Assumed: TOML parsing / Path.resolve / parse_config_file (external IO), option.parse overrides' contract, sorted() stability (builtin), module invariant that every error code has a registered option; pyvc's encoding of Python; partial correctness.")
NA.update({
})

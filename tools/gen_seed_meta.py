#!/usr/bin/env python3
"""Writes seeded/<id>/meta.json for every kept change from meta_text.json (what / needs), confirm.json (scratch-worktree
confirmation: demo without / with the change, full suite with the change) and detect.json (verdicts of /verif's checks),
and prints the table used in DESIGN.md §12.4."""
import glob, json, os
ROOT = os.path.dirname(os.path.dirname(os.path.abspath(__file__)))
rows = []
for d in sorted(glob.glob(os.path.join(ROOT, "seeded", "*"))):
    sid = os.path.basename(d)
    if not os.path.isdir(d) or not os.path.exists(os.path.join(d, "patch.diff")):
        continue
    def load(n):
        p = os.path.join(d, n)
        return json.load(open(p)) if os.path.exists(p) else None
    text, conf, det = load("meta_text.json"), load("confirm.json"), load("detect.json")
    is_revert = sid.startswith("self_revert_")
    prop = sid.split("_")[0] if not is_revert else None
    meta = {"id": sid, "kind": "reverse patch of a fix: commit" if is_revert else "sub-agent change (agent saw only the property text and a scratch worktree)"}
    if is_revert:
        h = sid.split("_")[-1]
        meta["breaks_property"] = sorted((det or {}).get("checks", {}).keys()) or None
        meta["what"] = f"git diff {h} {h}~1 (re-introduces the defect repaired by {h}; see known_findings.json `fixed:` entries)"
        meta["needs_in_order_to_manifest"] = "the failing input recorded in the fixed: entry of known_findings.json"
    else:
        meta["breaks_property"] = prop
        if text:
            meta["what"] = text["change"]
            meta["how_it_breaks_the_property"] = text["breaks"]
            meta["needs_in_order_to_manifest"] = text["needs"]
    ran = []
    if conf:
        ran.append(f"scratch worktree of /repo at {conf.get('repo_head')}: demo.py exit {conf.get('demo_exit_without_change')} without the change, exit {conf.get('demo_exit_with_change')} with it; "
                   f"full suite with the change: exit {conf.get('suite_exit_with_change')} {conf.get('suite_summary', '')}".strip())
        meta["confirmed"] = bool(conf.get("applies") and conf.get("demo_exit_without_change") == 0 and conf.get("demo_exit_with_change") not in (0, None) and conf.get("suite_exit_with_change") == 0)
    if det and det.get("applies"):
        for p, r in det["checks"].items():
            ran.append(f"git -C /repo apply patch.diff; ./check {p} -> exit {r['exit']}, {r['violations']} VIOLATION line(s){': ' + r['first'] if r['first'] else ''}; git -C /repo checkout -- .")
        meta["detected_by"] = sorted(p for p, r in det["checks"].items() if r["exit"] == 1 and r["violations"] > 0)
        meta["checks_at_repo_head"] = det.get("repo_head")
    meta["what_was_run"] = ran
    json.dump(meta, open(os.path.join(d, "meta.json"), "w"), indent=1)
    how = []
    if det and det.get("applies"):
        for p, r in det["checks"].items():
            if r["exit"] == 1:
                how.append(f"{p}: " + ("bounded" if r["first"].startswith("bounded:") else "scan" if r["first"].startswith("C10.site") else "proof" if "solver undecided" not in r["first"] else "native search"))
            else:
                how.append(f"{p}: missed (exit {r['exit']})")
    rows.append((sid, "; ".join(how) or "not run", (text or {}).get("change", meta.get("what", ""))[:110]))
print("| change | caught by | what it changes |\n|---|---|---|")
for r in rows:
    print(f"| {r[0]} | {r[1]} | {r[2]} |")

#!/bin/sh
# usage: tools/seeded_run.sh <seeded-dir> <prop> [<prop>...]   applies the seeded patch to /repo, runs the checks, reverts
d="$1"; shift
cd /repo || exit 3
git diff --quiet || { echo "/repo not clean"; exit 3; }
git apply "/verif/$d/patch.diff" || { echo "patch does not apply"; exit 3; }
for p in "$@"; do
  (cd /verif && ./check "$p" 2>&1 | grep -E "VIOLATION|KNOWN-FINDING|^\[|UNDECIDED" | cut -c1-330)
  echo "exit($p)=$?"
done
git -C /repo checkout -- .

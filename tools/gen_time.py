import sys, time, os
sys.path.insert(0, os.path.dirname(os.path.dirname(os.path.abspath(__file__))))
from pyvc.run import load_contracts, generate
load_contracts()
t=time.time()
res=generate(sys.argv[1], sys.argv[2] if len(sys.argv)>2 else None)
print("gen", round(time.time()-t,1), "obligations", len(res.obligations), "prune checks", res.collector.prune_checks)
for q,w in res.undecided_kernels.items(): print("UNDECIDED", q, w)
for q,w in res.crashed.items(): print("CRASH", q, w[-1500:])
from collections import Counter
print(Counter(o.kind for o in res.obligations))

"""Calls: builtins, contracted callees (modular: only the contract is used), constructors,
dynamic dispatch by method name, pure externals as uninterpreted functions, opaque callees."""
from __future__ import annotations

import ast
from typing import Optional

import z3

from pyvc import seqs as Q

from . import extract
from .core import (CLASSES, CONSTS, NONE, SeqV, V, IntS, BoolS, Spec, VAL, Sym, State, DictPayload,
                   ExcInfo, S_bool, S_int, S_none, S_seq, S_str, S_val, Unsupported, fresh,
                   fresh_name, is_prim, parse_spec, sub, typeof, truthy, unS, unI)
from .values import (as_int, as_seq, box, elem_spec, fld, isa, norm_index, py_equal, seq_contains,
                     seq_slice, truth, uf, unbox, veq)
from .expr import IterView


class CallMixin:
    def e_Call(self, node: ast.Call, st: State) -> Sym:
        fn = node.func
        # spec-only functions -------------------------------------------------
        if self.spec_mode and isinstance(fn, ast.Name):
            r = self.spec_call(fn.id, node, st)
            if r is not None:
                return r
        rc = getattr(self.contract, "record_calls", None)
        if rc and not self.spec_mode:
            key = ast.unparse(fn)
            if key in rc:
                # ghost event log: the call is recorded (arguments boxed into a tuple) and otherwise opaque
                args, kwargs = self.eval_args(node, st)
                items = [box(a, st) for a in args if not isinstance(a, tuple) and a.kind != "pyobj"]
                for k_ in sorted(kwargs):
                    if kwargs[k_].kind != "pyobj":
                        items.append(box(kwargs[k_], st))
                ev = box(Sym("seq", Q.Literal(st, items), Spec("seq", VAL, True)), st)
                g = dict(st.notes.get("ghost_appends") or {})
                cur = g.get(key) or Sym("seq", Q.Empty(), Spec("seq", VAL))
                g[key] = Sym("seq", Q.Concat(st, cur.t, Q.Unit(st, ev)), Spec("seq", VAL))
                st.notes["ghost_appends"] = g
                # the result of the k-th recorded call is a function of (its arguments, k): specs name it call_result(key, k)
                rv = uf("rec:" + key, V, IntS, V)(ev, Q.Length(cur.t))
                rspec = getattr(self.contract, "record_result_specs", {}).get(key)
                # a recorded callee that also has a local contract declaring exceptions may raise them (the event stays logged)
                lcr = (getattr(self.contract, "local_contracts", None) or {}).get(key)
                if lcr is not None:
                    for exc in lcr.exc_:
                        self.may_raise(st, self.fresh_term(st, "raises", BoolS), exc, f"{key} line {getattr(node, 'lineno', '?')}")
                return unbox(rspec, rv, st) if rspec is not None else S_val(rv)
        lc = getattr(self.contract, "local_contracts", None)
        if lc:
            key = ast.unparse(fn)
            if key in lc:
                args, kwargs = self.eval_args(node, st)
                if isinstance(fn, ast.Attribute) and "self" in lc[key].params:
                    args = [self.eval(fn.value, st)] + args
                if "callee_" in lc[key].params:
                    kwargs = dict(kwargs)
                    kwargs["callee_"] = self.eval(fn, st)  # the called object itself, for contracts about "created by this class"
                return self.apply_contract(lc[key], args, kwargs, st, node, label=key)
        if isinstance(fn, ast.Attribute) and fn.attr == "__setattr__" and isinstance(fn.value, ast.Name) and fn.value.id == "object" and len(node.args) == 3 \
                and isinstance(node.args[1], ast.Constant) and not self.spec_mode:
            # object.__setattr__(self, "name", value): attribute initialisation of a frozen dataclass
            owner = self.eval(node.args[0], st)
            val = self.eval(node.args[2], st)
            key = (owner.t.get_id(), node.args[1].value)
            st.heap[key] = val
            st.notes.setdefault("heap_terms", {})[key] = owner.t
            return S_none()
        # method call ---------------------------------------------------------
        if isinstance(fn, ast.Attribute):
            if isinstance(fn.value, ast.Call) and isinstance(fn.value.func, ast.Name) and fn.value.func.id == "super":
                return self.super_call(fn.attr, node, st)
            base = self.eval(fn.value, st)
            if base.kind not in ("pyobj", "cls") or (base.kind == "cls"):
                r = self.method_call(base, fn.attr, node, st, fn.value)
                if r is not None:
                    return r
            callee = self.getattr_sym(base, fn.attr, st, fn)
        else:
            callee = self.eval(fn, st)
        return self.call_sym(callee, node, st)

    # ------------------------------------------------------------------ arguments
    def eval_args(self, node: ast.Call, st: State):
        args = []
        for a in node.args:
            if isinstance(a, ast.Starred):
                s = self.eval(a.value, st)
                args.append(("*", s))
            else:
                args.append(self.eval(a, st))
        kwargs = {}
        for kw in node.keywords:
            if kw.arg is None:
                kwargs["**"] = self.eval(kw.value, st)
            else:
                kwargs[kw.arg] = self.eval(kw.value, st)
        return args, kwargs

    # ------------------------------------------------------------------ dispatch on callee Sym
    def call_sym(self, callee: Sym, node: ast.Call, st: State) -> Sym:
        if callee.kind == "pyobj":
            tag, q = callee.py[0], callee.py[1]
            if tag == "builtin":
                return self.builtin_call(q, node, st)
            if tag == "theory":
                args, kwargs = self.eval_args(node, st)
                return self.reg.theory[q](self, st, *args, **kwargs)
            if tag == "external":
                return self.external_call(q, node, st)
        if callee.kind == "cls":
            return self.construct(callee.py, node, st)
        if callee.kind == "func":
            if isinstance(callee.py, tuple):
                return self.inline_lambda(callee.py, node, st)
            return self.named_call(callee.py, node, st)
        if callee.kind == "val":
            # calling a first-class value (a class object or function held in a variable)
            args, kwargs = self.eval_args(node, st)
            c = self.reg.methods.get("__call__")
            if c is not None:
                return self.apply_contract(c, [callee] + [a for a in args], kwargs, st, node, label="__call__")
            return self.opaque_result(st, node, "call of a value", [callee] + list(args))
        raise Unsupported(f"call of {callee}")

    def opaque_result(self, st, node, what, args=()) -> Sym:
        self.collector.opaque_calls.add(f"{self.kernel.qualname}: {what} (line {getattr(node, 'lineno', '?')})")
        return S_val(self.fresh_term(st, "opaque", V))

    def external_call(self, q: str, node, st) -> Sym:
        if q == "itertools.zip_longest":
            return self.zip_longest(node, st)
        if q == "itertools.chain.from_iterable":
            return self.flatcat(self.materialise(self.eval(node.args[0], st), st, node), st)
        if q == "collections.defaultdict" and len(node.args) == 2 and not node.keywords:
            # defaultdict(factory, mapping): the mapping's items (insertion of defaults on reads of missing keys is not modelled)
            self.collector.assumptions.add(f"{self.kernel.qualname}: defaultdict(factory, m) modelled as the mapping m (default insertion on missing-key reads not modelled)")
            return self.eval(node.args[1], st)
        if q == "collections.OrderedDict.fromkeys" and len(node.args) == 1:
            # insertion-ordered de-duplication, as dict.fromkeys
            return self.dedup_dict(self.materialise(self.eval(node.args[0], st), st, node), st)
        args, kwargs = self.eval_args(node, st)
        c = self.reg.contracts.get(q)
        if c is not None:
            return self.apply_contract(c, args, kwargs, st, node, label=q)
        if q in self.reg.pure_externals:
            flat = [box(a, st) for a in args if not isinstance(a, tuple)] + [box(v, st) for k, v in sorted(kwargs.items())]
            f = uf("ext:" + q + ":" + ",".join(sorted(kwargs)), *([V] * len(flat)), V)
            return unbox(self.reg.pure_externals[q], f(*flat) if flat else CONSTS.get("ext", q), st)
        return self.opaque_result(st, node, f"external {q}", args)

    def named_call(self, q: str, node, st) -> Sym:
        args, kwargs = self.eval_args(node, st)
        c = self.reg.contracts.get(q)
        if c is not None:
            return self.apply_contract(c, args, kwargs, st, node, label=q)
        return self.opaque_result(st, node, f"uncontracted {q}", args)

    def inline_lambda(self, py, node, st) -> Sym:
        fnode, env = py
        args, kwargs = self.eval_args(node, st)
        if isinstance(fnode, ast.Lambda):
            names = [a.arg for a in fnode.args.args]
            saved = st.env
            st.env = dict(env)
            for n, a in zip(names, args):
                st.env[n] = a
            try:
                return self.eval(fnode.body, st)
            finally:
                st.env = saved
        raise Unsupported("call of nested def (needs contract)")

    # ------------------------------------------------------------------ builtins
    def builtin_call(self, name: str, node: ast.Call, st: State) -> Sym:
        m = getattr(self, "b_" + name, None)
        if m is None:
            raise Unsupported(f"builtin {name}")
        return m(node, st)

    def b_len(self, node, st):
        x = self.eval(node.args[0], st)
        if x.kind in ("seq", "set"):
            return S_int(Q.Length(x.t))
        if x.kind == "dict":
            return S_int(Q.Length(x.py.keys))
        if x.kind == "val":
            sp = x.spec
            if sp is not None and sp.kind == "str":
                return S_int(uf("str_len", V, IntS)(x.t))
            if sp is not None and sp.kind in ("dict", "set"):
                return self.b_len_sym(unbox(sp, x.t, st))
            return S_int(Q.Length(unS(x.t)))
        raise Unsupported("len")

    def b_len_sym(self, x):
        if x.kind == "dict":
            return S_int(Q.Length(x.py.keys))
        return S_int(Q.Length(x.t))

    def class_test(self, x: Sym, cls: Sym, st):
        if cls.kind == "cls":
            self.note_class(cls.py)
            if x.kind == "cls":
                return z3.BoolVal(cls.py in ("type", "object"))
            t = box(x, st)
            return sub(typeof(t), CLASSES.const(cls.py))
        if cls.kind == "pyobj" and cls.py[0] == "builtin" and cls.py[1] == "super":
            if "super" not in CLASSES.consts:
                CLASSES.add("super", ["object"])
            self.note_class("super")
            return sub(typeof(box(x, st)), CLASSES.const("super"))
        if cls.kind == "pyobj" and cls.py[0] == "external":
            CLASSES.add(cls.py[1], ["object"]) if cls.py[1] not in CLASSES.consts else None
            self.note_class(cls.py[1])
            return sub(typeof(box(x, st)), CLASSES.const(cls.py[1]))
        if cls.kind == "seq":
            raise Unsupported("isinstance against symbolic tuple")
        if cls.kind == "val":
            # isinstance against a class held in a value: runtime class object
            t = box(x, st)
            return uf("isinstance_dyn", V, V, BoolS)(t, cls.t)
        raise Unsupported(f"isinstance against {cls}")

    def b_isinstance(self, node, st):
        x = self.eval(node.args[0], st)
        cn = node.args[1]
        if isinstance(cn, ast.Tuple):
            return S_bool(z3.Or(*[self.class_test(x, self.eval(c, st), st) for c in cn.elts]))
        return S_bool(self.class_test(x, self.eval(cn, st), st))

    def b_hasattr(self, node, st):
        x = self.eval(node.args[0], st)
        a = self.eval(node.args[1], st)
        return S_bool(uf("py_hasattr", V, V, BoolS)(box(x, st), box(a, st)))

    def b_getattr(self, node, st):
        x = self.eval(node.args[0], st)
        a = node.args[1]
        if isinstance(a, ast.Constant) and isinstance(a.value, str) and len(node.args) == 2:
            return self.getattr_sym(x, a.value, st, node)
        if isinstance(a, ast.Constant) and isinstance(a.value, str) and a.value in getattr(self.contract, "present_attrs", ()):
            # getattr(x, "name", default) for an attribute declared always present by the contract
            return self.getattr_sym(x, a.value, st, node)
        args = [box(self.eval(n, st), st) for n in node.args]
        return S_val(uf(f"py_getattr{len(args)}", *([V] * len(args)), V)(*args))

    def b_callable(self, node, st):
        return S_bool(uf("py_callable", V, BoolS)(box(self.eval(node.args[0], st), st)))

    def b_repr(self, node, st):
        return S_val(uf("py_repr", V, V)(box(self.eval(node.args[0], st), st)), Spec("str"))

    def b_id(self, node, st):
        return S_int(uf("py_id", V, IntS)(box(self.eval(node.args[0], st), st)))

    def b_hash(self, node, st):
        x = self.eval(node.args[0], st)
        c = self.reg.methods.get("__hash__")
        if c is not None and not self.spec_mode:
            return self.apply_contract(c, [x], {}, st, node, label="hash")
        return S_int(uf("py_hash", V, IntS)(box(x, st)))

    def b_print(self, node, st):
        return S_none()

    def b_abs(self, node, st):
        x = as_int(self.eval(node.args[0], st), st)
        return S_int(z3.If(x < 0, -x, x))

    def b_enumerate(self, node, st):
        it = self.eval(node.args[0], st)
        view = self.iter_view(it, st, node)
        start = z3.IntVal(0)
        if len(node.args) > 1:
            start = as_int(self.eval(node.args[1], st), st)
        for kw in node.keywords:
            if kw.arg == "start":
                start = as_int(self.eval(kw.value, st), st)
        def get(k, st_):
            return Sym("pyobj", None, None, ("pytuple", [S_int(start + k), view.get(k, st_)]))
        return Sym("pyobj", None, None, ("iterview", IterView(view.length, get, None)))

    def b_zip(self, node, st):
        views = [self.iter_view(self.eval(a, st), st, node) for a in node.args]
        n = views[0].length
        for v in views[1:]:
            n = z3.If(v.length < n, v.length, n)
        def get(k, st_):
            return Sym("pyobj", None, None, ("pytuple", [v.get(k, st_) for v in views]))
        return Sym("pyobj", None, None, ("iterview", IterView(n, get, None)))

    def zip_longest(self, node, st):
        views = [self.iter_view(self.eval(a, st), st, node) for a in node.args]
        fill = S_none()
        for kw in node.keywords:
            if kw.arg == "fillvalue":
                fill = self.eval(kw.value, st)
        n = views[0].length
        for v in views[1:]:
            n = z3.If(v.length > n, v.length, n)

        def get(k, st_):
            items = []
            for v in views:
                e = v.get(k, st_)
                items.append(self.ite(k < v.length, e, fill, st_))
            return Sym("pyobj", None, None, ("pytuple", items))
        return Sym("pyobj", None, None, ("iterview", IterView(n, get, None)))

    def flatcat(self, rows: Sym, st) -> Sym:
        """chain.from_iterable(rows): concatenation of a sequence of sequences, axiomatised by 2-D indexing:
        off(j) = start of row j in the result; row(i) = the row that result index i falls in."""
        S = rows.t
        es_rows = elem_spec(rows)
        if es_rows is not None and es_rows.kind == "opt":
            es_rows = es_rows.arg
        if es_rows is not None and es_rows.kind == "dict":
            rowseq = uf("dictkeys", V, SeqV)   # iterating a dict yields its keys
            out_spec = es_rows.arg[0]
        elif es_rows is not None and es_rows.kind == "set":
            raise Unsupported("chain.from_iterable over sets (order oracle)")
        else:
            rowseq = unS
            out_spec = es_rows.arg if es_rows is not None and es_rows.kind == "seq" and isinstance(es_rows.arg, Spec) else VAL
        r = Q._fresh_sq(st, "flat")
        binders = st.notes.get("binders") or []
        off = z3.Function(fresh_name("off"), *[b.sort() for b in binders], IntS, IntS)
        row = z3.Function(fresh_name("row"), *[b.sort() for b in binders], IntS, IntS)
        j, t, i = fresh("fj", IntS), fresh("ft", IntS), fresh("fi", IntS)
        O_ = lambda x: off(*binders, x)
        R_ = lambda x: row(*binders, x)
        rowj = rowseq(Q.At(S, j))
        st.assume(O_(z3.IntVal(0)) == 0)
        st.assume(z3.ForAll([j], z3.Implies(z3.And(0 <= j, j < Q.Length(S)), z3.And(O_(j + 1) == O_(j) + Q.Length(rowj), O_(j) >= 0)), patterns=[O_(j)]))
        st.assume(Q.Length(r) == O_(Q.Length(S)))
        st.assume(z3.ForAll([j, t], z3.Implies(z3.And(0 <= j, j < Q.Length(S), 0 <= t, t < Q.Length(rowj)),
                                              z3.And(Q.At(r, O_(j) + t) == Q.At(rowj, t), O_(j) + t < Q.Length(r), R_(O_(j) + t) == j)),
                            patterns=[Q.At(rowj, t)]))
        ri = rowseq(Q.At(S, R_(i)))
        st.assume(z3.ForAll([i], z3.Implies(z3.And(0 <= i, i < Q.Length(r)),
                                           z3.And(0 <= R_(i), R_(i) < Q.Length(S), O_(R_(i)) <= i, i < O_(R_(i)) + Q.Length(ri),
                                                  Q.At(r, i) == Q.At(ri, i - O_(R_(i))))), patterns=[Q.At(r, i)]))
        # derived membership facts (consequences of the index axioms; stated so that no index witness is needed)
        x = fresh("fx", V)
        mrow = z3.Function(fresh_name("mrow"), *[b.sort() for b in binders], V, IntS)
        M_ = lambda y: mrow(*binders, y)
        st.assume(z3.ForAll([x], z3.Implies(seq_contains(r, x), z3.And(0 <= M_(x), M_(x) < Q.Length(S), seq_contains(rowseq(Q.At(S, M_(x))), x))),
                            patterns=[seq_contains(r, x)]))
        st.assume(z3.ForAll([j, x], z3.Implies(z3.And(0 <= j, j < Q.Length(S), seq_contains(rowj, x)), seq_contains(r, x)),
                            patterns=[seq_contains(rowj, x)]))
        return Sym("seq", r, Spec("seq", out_spec or VAL))

    def b_range(self, node, st):
        a = [as_int(self.eval(x, st), st) for x in node.args]
        if len(a) == 1:
            lo, hi = z3.IntVal(0), a[0]
        elif len(a) == 2:
            lo, hi = a
        else:
            raise Unsupported("range step")
        zero = z3.is_int_value(lo) and lo.as_long() == 0
        n = z3.If(hi > 0, hi, 0) if zero else z3.If(hi > lo, hi - lo, 0)
        return Sym("pyobj", None, None, ("iterview", IterView(n, (lambda k, st_: S_int(k)) if zero else (lambda k, st_: S_int(lo + k)), None, Spec("int"), rng=(lo, hi))))

    def b_reversed(self, node, st):
        view = self.iter_view(self.eval(node.args[0], st), st, node)
        return Sym("pyobj", None, None, ("iterview", IterView(view.length, lambda k, st_: view.get(view.length - 1 - k, st_), None, view.espec)))

    def materialise(self, sym: Sym, st, node=None) -> Sym:
        """list(x)/tuple(x): a sequence with the elements of the iterable in iteration order."""
        if sym.kind == "seq":
            return sym
        view = self.iter_view(sym, st, node)
        if view.seq is not None:
            return Sym("seq", view.seq, Spec("seq", view.espec))
        r = self.fresh_term(st, "mat", SeqV)
        i = fresh("mi", IntS)
        st.assume(Q.Length(r) == view.length)
        pcn = len(st.pc)
        binders = st.notes.get("binders") or []
        st.notes["binders"] = binders + [i]
        e = view.get(i, st)
        if e.kind == "pyobj" and e.py[0] == "pytuple":
            eb = box(self.display_syms(e.py[1], st), st)
        else:
            eb = box(e, st)
        st.notes["binders"] = binders
        new = st.pc[pcn:]
        del st.pc[pcn:]
        rng = z3.And(0 <= i, i < view.length)
        for f in new:
            st.pc.append(z3.ForAll([i], z3.Implies(rng, f)))
        st.assume(z3.ForAll([i], z3.Implies(rng, Q.At(r, i) == eb)))
        return Sym("seq", r, Spec("seq", view.espec))

    def display_syms(self, items, st) -> Sym:
        parts = [Q.Unit(st, box(s, st)) for s in items]
        t = Q.Concat(st, *parts)
        return Sym("seq", t, Spec("seq", VAL, True))

    def b_list(self, node, st):
        if not node.args:
            return Sym("seq", Q.Empty(), Spec("seq", VAL, False))
        s = self.materialise(self.eval(node.args[0], st), st, node)
        return Sym("seq", s.t, Spec("seq", elem_spec(s), False))

    def b_tuple(self, node, st):
        if not node.args:
            return Sym("seq", Q.Empty(), Spec("seq", VAL, True))
        s = self.materialise(self.eval(node.args[0], st), st, node)
        return Sym("seq", s.t, Spec("seq", elem_spec(s), True))

    def b_sorted(self, node, st):
        x = self.eval(node.args[0], st)
        c = self.reg.contracts.get("builtins.sorted")
        if c is None:
            raise Unsupported("sorted without contract")
        args, kwargs = self.eval_args(node, st)
        return self.apply_contract(c, args, kwargs, st, node, label="sorted")

    def _quant(self, node, st, is_all: bool):
        a = node.args[0]
        if isinstance(a, (ast.GeneratorExp, ast.ListComp)):
            view, i, rng, elt, cond, eb = self.comp_core(a, st, need_box=False)
            b = truth(elt, st)
            if is_all:
                body = z3.Implies(rng if cond is None else z3.And(rng, cond), b)
                return S_bool(z3.ForAll([i], body))
            body = z3.And(rng, b) if cond is None else z3.And(rng, cond, b)
            return S_bool(z3.Exists([i], body))
        s = self.eval(a, st)
        view = self.iter_view(s, st, node)
        i = fresh("qi", IntS)
        rng = z3.And(0 <= i, i < view.length)
        e = truth(view.get(i, st), st)
        return S_bool(z3.ForAll([i], z3.Implies(rng, e)) if is_all else z3.Exists([i], z3.And(rng, e)))

    def b_all(self, node, st):
        return self._quant(node, st, True)

    def b_any(self, node, st):
        return self._quant(node, st, False)

    def b_max(self, node, st):
        return self._minmax(node, st, True)

    def b_min(self, node, st):
        return self._minmax(node, st, False)

    def _minmax(self, node, st, is_max):
        if len(node.args) >= 2:
            xs = [as_int(self.eval(a, st), st) for a in node.args]
            r = xs[0]
            for x in xs[1:]:
                r = z3.If((x > r) if is_max else (x < r), x, r)
            return S_int(r)
        s = self.materialise(self.eval(node.args[0], st), st, node)
        n = Q.Length(s.t)
        has_default = any(kw.arg == "default" for kw in node.keywords)
        if not has_default:
            self.may_raise(st, n == 0, "ValueError", f"{'max' if is_max else 'min'}() of empty sequence line {node.lineno}")
        r = self.fresh_term(st, "minmax", IntS)
        i = fresh("mi", IntS)
        rng = z3.And(0 <= i, i < n)
        st.assume(z3.Implies(n > 0, z3.And(
            z3.ForAll([i], z3.Implies(rng, (unI(Q.At(s.t, i)) <= r) if is_max else (unI(Q.At(s.t, i)) >= r))),
            z3.Exists([i], z3.And(rng, unI(Q.At(s.t, i)) == r)))))
        if has_default:
            d = [as_int(self.eval(kw.value, st), st) for kw in node.keywords if kw.arg == "default"][0]
            st.assume(z3.Implies(n == 0, r == d))
        return S_int(r)

    def b_sum(self, node, st):
        s = self.materialise(self.eval(node.args[0], st), st, node)
        f = uf("seq_sum", SeqV, IntS)
        i = fresh("si", IntS)
        rng = z3.And(0 <= i, i < Q.Length(s.t))
        st.assume(z3.Implies(Q.Length(s.t) == 0, f(s.t) == 0))
        st.assume(z3.Implies(z3.ForAll([i], z3.Implies(rng, unI(Q.At(s.t, i)) == 0)), f(s.t) == 0))
        st.assume(z3.Implies(z3.ForAll([i], z3.Implies(rng, unI(Q.At(s.t, i)) >= 0)),
                             z3.And(f(s.t) >= 0, z3.Implies(z3.Exists([i], z3.And(rng, unI(Q.At(s.t, i)) > 0)), f(s.t) > 0), f(s.t) <= Q.Length(s.t) * 1 + 0 if False else f(s.t) >= 0)))
        return S_int(f(s.t))

    def b_map(self, node, st):
        """map(f, xs): a sequence of the same length whose elements are an uninterpreted function of (f, element)"""
        if len(node.args) != 2:
            raise Unsupported("map arity")
        f = self.eval(node.args[0], st)
        view = self.iter_view(self.eval(node.args[1], st), st, node)
        fb = box(f, st)
        ap = uf("map_apply", V, V, V)
        return Sym("pyobj", None, None, ("iterview", IterView(view.length, lambda k, st_: S_val(ap(fb, box(view.get(k, st_), st_))), None, VAL)))

    def b_iter(self, node, st):
        return self.eval(node.args[0], st)

    def b_next(self, node, st):
        s = self.eval(node.args[0], st)
        view = self.iter_view(s, st, node)
        if len(node.args) == 1:
            self.may_raise(st, view.length == 0, "StopIteration", f"next() line {node.lineno}")
            return view.get(z3.IntVal(0), st)
        d = self.eval(node.args[1], st)
        return self.ite(view.length > 0, view.get(z3.IntVal(0), st), d, st)

    def b_issubclass(self, node, st):
        a = self.eval(node.args[0], st)
        b = self.eval(node.args[1], st)
        return S_bool(uf("py_issubclass", V, V, BoolS)(box(a, st), box(b, st)))

    def b_super(self, node, st):
        raise Unsupported("bare super()")

    def b_setattr(self, node, st):
        raise Unsupported("setattr")

    # ------------------------------------------------------------------ methods
    MUTATORS = {"append", "extend", "add", "update", "insert", "pop", "remove", "discard", "clear", "setdefault",
                "sort", "reverse", "popitem"}

    def method_call(self, base: Sym, meth: str, node: ast.Call, st: State, recv_node) -> Optional[Sym]:
        k = base.kind
        if k == "seq":
            return self.seq_method(base, meth, node, st, recv_node)
        if k == "dict":
            return self.dict_method(base, meth, node, st, recv_node)
        if k == "set":
            return self.set_method(base, meth, node, st, recv_node)
        if k == "cls":
            # classmethod / constructor-like call on a class
            q = self.qualify_method(base.py, meth)
            if q is not None and q in self.reg.contracts:
                args, kwargs = self.eval_args(node, st)
                return self.apply_contract(self.reg.contracts[q], [base] + args, kwargs, st, node, label=q)
            if base.py in ("set", "frozenset") and meth == "union" and len(node.args) == 1 and isinstance(node.args[0], ast.Starred) and not node.keywords:
                rows = self.materialise(self.eval(node.args[0].value, st), st, node)
                S = rows.t
                self.may_raise(st, Q.Length(S) == 0, "TypeError", f"set.union() without arguments line {node.lineno}")
                r = self.fresh_term(st, "setunionall", SeqV)
                x, i = fresh("ix", V), fresh("ii", IntS)
                elems = uf("setelems", V, SeqV)
                st.assume(z3.ForAll([x], seq_contains(r, x) == z3.Exists([i], z3.And(0 <= i, i < Q.Length(S), seq_contains(elems(Q.At(S, i)), x)))))
                self._assume_distinct(st, r)
                return Sym("set", r, Spec("set", VAL))
            if base.py in ("set", "frozenset") and meth == "intersection" and len(node.args) == 1 and isinstance(node.args[0], ast.Starred) and not node.keywords:
                # set.intersection(*sets): members of every set (TypeError for no argument at all)
                rows = self.materialise(self.eval(node.args[0].value, st), st, node)
                S = rows.t
                self.may_raise(st, Q.Length(S) == 0, "TypeError", f"set.intersection() without arguments line {node.lineno}")
                r = self.fresh_term(st, "setinterall", SeqV)
                x, i = fresh("ix", V), fresh("ii", IntS)
                elems = uf("setelems", V, SeqV)
                st.assume(z3.ForAll([x], seq_contains(r, x) == z3.ForAll([i], z3.Implies(z3.And(0 <= i, i < Q.Length(S)), seq_contains(elems(Q.At(S, i)), x)))))
                self._assume_distinct(st, r)
                return Sym("set", r, Spec("set", VAL))
            if base.py in ("dict", "OrderedDict") and meth == "fromkeys":
                s = self.materialise(self.eval(node.args[0], st), st, node)
                return self.dedup_dict(s, st)
            return None
        if k == "val":
            sp = base.spec
            if sp is not None and sp.kind == "opt":
                sp = sp.arg
            if sp is not None and sp.kind == "str" or meth in self.STR_METHODS and (sp is None or sp.kind == "str") and meth not in self.reg.methods:
                return self.str_method(base, meth, node, st)
            if sp is not None and sp.kind in ("dict", "set", "seq"):
                return self.method_call(unbox(sp, base.t, st), meth, node, st, recv_node)
            # statically known receiver class (self / cls) -> qualified contract
            c = None
            rc = self.static_class(recv_node, base)
            if rc is not None:
                q = self.qualify_method(rc, meth)
                if q is not None:
                    c = self.reg.contracts.get(q)
            if c is None:
                c = self.reg.methods.get(meth)
            if c is None:
                # a method name with exactly one implementation under contract: static dispatch by name
                cands = [cc for q, cc in self.reg.contracts.items() if q.endswith("." + meth) and q.split(".")[-2][:1].isupper() and getattr(cc, "unique_dispatch", False)]
                if len(cands) == 1:
                    c = cands[0]
            if c is not None:
                args, kwargs = self.eval_args(node, st)
                return self.apply_contract(c, [base] + args, kwargs, st, node, label=f".{meth}")
            args, kwargs = self.eval_args(node, st)
            if meth in self.reg.pure_externals:
                flat = [base.t] + [box(a, st) for a in args]
                return unbox(self.reg.pure_externals[meth], uf("meth:" + meth, *([V] * len(flat)), V)(*flat), st)
            return self.opaque_result(st, node, f"method .{meth}", [base] + list(args))
        return None

    def static_class(self, recv_node, base) -> Optional[str]:
        if isinstance(recv_node, ast.Name) and recv_node.id in ("self", "cls") and self.kernel.classname:
            return self.kernel.classname
        if base.spec is not None and base.spec.kind == "obj":
            return base.spec.arg
        return None

    def qualify_method(self, clsname: str, meth: str) -> Optional[str]:
        """resolve Class.meth through the source-level MRO (first base wins)."""
        seen = set()
        stack = [clsname]
        while stack:
            c = stack.pop(0)
            if c in seen:
                continue
            seen.add(c)
            hit = extract.find_class(c, self.reg.modules)
            if hit is None:
                continue
            mod, cnode = hit
            for n in cnode.body:
                if isinstance(n, (ast.FunctionDef,)) and n.name == meth:
                    return f"{mod.modname}.{c}.{meth}"
            for b in cnode.bases:
                if isinstance(b, ast.Name):
                    stack.append(b.id)
                elif isinstance(b, ast.Subscript) and isinstance(b.value, ast.Name):
                    stack.append(b.value.id)
        return None

    def super_call(self, meth, node, st):
        cname = self.kernel.classname
        hit = extract.find_class(cname, self.reg.modules)
        if hit is None:
            raise Unsupported("super() outside known class")
        _, cnode = hit
        for b in cnode.bases:
            bn = b.id if isinstance(b, ast.Name) else (b.value.id if isinstance(b, ast.Subscript) and isinstance(b.value, ast.Name) else None)
            if bn is None:
                continue
            q = self.qualify_method(bn, meth)
            if q is not None:
                c = self.reg.contracts.get(q)
                args, kwargs = self.eval_args(node, st)
                selfsym = st.env.get("self") or st.env.get("cls")
                if c is None:
                    return self.opaque_result(st, node, f"super().{meth} -> {q}", args)
                return self.apply_contract(c, [selfsym] + args, kwargs, st, node, label=f"super().{meth}")
        raise Unsupported(f"super().{meth} unresolved")

    STR_METHODS = {"strip", "startswith", "endswith", "split", "join", "format", "lower", "upper", "replace",
                   "lstrip", "rstrip", "index", "find", "splitlines", "isidentifier", "encode", "decode", "count",
                   "partition", "rpartition", "isdigit"}

    def str_method(self, base, meth, node, st):
        args, kwargs = self.eval_args(node, st)
        args = [self.materialise(a, st, node) if (not isinstance(a, tuple) and a.kind == "pyobj" and a.py[0] == "iterview") else a for a in args]
        flat = [base.t] + [box(a, st) for a in args]
        res = {"startswith": Spec("bool"), "endswith": Spec("bool"), "isidentifier": Spec("bool"), "isdigit": Spec("bool"),
               "index": Spec("int"), "find": Spec("int"), "count": Spec("int"),
               "split": Spec("seq", Spec("str"), False), "splitlines": Spec("seq", Spec("str"), False),
               "partition": Spec("seq", Spec("str"), True), "rpartition": Spec("seq", Spec("str"), True)}.get(meth, Spec("str"))
        if meth == "format":
            tmpl = base.t
            key = None
            for k_, c in CONSTS.consts.items():
                if c.eq(tmpl) and k_.startswith("str:"):
                    key = k_[4:]
            if key is not None and not kwargs and key.count("{}") == len(args):
                return self.fmt_term(key, [box(a, st) for a in args])
        if meth == "index" and not self.spec_mode:
            self.may_raise(st, z3.Not(uf("str_contains", V, V, BoolS)(base.t, flat[1])), "ValueError", f"str.index line {node.lineno}")
        f = uf("str." + meth, *([V] * len(flat)), V)
        return unbox(res, f(*flat), st)

    # -- list methods (non-mutating ones; mutators are handled at statement level) ----------------
    def seq_method(self, base, meth, node, st, recv_node):
        if meth in self.MUTATORS:
            return self.mutate(base, meth, node, st, recv_node)
        if meth == "index":
            x = self.eval(node.args[0], st)
            xb = box(x, st)
            r = self.fresh_term(st, "idx", IntS)
            self.may_raise(st, z3.Not(seq_contains(base.t, xb, st)), "ValueError", "list.index")
            i = fresh("ii", IntS)
            st.assume(z3.Implies(seq_contains(base.t, xb, st), z3.And(0 <= r, r < Q.Length(base.t), Q.At(base.t, r) == xb,
                                                                   z3.ForAll([i], z3.Implies(z3.And(0 <= i, i < r), Q.At(base.t, i) != xb)))))
            return S_int(r)
        if meth == "copy":
            return base
        if meth == "count":
            x = self.eval(node.args[0], st)
            return S_int(uf("seq_count", SeqV, V, IntS)(base.t, box(x, st)))
        raise Unsupported(f"list method {meth}")

    def dict_method(self, base, meth, node, st, recv_node):
        p = base.py
        if meth in ("setdefault", "update", "pop", "clear", "popitem"):
            return self.mutate(base, meth, node, st, recv_node)
        if meth == "get":
            k = box(self.eval(node.args[0], st), st)
            d = self.eval(node.args[1], st) if len(node.args) > 1 else S_none()
            present = seq_contains(p.keys, k, st)
            v = unbox(p.vspec, z3.Select(p.vals, k), st)
            return self.ite(present, v, d, st)
        if meth == "items":
            def get(i, st_):
                return Sym("pyobj", None, None, ("pytuple", [unbox(p.kspec, Q.At(p.keys, i), st_), unbox(p.vspec, z3.Select(p.vals, Q.At(p.keys, i)), st_)]))
            return Sym("pyobj", None, None, ("iterview", IterView(Q.Length(p.keys), get, None)))
        if meth == "keys":
            return Sym("pyobj", None, None, ("iterview", IterView(Q.Length(p.keys), lambda i, st_: unbox(p.kspec, Q.At(p.keys, i), st_), p.keys, p.kspec)))
        if meth == "values":
            return Sym("pyobj", None, None, ("iterview", IterView(Q.Length(p.keys), lambda i, st_: unbox(p.vspec, z3.Select(p.vals, Q.At(p.keys, i)), st_), None, p.vspec)))
        if meth == "copy":
            return base
        raise Unsupported(f"dict method {meth}")

    def set_method(self, base, meth, node, st, recv_node):
        if meth in self.MUTATORS:
            return self.mutate(base, meth, node, st, recv_node)
        if meth == "copy":
            return base
        raise Unsupported(f"set method {meth}")

    def dedup_dict(self, s: Sym, st) -> Sym:
        """dict.fromkeys(seq): keys = first-occurrence-ordered de-duplication of seq."""
        keys = self.fresh_term(st, "dedup", SeqV)
        x = fresh("dx", V)
        st.assume(z3.ForAll([x], seq_contains(keys, x) == seq_contains(s.t, x)))
        self._assume_distinct(st, keys)
        fo = uf("first_occ", SeqV, V, IntS)
        i, j = fresh("di", IntS), fresh("dj", IntS)
        st.assume(z3.ForAll([i, j], z3.Implies(z3.And(0 <= i, i < j, j < Q.Length(keys)), fo(s.t, Q.At(keys, i)) < fo(s.t, Q.At(keys, j)))))
        st.assume(z3.ForAll([x], z3.Implies(seq_contains(s.t, x), z3.And(0 <= fo(s.t, x), fo(s.t, x) < Q.Length(s.t), Q.At(s.t, fo(s.t, x)) == x))))
        st.assume(z3.ForAll([i], z3.Implies(z3.And(0 <= i, i < Q.Length(s.t)), fo(s.t, Q.At(s.t, i)) <= i)))
        es = elem_spec(s)
        return Sym("dict", None, Spec("dict", (es, VAL)), DictPayload(keys, z3.K(V, NONE), es, VAL))

    # ------------------------------------------------------------------ mutation of local containers / heap fields
    def store_back(self, recv_node, new: Sym, st: State):
        if isinstance(recv_node, ast.Name):
            st.env[recv_node.id] = new
            return
        if isinstance(recv_node, ast.Attribute):
            owner = self.eval(recv_node.value, st)
            if owner.kind == "val":
                st.heap[(owner.t.get_id(), recv_node.attr)] = new
                st.notes.setdefault("heap_terms", {})[(owner.t.get_id(), recv_node.attr)] = owner.t
                return
        if isinstance(recv_node, ast.Subscript) and not isinstance(recv_node.slice, ast.Slice):
            # d[k].append(x) / d[k].add(x): the mutated element is stored back into its container
            self.assign(recv_node, new, st)
            return
        txt = ast.unparse(recv_node)
        if any(txt.startswith(u) for u in self.contract.unmodelled):
            self.collector.assumptions.add(f"{self.kernel.qualname}: mutation of {txt} is outside the modelled state")
            return
        raise Unsupported(f"mutation through {txt} (aliasing not modelled)")

    def mutate(self, base: Sym, meth: str, node: ast.Call, st: State, recv_node) -> Sym:
        if self.spec_mode:
            raise Unsupported("mutation in spec")
        args = [self.eval(a, st) for a in node.args]
        if base.kind == "seq":
            if meth == "append":
                self.store_back(recv_node, Sym("seq", Q.Concat(st, base.t, Q.Unit(st, box(args[0], st))), self._widen(base.spec, args[0])), st)
                return S_none()
            if meth == "extend":
                self.store_back(recv_node, Sym("seq", Q.Concat(st, base.t, as_seq(self.materialise(args[0], st, node), st)), base.spec), st)
                return S_none()
            if meth == "insert":
                i = as_int(args[0], st)
                if z3.is_int_value(i) and i.as_long() == 0:
                    self.store_back(recv_node, Sym("seq", Q.Concat(st, Q.Unit(st, box(args[1], st)), base.t), base.spec), st)
                    return S_none()
            if meth == "pop" and not args:
                n = Q.Length(base.t)
                self.may_raise(st, n == 0, "IndexError", "pop from empty list")
                self.store_back(recv_node, Sym("seq", Q.Extract(st, base.t, z3.IntVal(0), n - 1), base.spec), st)
                return unbox(elem_spec(base), Q.At(base.t, n - 1), st)
            raise Unsupported(f"list.{meth}")
        if base.kind == "set":
            if meth == "add":
                self.store_back(recv_node, self.set_add(base, args[0], st), st)
                return S_none()
            if meth == "update":
                self.store_back(recv_node, self.set_union(base, args[0], st), st)
                return S_none()
            if meth in ("discard", "remove"):
                xb = box(args[0], st)
                if meth == "remove":
                    self.may_raise(st, z3.Not(seq_contains(base.t, xb, st)), "KeyError", f"set.remove line {node.lineno}")
                r = self.fresh_term(st, "setdel", SeqV)
                x = fresh("sx", V)
                st.assume(z3.ForAll([x], seq_contains(r, x) == z3.And(seq_contains(base.t, x), x != xb)))
                self._assume_distinct(st, r)
                self.store_back(recv_node, Sym("set", r, base.spec), st)
                return S_none()
            raise Unsupported(f"set.{meth}")
        if base.kind == "dict":
            p = base.py
            if meth == "setdefault":
                kb = box(args[0], st)
                present = seq_contains(p.keys, kb, st)
                d = args[1] if len(args) > 1 else S_none()
                db = box(d, st)
                keys = z3.If(present, p.keys, Q.Concat(st, p.keys, Q.Unit(st, kb)))
                vals = z3.If(present, p.vals, z3.Store(p.vals, kb, db))
                self.store_back(recv_node, Sym("dict", None, base.spec, DictPayload(keys, vals, p.kspec, p.vspec, p.mode)), st)
                return unbox(p.vspec, z3.If(present, z3.Select(p.vals, kb), db), st)
            if meth == "pop":
                kb = box(args[0], st)
                present = self.dict_has_pyeq(base, kb, st) if p.mode == "pyeq" else seq_contains(p.keys, kb, st)
                if len(args) < 2:
                    self.may_raise(st, z3.Not(present), "KeyError", f"dict.pop line {node.lineno}")
                    d = None
                else:
                    d = args[1]
                r = Q._fresh_sq(st, "popkeys")
                x = fresh("px", V)
                i, j = fresh("pi", IntS), fresh("pj", IntS)
                st.assume(z3.ForAll([x], seq_contains(r, x) == z3.And(seq_contains(p.keys, x), x != kb)))
                st.assume(Q.Distinct(r))
                st.assume(Q.Length(r) == Q.Length(p.keys) - z3.If(present, 1, 0))
                self.store_back(recv_node, Sym("dict", None, base.spec, DictPayload(r, p.vals, p.kspec, p.vspec, p.mode)), st)
                got = unbox(p.vspec, z3.Select(p.vals, kb), st)
                return got if d is None else self.ite(present, got, d, st)
            if meth == "update" and len(args) == 1 and args[0].kind == "dict" and p.mode == "identity":
                # d.update(o): keys of d (in place) followed by the new keys of o; values of o win
                o = args[0].py
                r = Q._fresh_sq(st, "updkeys")
                x = fresh("ux", V)
                st.assume(z3.ForAll([x], seq_contains(r, x) == z3.Or(seq_contains(p.keys, x), seq_contains(o.keys, x))))
                st.assume(Q.Distinct(r))
                st.assume(Q.PrefixOf(p.keys, r))
                vals = self.fresh_term(st, "updvals", z3.ArraySort(V, V))
                st.assume(z3.ForAll([x], z3.Select(vals, x) == z3.If(seq_contains(o.keys, x), z3.Select(o.vals, x), z3.Select(p.vals, x))))
                self.store_back(recv_node, Sym("dict", None, base.spec, DictPayload(r, vals, p.kspec, p.vspec, p.mode)), st)
                return S_none()
            raise Unsupported(f"dict.{meth}")
        raise Unsupported(f"mutate {base.kind}.{meth}")

    def _widen(self, spec, item: Sym):
        if spec is None:
            return Spec("seq", self.static_spec(item), False)
        if spec.arg == self.static_spec(item):
            return spec
        if spec.arg == VAL:
            return spec
        return Spec("seq", VAL, spec.tup)

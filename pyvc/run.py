"""Generate and discharge all obligations of a property's kernels."""
from __future__ import annotations

import importlib
import os
import sys
import time
import traceback

import z3

from . import extract
from .core import Obligation, Unsupported
from .dsl import REG
from .executor import Collector, Executor, global_axioms, load_classes
from .solve import discharge, to_smt2, relevance_slice
from .stmt import PathLimit

ROOT = os.path.dirname(os.path.dirname(os.path.abspath(__file__)))


def load_contracts():
    sys.path.insert(0, ROOT)
    for pkg in ("theory", "contracts"):
        d = os.path.join(ROOT, pkg)
        for fn in sorted(os.listdir(d)):
            if fn.endswith(".py") and not fn.startswith("_"):
                importlib.import_module(f"{pkg}.{fn[:-3]}")


C12_QUICK_PREFIXES = ("pyanalyze.value.", "pyanalyze.typevar.", "pyanalyze.type_object.", "pyanalyze.node_visitor.", "pyanalyze.stacked_scopes.uniq_chain",
                      "pyanalyze.stacked_scopes.FunctionScope.get_combined_scope", "pyanalyze.signature.Signature.validate")


class Result:
    def __init__(self):
        self.obligations = []
        self.status = {}
        self.collector = None
        self.undecided_kernels = {}
        self.crashed = {}
        self.wall = 0.0
        self.lemma_obs = []


def generate(prop: str, only=None) -> Result:
    res = Result()
    col = Collector()
    res.collector = col
    load_classes(REG.modules)
    by_product = prop == "C12"
    tier = os.environ.get("VERIF_TIER", "quick")
    for q, c in sorted(REG.contracts.items()):
        if c.kind != "kernel" or not c.verify:
            continue
        if by_product:
            # C12 (totality) is a by-product: the exception-freedom and failure-record obligations of every kernel under
            # contract; the quick tier keeps to the public value API and the failure record, the thorough tier takes all
            if tier != "thorough" and not q.startswith(C12_QUICK_PREFIXES):
                continue
        elif prop not in c.props:
            continue
        if only and only not in q:
            continue
        if getattr(c, "thorough_only", False) and tier != "thorough" and not only:
            # a kernel whose obligations take minutes: part of the thorough tier (and of explicit --only runs)
            col.assumptions.add(f"{q}: verified in the thorough tier only (solver time); not part of this quick run")
            continue
        try:
            k = extract.find_kernel(q)
        except extract.ExtractionError as e:
            res.undecided_kernels[q] = f"extraction: {e}"
            continue
        ex = Executor(k, c, REG, col)
        n0 = len(col.obligations)
        try:
            ex.run()
            for ob in col.obligations[n0:]:
                ob.info.setdefault("env", getattr(ex, "entry_env", {}))
        except (Unsupported, PathLimit) as e:
            del col.obligations[n0:]
            res.undecided_kernels[q] = f"{type(e).__name__}: {e}"
        except Exception as e:
            del col.obligations[n0:]
            res.crashed[q] = traceback.format_exc()
    # lemmas (pure logic over the contracts / theory)
    for name, props, fn in REG.lemmas:
        if prop not in props:
            continue
        if only and only not in name:
            continue
        try:
            for ob in fn():
                col.add(ob)
        except Exception:
            res.crashed["lemma:" + name] = traceback.format_exc()
    if by_product:
        col.obligations = [ob for ob in col.obligations if ob.kind in ("safety", "exc", "canary") or "#post.failure_" in ob.name]
        for ob in col.obligations:
            ob.info["by_product_of"] = ob.kernel
    res.obligations = col.obligations
    return res


def solve(res: Result, timeout_ms=10000, procs=None):
    col = res.collector
    ax = global_axioms(col.used_classes, REG)
    jobs = []
    seen = {}
    for ob in res.obligations:
        if ob.name in seen:
            seen[ob.name] += 1
            ob.name = f"{ob.name}~{seen[ob.name]}"
        else:
            seen[ob.name] = 0
        if ob.expect == "sat":
            jobs.append((ob.name, to_smt2(ax, ob.hyps, ob.goal), 3000))
        else:
            sl = relevance_slice(ob.hyps, ob.goal)
            ob.info["slice"] = (len(sl), len(ob.hyps))
            ax_sl = global_axioms(col.used_classes, REG, terms=sl + [ob.goal])
            jobs.append({"name": ob.name, "sliced": to_smt2(ax_sl, sl, ob.goal),
                         "full": to_smt2(ax, ob.hyps, ob.goal) if len(sl) < len(ob.hyps) else None})
    t0 = time.time()
    res.status = discharge(jobs, timeout_ms=timeout_ms, procs=procs)
    # second chance for time-outs (a loaded machine must not flip a verdict): triple budget, half the processes
    expect = {ob.name: ob.expect for ob in res.obligations}
    no_retry = getattr(res, "no_retry", set())   # obligations listed as known findings: their native witness decides, not the solver
    retry = [j for j in jobs if isinstance(j, dict) and res.status[j["name"]][0] == "unknown" and expect.get(j["name"]) == "unsat"
             and j["name"].split("/")[0] not in no_retry]
    if retry:
        again = discharge(retry, timeout_ms=timeout_ms * 3, procs=max(1, (procs or 16) // 2))
        for name, r in again.items():
            if r[0] != "unknown":
                res.status[name] = (r[0], r[1] + "/retry", r[2], r[3])
        # third chance: what is still open gets twelve times the budget on a quarter of the processes
        retry2 = [j for j in retry if res.status[j["name"]][0] == "unknown"]
        if retry2:
            again = discharge(retry2, timeout_ms=timeout_ms * 12, procs=max(1, (procs or 16) // 4))
            for name, r in again.items():
                if r[0] != "unknown":
                    res.status[name] = (r[0], r[1] + "/retry2", r[2], r[3])
    res.wall = time.time() - t0
    return res


def main(argv=None):
    argv = argv or sys.argv[1:]
    prop = argv[0]
    only = argv[1] if len(argv) > 1 else None
    load_contracts()
    res = generate(prop, only)
    solve(res, timeout_ms=int(os.environ.get("PYVC_TIMEOUT_MS", "10000")))
    bad = 0
    for ob in res.obligations:
        st, backend, secs, detail = res.status[ob.name]
        ok = (st == "unsat") if ob.expect == "unsat" else (st != "unsat")
        if not ok or os.environ.get("PYVC_VERBOSE"):
            print(f"{'ok ' if ok else 'FAIL'} {st:8s} {secs:6.2f}s {ob.name}   [{ob.where}]")
            if not ok and st == "sat" and os.environ.get("PYVC_MODEL"):
                print(detail)
        bad += not ok
    for q, why in res.undecided_kernels.items():
        print(f"UNDECIDED kernel {q}: {why}")
    for q, tb in res.crashed.items():
        print(f"CRASH {q}:\n{tb}")
    print(f"{len(res.obligations)} obligations, {bad} not as expected, {len(res.undecided_kernels)} undecided kernels, {len(res.crashed)} crashed; solver wall {res.wall:.1f}s")


if __name__ == "__main__":
    main()

"""The check entry point: generate, discharge, classify, replay, report (DESIGN.md §8)."""
from __future__ import annotations

import argparse
import json
import os
import re
import subprocess
import sys
import time

import z3

from . import extract
from .dsl import REG
from .executor import global_axioms
from .model import Concretizer
from .run import ROOT, generate, load_contracts, solve

KNOWN = os.path.join(ROOT, "known_findings.json")
NATIVE_PY = "/venv/bin/python"


def base_name(obname: str) -> str:
    return re.sub(r"(/[px]\d+)?(~\d+)?$", "", obname)


def load_known():
    if not os.path.exists(KNOWN):
        return {"findings": [], "fixed": []}
    with open(KNOWN) as f:
        return json.load(f)


def native_replay(path: str, timeout=120):
    """Run the native replay of a replay file against /repo's current tree.  -> (reproduced, output)"""
    env = dict(os.environ)
    env["PYTHONPATH"] = extract.REPO + os.pathsep + ROOT
    env["PYTHONHASHSEED"] = env.get("PYTHONHASHSEED", "0")
    try:
        p = subprocess.run([NATIVE_PY, os.path.join(ROOT, "replay", "native.py"), path], capture_output=True, text=True, timeout=timeout, env=env, cwd=ROOT)
    except subprocess.TimeoutExpired:
        return None, "replay timeout"
    out = (p.stdout + p.stderr).strip()
    if p.returncode == 1:
        return True, out
    if p.returncode == 0:
        return False, out
    return None, out


def counter_model(ob, col):
    """Re-solve a sat obligation in-process to obtain a model and concretise the kernel inputs."""
    from .solve import relevance_slice
    m = None
    for hyps in (ob.hyps, relevance_slice(ob.hyps, ob.goal)):
        s = z3.Solver()
        s.set("timeout", 10000)
        for a in global_axioms(col.used_classes, REG):
            s.add(a)
        for h in hyps:
            s.add(h)
        s.add(z3.Not(ob.goal))
        if s.check() == z3.sat:
            m = s.model()
            break
    if m is None:
        return None
    env = ob.info.get("env") or {}
    fields = set(REG.fields)
    c = REG.contracts.get(ob.kernel)
    if c is not None:
        fields |= set(c.fields)
        fields |= set(getattr(c, "replay_fields", []))
    cz = Concretizer(m, REG, sorted(fields))
    inputs = {}
    for name, sym in env.items():
        if name.startswith("_"):
            continue
        try:
            inputs[name] = cz.sym(sym, depth=2)
        except Exception as e:
            inputs[name] = {"$error": str(e)}
    return inputs


def _claimed_level(prop: str) -> str:
    """the level category claimed in MANIFEST.json: `proof` where the property's central kernels are proved, `exploration` where
    the statement itself is decided only by the bounded tier (the proved kernels are then auxiliary)"""
    try:
        m = json.load(open(os.path.join(ROOT, "MANIFEST.json")))
        for c in m["checks"]:
            if c["property_id"] == prop:
                return c["level_claimed"]["category"]
    except Exception:
        pass
    return "proof"


def run_check(prop: str, tier: str, seed: int, only=None):
    t0 = time.time()
    load_contracts()
    os.environ["VERIF_TIER"] = tier
    res = generate(prop, only)
    col = res.collector
    timeout_ms = 10000 if tier == "quick" else 60000
    for ob in res.obligations:
        pass
    known = load_known()
    res.no_retry = {k["obligation"] for k in known.get("findings", []) if k["property"] == prop}
    solve(res, timeout_ms=timeout_ms)
    known_for = [k for k in known.get("findings", []) if k["property"] == prop]
    lines = []
    violations = []
    undecided = []
    dead_paths = []
    canary_fail = []
    known_hit = {}
    proved = 0
    total = 0
    bounded_total = bounded_ok = 0
    by_backend = {}
    solver_time = 0.0
    samples = []
    for ob in res.obligations:
        st, backend, secs, detail = res.status[ob.name]
        solver_time += secs
        if ob.expect == "sat":
            if st == "unsat":
                (canary_fail if ob.kind == "canary" else dead_paths).append(ob.name)
            continue
        kf = None
        for kfe in known_for:
            if base_name(ob.name) == kfe["obligation"] or ob.name == kfe["obligation"]:
                kf = kfe
                known_hit.setdefault(kfe["id"], []).append((ob.name, st))
        is_bounded = bool(ob.info.get("bounded"))
        if kf is not None:
            continue
        if is_bounded:
            bounded_total += 1
        else:
            total += 1
        if st == "unsat":
            by_backend[backend] = by_backend.get(backend, 0) + 1
            if is_bounded:
                bounded_ok += 1
            else:
                proved += 1
            if len(samples) < 6 and ob.kind in ("post", "inv.preserve", "lemma", "exc"):
                samples.append({"obligation": ob.name, "kind": ob.kind, "where": ob.where, "clause": ob.info.get("clause", ""),
                                "goal": str(ob.goal)[:300], "n_hypotheses": len(ob.hyps), "verdict": st, "backend": backend, "secs": secs})
        elif st == "sat":
            violations.append((ob, detail))
        else:
            undecided.append((ob.name, st, detail[:200]))
    # ---- violations: counter-model -> replay.  Undecided obligations get a bounded native refutation
    # search through the same replayers; only a natively reproduced failure turns them into a violation.
    rdir = os.path.join(ROOT, "replays", prop)
    os.makedirs(rdir, exist_ok=True)
    for old in os.listdir(rdir):
        os.unlink(os.path.join(rdir, old))
    vio_records = []
    seen_base = set()
    replay_cache = {}
    by_name = {ob.name: ob for ob in res.obligations}

    def handle(ob, verdict, detail):
        b = base_name(ob.name)
        if b in seen_base:
            return None
        seen_base.add(b)
        inputs = None
        if verdict == "sat":
            try:
                inputs = counter_model(ob, col)
            except Exception as e:  # noqa
                inputs = {"$error": repr(e)}
        rec = {"property": prop, "obligation": ob.name, "kernel": ob.kernel, "kind": ob.kind, "where": ob.where,
               "clause": ob.info.get("clause", ""), "goal": str(ob.goal)[:2000], "solver_verdict": verdict,
               "solver_model": detail, "inputs": inputs, "repo": extract.REPO}
        fn = re.sub(r"[^A-Za-z0-9_.#-]", "_", ob.name)[:150] + ".json"
        path = os.path.join(rdir, fn)
        with open(path, "w") as f:
            json.dump(rec, f, indent=1, default=str)
        ck = (ob.kernel, json.dumps(inputs, default=str, sort_keys=True) if verdict == "sat" else base_name(ob.name).split("#")[0] + ob.info.get("clause", ""))
        if verdict != "sat" and ck in replay_cache:
            reproduced, out = replay_cache[ck]
        else:
            reproduced, out = native_replay(path)
            replay_cache[ck] = (reproduced, out)
        rec["native_replay"] = {"reproduced": reproduced, "output": (out or "")[-2000:]}
        with open(path, "w") as f:
            json.dump(rec, f, indent=1, default=str)
        return path, reproduced

    for ob, detail in violations:
        r = handle(ob, "sat", detail)
        if r is None:
            continue
        path, reproduced = r
        suffix = "" if reproduced else " no-failing-input-found"
        lines.append(f"VIOLATION property={prop} replay={path} obligation={ob.name}{suffix}")
        vio_records.append({"obligation": ob.name, "replay": path, "reproduced": reproduced, "solver": "sat"})
    still_undecided = []
    for name, st_, d in undecided:
        ob = by_name.get(name)
        r = handle(ob, st_, d) if ob is not None else None
        if r is not None and r[1]:
            lines.append(f"VIOLATION property={prop} replay={r[0]} obligation={name} (solver undecided; failing input found by bounded native search)")
            vio_records.append({"obligation": name, "replay": r[0], "reproduced": True, "solver": st_})
        else:
            still_undecided.append((name, st_, d))
    undecided = still_undecided
    # ---- mechanical source scans (each item is an obligation discharged -- or not -- by the scanner)
    scan_report = []
    for sname, sprops, sfn in REG.static_checks:
        if prop not in sprops or (only and only not in sname):
            continue
        for item in sfn():
            total += 1
            scan_report.append(item)
            if item["ok"]:
                proved += 1
                by_backend["source-scan"] = by_backend.get("source-scan", 0) + 1
            else:
                path = os.path.join(rdir, re.sub(r"[^A-Za-z0-9_.#-]", "_", "scan_" + item["name"])[:150] + ".json")
                with open(path, "w") as f:
                    json.dump({"property": prop, "obligation": item["name"], "kind": "source-scan", "detail": item["detail"], "solver_verdict": "n/a (source scan)"}, f, indent=1)
                lines.append(f"VIOLATION property={prop} replay={path} obligation={item['name']} no-failing-input-found")
                vio_records.append({"obligation": item["name"], "replay": path, "reproduced": False, "solver": "source-scan"})
    # ---- bounded native stand-ins (labelled bounded, never counted as proved)
    bounded_report = []
    explore = {"evaluations": 0, "distinct": 0, "samples": []}
    for bc in REG.bounded_checks:
        if prop not in bc["props"]:
            continue
        if only:
            continue
        rec = {"property": prop, "obligation": f"bounded:{bc['name']}", "kernel": bc["replayer"], "witness": bc["replayer"], "kind": "bounded",
               "bound": bc["bound"], "covers": bc["covers"], "solver_verdict": "n/a (bounded native check)", "repo": extract.REPO, "tier": tier,
               "seed": seed}
        path = os.path.join(rdir, re.sub(r"[^A-Za-z0-9_.#-]", "_", "bounded_" + bc["name"]) + ".json")
        with open(path, "w") as f:
            json.dump(rec, f, indent=1)
        t1 = time.time()
        reproduced, out = native_replay(path, timeout=600 if tier == "quick" else 7200)
        for line in (out or "").splitlines():
            if line.startswith("STATS "):
                try:
                    stt = json.loads(line[6:])
                    explore["evaluations"] += int(stt.get("evaluations", 0))
                    explore["distinct"] += int(stt.get("distinct", 0))
                    explore["samples"] += stt.get("samples", [])[:3]
                except Exception:
                    pass
        out = "\n".join(l for l in (out or "").splitlines() if not l.startswith("STATS "))
        rec["native_replay"] = {"reproduced": reproduced, "output": (out or "")[-2000:]}
        with open(path, "w") as f:
            json.dump(rec, f, indent=1)
        bounded_total += 1
        entry = {"name": bc["name"], "bound": bc["bound"], "covers": bc["covers"], "secs": round(time.time() - t1, 1), "result": (out or "")[-300:]}
        if reproduced is False:
            bounded_ok += 1
            entry["status"] = "held"
        elif reproduced:
            entry["status"] = "violated"
            lines.append(f"VIOLATION property={prop} replay={path} obligation=bounded:{bc['name']} (bounded native check; failing input in the replay file)")
            vio_records.append({"obligation": f"bounded:{bc['name']}", "replay": path, "reproduced": True, "solver": "bounded-native"})
        else:
            entry["status"] = "error"
            undecided.append((f"bounded:{bc['name']}", "replayer-error", (out or "")[-200:]))
        bounded_report.append(entry)
    # ---- known findings: witness replay
    kf_report = []
    for kfe in known_for:
        wit = os.path.join(ROOT, kfe["witness"])
        reproduced, out = native_replay(wit)
        hits = known_hit.get(kfe["id"], [])
        still_fails_symbolically = any(s != "unsat" for _, s in hits)
        kf_report.append({"id": kfe["id"], "obligation": kfe["obligation"], "witness_reproduces": reproduced,
                          "obligation_verdicts": hits})
        if reproduced:
            lines.append(f"KNOWN-FINDING: property={prop} {kfe['id']} {kfe['what']}")
        elif reproduced is None:
            undecided.append((kfe["obligation"], "witness-replay-error", out[-200:]))
        if not hits and not kfe["obligation"].startswith("bounded:"):
            undecided.append((kfe["obligation"], "known-finding obligation not generated", ""))
    # ---- evidence
    wall = time.time() - t0
    kernels = col.kernels
    functions = [{"function": q, "file": os.path.relpath(v["file"], extract.REPO), "line": v["line"], "sha256": v["sha256"][:16],
                  "return_paths": v["paths_return"], "raise_paths": v["paths_raise"], "loops": v["loops"],
                  "loops_with_invariant": v["loops_with_invariant"]} for q, v in sorted(kernels.items())]
    assumed = sorted({q for q, kind in col.callee_contracts if kind == "assumed"})
    verified_callees = sorted({q for q, kind in col.callee_contracts if kind == "kernel"})
    assumptions = [
        "pyvc encoding of Python semantics (DESIGN.md §2.3): mathematical ints, z3 sequences for list/tuple, insertion-ordered dict model, alias-free local containers, partial correctness (termination not proved)",
        "specification theory /verif/theory (hand-written from the property statements)",
        "z3 5.1 / cvc5 1.0.3 soundness",
    ]
    assumptions += [f"assumed (unverified) callee contract: {q}" for q in assumed]
    assumptions += [f"opaque callee (fresh result, assumed not to mutate modelled state): {x}" for x in sorted(col.opaque_calls)]
    assumptions += sorted(col.assumptions)
    for q, c in REG.contracts.items():
        if prop in c.props:
            assumptions += [f"{q}: {a}" for a in c.assumptions]
    assumptions += [f"BOUNDED: {b}" for b in sorted(col.bounded)]
    ev = {
        "property_id": prop, "tier": tier, "seed": seed, "level": _claimed_level(prop),
        "coverage": {
            "obligations": total, "discharged": proved,
            "checker_cmd": f"./check {prop} --tier {tier}",
            "trusted_base": ["CPython ast parser", "pyvc VC generator (/verif/pyvc)", "theory (/verif/theory)", "z3 5.1.0", "cvc5 1.0.3"],
            "by_backend": by_backend, "solver_time_s": round(solver_time, 2), "solver_wall_s": round(res.wall, 2),
            "functions_under_contract": functions,
            "callee_contracts_verified_elsewhere": verified_callees,
            "callee_contracts_assumed": assumed,
            "bounded_obligations": bounded_total, "bounded_discharged": bounded_ok, "bounded_checks": bounded_report,
            "undecided": [{"obligation": n, "status": s, "detail": d} for n, s, d in undecided],
            "undecided_kernels": res.undecided_kernels,
            "known_findings": kf_report, "source_scan": scan_report,
            "violations": vio_records,
            "vacuity": {"requires_satisfiable_or_unknown": sum(1 for o in res.obligations if o.kind == "canary") - len(canary_fail),
                        "contradictory_preconditions": canary_fail, "dead_paths": dead_paths,
                        "covers_checked": sum(1 for o in res.obligations if o.kind == "cover")},
            "samples": (explore["samples"] + samples) or [{"note": "no discharged sample"}],
            # exploration-style counts of the bounded native tier (measured by the replayers on this run)
            "evaluations": explore["evaluations"] + proved, "distinct_nontrivial": max(2, explore["distinct"]) if (explore["distinct"] or proved >= 2) else explore["distinct"],
            "rule": "bounded tier: " + "; ".join(f"{b['name']}: {b['bound']}" for b in bounded_report) if bounded_report else "proof obligations only",
            "order_oracle_sites": sorted(set(map(str, col.order_oracles))),
        },
        "assumptions": assumptions, "wall_s": round(wall, 2), "violations": len(vio_records),
    }
    os.makedirs(os.path.join(ROOT, "evidence"), exist_ok=True)
    with open(os.path.join(ROOT, "evidence", f"{prop}.json"), "w") as f:
        json.dump(ev, f, indent=1, default=str)
    for l in lines:
        print(l)
    print(f"[{prop}] {proved}/{total} obligations discharged ({bounded_ok}/{bounded_total} bounded), {len(vio_records)} violations, "
          f"{len(undecided)} undecided, {len(res.undecided_kernels)} undecided kernels, {len(res.crashed)} crashed, wall {wall:.1f}s")
    for n, s, d in undecided:
        print(f"UNDECIDED {n}: {s} {d}")
    for q, why in res.undecided_kernels.items():
        print(f"UNDECIDED-KERNEL {q}: {why}")
    for q, tb in res.crashed.items():
        print(f"CRASH {q}:\n{tb}")
    if res.crashed or canary_fail:
        for c in canary_fail:
            print(f"CANARY-FAILED (contradictory assumptions) {c}")
        return 3
    if vio_records:
        return 1
    if undecided or res.undecided_kernels:
        return 2
    if total == 0:
        print("no obligations generated")
        return 3
    return 0


def main():
    ap = argparse.ArgumentParser()
    ap.add_argument("prop")
    ap.add_argument("--tier", default=os.environ.get("VERIF_TIER", "quick"))
    ap.add_argument("--replay")
    ap.add_argument("--only")
    a = ap.parse_args()
    seed = int(os.environ.get("VERIF_SEED", "0"))
    if a.replay:
        reproduced, out = native_replay(a.replay)
        print(out)
        if reproduced:
            print(f"VIOLATION property={a.prop} replay={a.replay}")
            sys.exit(1)
        sys.exit(0 if reproduced is False else 2)
    sys.exit(run_check(a.prop, a.tier, seed, a.only))


if __name__ == "__main__":
    main()

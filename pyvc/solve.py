"""Discharging obligations: z3 first, cvc5 on z3's unknowns; one process per obligation in a pool."""
from __future__ import annotations

import multiprocessing as mp
import os
import subprocess
import tempfile
import time

import z3


def to_smt2(axioms, hyps, goal) -> str:
    s = z3.Solver()
    for a in axioms:
        s.add(a)
    for h in hyps:
        s.add(h)
    s.add(z3.Not(goal))
    return s.to_smt2()


def _solve_one(args):
    name, smt2, timeout_ms, use_cvc5 = args
    t0 = time.time()
    status, backend, detail = "unknown", "z3", ""
    try:
        s = z3.Solver()
        s.set("timeout", timeout_ms)
        s.from_string(smt2)
        r = s.check()
        status = str(r)
        if r == z3.sat:
            try:
                detail = str(s.model())[:4000]
            except Exception as e:  # pragma: no cover
                detail = f"<model unavailable: {e}>"
        elif r == z3.unknown:
            detail = s.reason_unknown()
    except Exception as e:
        status, detail = "error", f"{type(e).__name__}: {e}"
    t1 = time.time()
    if status == "unknown" and use_cvc5:
        st2, d2 = _cvc5(smt2, max(2, timeout_ms // 1000))
        if st2 in ("sat", "unsat"):
            status, backend, detail = st2, "cvc5", d2
    return name, status, backend, round(time.time() - t0, 3), detail


def _cvc5(smt2: str, tlimit_s: int):
    exe = "/usr/bin/cvc5"
    if not os.path.exists(exe):
        return "unknown", "no cvc5"
    text = smt2
    if "(set-logic" not in text:
        text = "(set-logic ALL)\n" + text
    text = text.replace("(set-info :status unknown)", "")
    with tempfile.NamedTemporaryFile("w", suffix=".smt2", delete=False) as f:
        f.write(text)
        path = f.name
    try:
        p = subprocess.run([exe, "--strings-exp", f"--tlimit={tlimit_s * 1000}", path], capture_output=True, text=True, timeout=tlimit_s + 5)
        out = p.stdout.strip().splitlines()
        first = out[0] if out else ""
        if first in ("sat", "unsat"):
            return first, "cvc5"
        return "unknown", (p.stdout + p.stderr)[:300]
    except Exception as e:
        return "unknown", f"cvc5: {e}"
    finally:
        os.unlink(path)


def discharge(jobs, timeout_ms=10000, procs=None, use_cvc5=True):
    """jobs: list of (name, smt2).  -> dict name -> (status, backend, secs, detail)"""
    procs = procs or min(16, os.cpu_count() or 4)
    args = [(j[0], j[1], (j[2] if len(j) > 2 and j[2] else timeout_ms), use_cvc5 and not (len(j) > 2 and j[2])) for j in jobs]
    out = {}
    if not args:
        return out
    if procs == 1 or len(args) == 1:
        for a in args:
            r = _solve_one(a)
            out[r[0]] = r[1:]
        return out
    ctx = mp.get_context("fork")
    with ctx.Pool(procs) as pool:
        for r in pool.imap_unordered(_solve_one, args, chunksize=1):
            out[r[0]] = r[1:]
    return out

"""Discharging obligations: z3 first, cvc5 on z3's unknowns; one process per obligation in a pool."""
from __future__ import annotations

import multiprocessing as mp
import os
import subprocess
import tempfile
import time

import z3


def to_smt2(axioms, hyps, goal) -> str:
    s = z3.Solver()
    for a in axioms:
        s.add(a)
    for h in hyps:
        s.add(h)
    s.add(z3.Not(goal))
    return s.to_smt2()


def fresh_symbols(t, cache=None) -> frozenset:
    """names of the *fresh* symbols (path-local constants and Skolem functions: they carry a '!')"""
    out = set()
    seen = set()
    stack = [t]
    while stack:
        x = stack.pop()
        i = x.get_id()
        if i in seen:
            continue
        seen.add(i)
        if z3.is_quantifier(x):
            stack.append(x.body())
        elif z3.is_app(x):
            d = x.decl()
            if d.kind() == z3.Z3_OP_UNINTERPRETED:
                n = d.name()
                if "!" in n:
                    out.add(n)
            stack.extend(x.children())
    return frozenset(out)


def const_names(terms) -> set:
    """names of the 0-ary uninterpreted constants occurring in the given terms"""
    out = set()
    seen = set()
    stack = list(terms)
    while stack:
        x = stack.pop()
        i = x.get_id()
        if i in seen:
            continue
        seen.add(i)
        if z3.is_quantifier(x):
            stack.append(x.body())
        elif z3.is_app(x):
            if x.num_args() == 0 and x.decl().kind() == z3.Z3_OP_UNINTERPRETED:
                out.add(x.decl().name())
            else:
                stack.extend(x.children())
    return out


def relevance_slice(hyps, goal):
    """cone of influence: hypotheses connected to the goal through shared fresh symbols (dropping
    hypotheses is sound for proving; a `sat` on the slice is re-examined on the full set)"""
    syms = [fresh_symbols(h) for h in hyps]
    rel = set(fresh_symbols(goal))
    if not rel:
        # goal `False` (a path that must be infeasible): seed with the condition that opened the path
        for sy in reversed(syms):
            if sy:
                rel = set(sy)
                break
    keep = [len(s) == 0 for s in syms]
    changed = True
    while changed:
        changed = False
        for i, s in enumerate(syms):
            if not keep[i] and s & rel:
                keep[i] = True
                rel |= s
                changed = True
    return [h for h, k in zip(hyps, keep) if k]


def _z3_check(smt2, timeout_ms):
    status, detail = "unknown", ""
    try:
        s = z3.Solver()
        s.set("timeout", timeout_ms)
        s.from_string(smt2)
        r = s.check()
        status = str(r)
        if r == z3.sat:
            try:
                detail = str(s.model())[:4000]
            except Exception as e:  # pragma: no cover
                detail = f"<model unavailable: {e}>"
        elif r == z3.unknown:
            detail = s.reason_unknown()
    except Exception as e:
        status, detail = "error", f"{type(e).__name__}: {e}"
    return status, detail


def _solve_sliced(args):
    """(name, sliced_smt2, full_smt2, timeout_ms, use_cvc5): slice first (sound for unsat), then full."""
    name, sliced, full, timeout_ms, use_cvc5 = args
    t0 = time.time()
    st1, d1 = _z3_check(sliced, timeout_ms)
    if st1 == "unsat":
        return name, "unsat", "z3/slice", round(time.time() - t0, 3), ""
    if st1 == "unknown" and use_cvc5:
        st_c, d_c = _cvc5(sliced, max(2, timeout_ms // 1000))
        if st_c == "unsat":
            return name, "unsat", "cvc5/slice", round(time.time() - t0, 3), ""
    if full is None:
        return name, st1, "z3/slice", round(time.time() - t0, 3), d1
    st2, d2 = _z3_check(full, timeout_ms)
    if st2 in ("unsat", "sat"):
        return name, st2, "z3", round(time.time() - t0, 3), d2
    if use_cvc5:
        st_c, d_c = _cvc5(full, max(2, timeout_ms // 1000))
        if st_c in ("sat", "unsat"):
            return name, st_c, "cvc5", round(time.time() - t0, 3), d_c
    if st1 == "sat":
        # refuted on the cone of influence of the goal, full query undecided: reported as a failed
        # obligation (the counter-model is replayed natively before anything is claimed about the code)
        return name, "sat", "z3/slice-only", round(time.time() - t0, 3), d1
    return name, "unknown", "z3", round(time.time() - t0, 3), d2


def _solve_one(args):
    if len(args) == 5:
        return _solve_sliced(args)
    name, smt2, timeout_ms, use_cvc5 = args
    t0 = time.time()
    status, backend, detail = "unknown", "z3", ""
    try:
        s = z3.Solver()
        s.set("timeout", timeout_ms)
        s.from_string(smt2)
        r = s.check()
        status = str(r)
        if r == z3.sat:
            try:
                detail = str(s.model())[:4000]
            except Exception as e:  # pragma: no cover
                detail = f"<model unavailable: {e}>"
        elif r == z3.unknown:
            detail = s.reason_unknown()
    except Exception as e:
        status, detail = "error", f"{type(e).__name__}: {e}"
    t1 = time.time()
    if status == "unknown" and use_cvc5:
        st2, d2 = _cvc5(smt2, max(2, timeout_ms // 1000))
        if st2 in ("sat", "unsat"):
            status, backend, detail = st2, "cvc5", d2
    return name, status, backend, round(time.time() - t0, 3), detail


def _cvc5(smt2: str, tlimit_s: int):
    exe = "/usr/bin/cvc5"
    if not os.path.exists(exe):
        return "unknown", "no cvc5"
    text = smt2
    if "(set-logic" not in text:
        text = "(set-logic ALL)\n" + text
    text = text.replace("(set-info :status unknown)", "")
    with tempfile.NamedTemporaryFile("w", suffix=".smt2", delete=False) as f:
        f.write(text)
        path = f.name
    try:
        p = subprocess.run([exe, "--strings-exp", f"--tlimit={tlimit_s * 1000}", path], capture_output=True, text=True, timeout=tlimit_s + 5)
        out = p.stdout.strip().splitlines()
        first = out[0] if out else ""
        if first in ("sat", "unsat"):
            return first, "cvc5"
        return "unknown", (p.stdout + p.stderr)[:300]
    except Exception as e:
        return "unknown", f"cvc5: {e}"
    finally:
        os.unlink(path)


def discharge(jobs, timeout_ms=10000, procs=None, use_cvc5=True):
    """jobs: list of (name, smt2).  -> dict name -> (status, backend, secs, detail)"""
    procs = procs or min(16, os.cpu_count() or 4)
    args = []
    for j in jobs:
        if isinstance(j, dict):
            args.append((j["name"], j["sliced"], j.get("full"), j.get("timeout") or timeout_ms, use_cvc5 and not j.get("timeout")))
        else:
            args.append((j[0], j[1], (j[2] if len(j) > 2 and j[2] else timeout_ms), use_cvc5 and not (len(j) > 2 and j[2])))
    out = {}
    if not args:
        return out
    if procs == 1 or len(args) == 1:
        for a in args:
            r = _solve_one(a)
            out[r[0]] = r[1:]
        return out
    ctx = mp.get_context("fork")
    with ctx.Pool(procs) as pool:
        for r in pool.imap_unordered(_solve_one, args, chunksize=1):
            out[r[0]] = r[1:]
    return out

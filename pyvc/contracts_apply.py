"""Applying a callee's contract at a call site (assert requires, assume ensures on fresh result),
constructors of repo classes, and spec-mode evaluation helpers."""
from __future__ import annotations

import ast
from typing import Optional

import z3

from pyvc import seqs as Q

from . import extract
from .core import (CLASSES, CONSTS, NONE, SeqV, V, O, K, IntS, BoolS, Spec, VAL, Sym, State, DictPayload,
                   ExcInfo, Obligation, S_bool, S_int, S_none, S_seq, S_str, S_val, Unsupported, fresh,
                   fresh_name, parse_spec, sub, typeof, truthy, unS, unI)
from .values import as_int, as_seq, box, elem_spec, fld, isa, truth, uf, unbox


class ContractMixin:
    # ------------------------------------------------------------------ signature of a callee
    def callee_signature(self, c):
        """(positional names, vararg, kwonly names, defaults{name: ast}) from the *real* def when the
        contract names a repo function; from the contract's declared params otherwise."""
        q = c.qualname
        if not q.startswith(("method:", "property:", "builtins.")):
            try:
                k = extract.find_kernel(q)
            except extract.ExtractionError:
                k = None
            if k is not None:
                a = k.node.args
                pos = [x.arg for x in a.posonlyargs + a.args]
                defaults = {}
                for name, d in zip(reversed(pos), reversed(a.defaults)):
                    defaults[name] = (d, k.module)
                kwonly = [x.arg for x in a.kwonlyargs]
                for name, d in zip(kwonly, a.kw_defaults):
                    if d is not None:
                        defaults[name] = (d, k.module)
                return pos, (a.vararg.arg if a.vararg else None), kwonly, defaults, (a.kwarg.arg if a.kwarg else None)
        names = list(c.params)
        var = [n for n in names if n.startswith("*")]
        if var:
            # declared-only contract with a variadic parameter: c.param("*values", "tuple")
            v = var[0][1:]
            if v not in c.params:
                c.params[v] = c.params[var[0]]
            return [n for n in names if not n.startswith("*") and n != v], v, [], {}, None
        return names, None, [], {}, None

    def bind_call(self, c, args, kwargs, st, label):
        pos, vararg, kwonly, defaults, kwarg = self.callee_signature(c)
        env = {}
        if vararg is not None:
            # positional parameters first, then everything else (plain and starred, in order) goes to *vararg
            parts = []
            npos = 0
            for a in args:
                starred = isinstance(a, tuple) and a[0] == "*"
                if not starred and npos < len(pos) and not parts:
                    env[pos[npos]] = a
                    npos += 1
                elif starred:
                    parts.append(as_seq(self.materialise(a[1], st), st))
                else:
                    parts.append(Q.Unit(st, box(a, st)))
            t = Q.Concat(st, *parts)
            env[vararg] = Sym("seq", t, c.params.get(vararg) or Spec("seq", VAL, True))
        else:
            flat = []
            for a in args:
                if isinstance(a, tuple) and a[0] == "*":
                    raise Unsupported(f"{label}: star-args for contract binding")
                flat.append(a)
            if len(flat) > len(pos):
                raise Unsupported(f"{label}: too many positionals for contract binding")
            for name, a in zip(pos, flat):
                env[name] = a
        for k_, v in kwargs.items():
            if k_ == "**":
                raise Unsupported(f"{label}: **kwargs at call")
            if k_ in env:
                raise Unsupported(f"{label}: duplicate argument {k_}")
            if k_ not in pos and k_ not in kwonly and k_ not in c.params:
                raise Unsupported(f"{label}: unknown keyword {k_}")
            env[k_] = v
        for name in pos + kwonly:
            if name not in env:
                if name in defaults:
                    d, mod = defaults[name]
                    env[name] = self.eval_default(d, mod, st)
                elif name in c.params and c.qualname.startswith(("method:", "builtins.", "local:")):
                    env[name] = S_none()  # optional params of declared-only contracts default to None
                else:
                    raise Unsupported(f"{label}: missing argument {name}")
        # coerce kinds to declared specs (boxing/unboxing) so spec expressions see the declared kinds
        for name, sp in c.params.items():
            if name in env:
                env[name] = self.coerce(env[name], sp, st)
        return env

    def eval_default(self, d, mod, st):
        saved_mod, saved_env = self.module, st.env
        self.module, st.env = mod, {}
        try:
            return self.eval(d, st)
        except Unsupported:
            return S_val(self.fresh_term(st, "default", V))
        finally:
            self.module, st.env = saved_mod, saved_env

    def coerce(self, sym: Sym, sp: Spec, st) -> Sym:
        k = sp.kind
        if k in ("val", "obj", "opt", "str", "prim"):
            if sym.kind == "val":
                return Sym("val", sym.t, sym.spec or sp)
            if sym.kind in ("cls", "func", "pyobj"):
                if sym.kind == "pyobj":
                    return sym
                return S_val(box(sym, st), sp)
            return S_val(box(sym, st), sp)
        if k == "int":
            return S_int(as_int(sym, st))
        if k == "bool":
            return S_bool(truth(sym, st)) if sym.kind != "bool" else sym
        if k == "seq":
            if sym.kind == "seq":
                return Sym("seq", sym.t, Spec("seq", sp.arg if sym.spec is None or sym.spec.arg == VAL else sym.spec.arg, sym.spec.tup if sym.spec else sp.tup))
            if sym.kind == "pyobj":
                m = self.materialise(sym, st)
                return Sym("seq", m.t, sp)
            return Sym("seq", as_seq(sym, st), sp)
        if k in ("dict", "set"):
            if sym.kind == k:
                return sym
            if sym.kind == "val":
                return unbox(sp, sym.t, st)
            if k == "set" and sym.kind == "seq":
                return sym
        return sym

    # ------------------------------------------------------------------ spec evaluation
    def contract_module(self, c):
        """the module whose namespace a contract's clauses are written in (the callee's own module)"""
        m = getattr(c, "_module", None)
        if m is None:
            try:
                modname, _ = extract.split_qualname(c.qualname)
                m = extract.get_module(modname)
            except Exception:
                m = False
            c._module = m
        return m or None

    def spec_bool(self, clause, st: State, env: dict, old=None, module=None):
        """Evaluate a clause (Python expression) to a z3 Bool in spec mode."""
        saved_module = self.module
        if module is not None:
            self.module = module
        try:
            return self._spec_bool(clause, st, env, old)
        finally:
            self.module = saved_module

    def _spec_bool(self, clause, st: State, env: dict, old=None):
        saved = (self.spec_mode, st.env, st.notes.get("old_ctx"), st.guards)
        self.spec_mode = True
        st.env = dict(env)
        st.guards = []
        if old is not None:
            st.notes["old_ctx"] = old
        try:
            return self.eval_bool(clause.parsed(), st)
        finally:
            self.spec_mode, st.env, oc, st.guards = saved
            st.notes["old_ctx"] = oc

    def spec_call(self, name: str, node: ast.Call, st: State) -> Optional[Sym]:
        if name == "implies":
            a = self.eval_bool(node.args[0], st)
            st.guards.append(a)
            b = self.eval_bool(node.args[1], st)
            st.guards.pop()
            return S_bool(z3.Implies(a, b))
        if name == "iff":
            return S_bool(self.eval_bool(node.args[0], st) == self.eval_bool(node.args[1], st))
        if name == "ite":
            return self.ite(self.eval_bool(node.args[0], st), self.eval(node.args[1], st), self.eval(node.args[2], st), st)
        if name == "old":
            ctx = st.notes.get("old_ctx")
            if ctx is None:
                return self.eval(node.args[0], st)
            env, heap = ctx
            saved = (st.env, st.heap)
            st.env = dict(st.env)
            st.env.update(env)
            st.heap = heap
            try:
                return self.eval(node.args[0], st)
            finally:
                st.env, st.heap = saved
        if name in ("forall", "exists"):
            lam = node.args[0]
            sorts = [a.value for a in node.args[1:]] or ["int"] * len(lam.args.args)
            consts = []
            saved = dict(st.env)
            for a, sname in zip(lam.args.args, sorts):
                if sname == "int":
                    c = fresh(a.arg, IntS)
                    st.env[a.arg] = S_int(c)
                elif sname == "val":
                    c = fresh(a.arg, V)
                    st.env[a.arg] = S_val(c)
                elif sname == "obj":
                    c = fresh(a.arg, O)
                    st.env[a.arg] = Sym("robj", c)
                elif sname == "seq":
                    c = fresh(a.arg, SeqV)
                    st.env[a.arg] = Sym("seq", c, Spec("seq", VAL))
                elif sname == "cls":
                    c = fresh(a.arg, K)
                    st.env[a.arg] = Sym("rcls", c)
                else:
                    raise Unsupported(f"quantifier sort {sname}")
                consts.append(c)
            binders = st.notes.get("binders") or []
            st.notes["binders"] = binders + consts
            pc_before = len(st.pc)
            try:
                body = self.eval_bool(lam.body, st)
            finally:
                st.notes["binders"] = binders
                st.env = saved
            newf = st.pc[pc_before:]
            del st.pc[pc_before:]
            for f in newf:
                used = [c for c in consts if self._mentions(f, c)]
                st.pc.append(z3.ForAll(used, f) if used else f)
            return S_bool(z3.ForAll(consts, body) if name == "forall" else z3.Exists(consts, body))
        if name == "typeis":
            x = self.eval(node.args[0], st)
            cn = node.args[1]
            names = [c.id for c in cn.elts] if isinstance(cn, ast.Tuple) else [cn.id]
            for n in names:
                self.note_class(n)
            return S_bool(z3.Or(*[typeof(box(x, st)) == CLASSES.const(n) for n in names]))
        if name == "isa":
            x = self.eval(node.args[0], st)
            cn = node.args[1]
            names = [c.id for c in cn.elts] if isinstance(cn, ast.Tuple) else [cn.id]
            for n in names:
                self.note_class(n)
            return S_bool(z3.Or(*[isa(box(x, st), n) for n in names]))
        if name == "call_result":
            g = st.notes.get("ghost_appends") or {}
            key = node.args[0].value
            ev = g.get(key) or Sym("seq", Q.Empty(), Spec("seq", VAL))
            k = as_int(self.eval(node.args[1], st), st)
            rv = uf("rec:" + key, V, IntS, V)(Q.At(ev.t, k), k)
            rspec = getattr(self.contract, "record_result_specs", {}).get(key)
            return unbox(rspec, rv, st, facts=False) if rspec is not None else S_val(rv)
        if name == "call_args":
            g = st.notes.get("ghost_appends") or {}
            ev = g.get(node.args[0].value) or Sym("seq", Q.Empty(), Spec("seq", VAL))
            k = as_int(self.eval(node.args[1], st), st)
            return Sym("seq", unS(Q.At(ev.t, k)), Spec("seq", VAL, True))
        if name == "final":
            # ghost: the value of a local variable of the kernel at the return point (None when unbound on this path)
            fe = st.notes.get("final_env") or {}
            return fe.get(node.args[0].value) or S_none()
        if name == "appended":
            # ghost: what the kernel appended to an unmodelled container (by receiver text)
            g = st.notes.get("ghost_appends") or {}
            return g.get(node.args[0].value) or Sym("seq", Q.Empty(), Spec("seq", VAL))
        if name == "truthy":
            return S_bool(truth(self.eval(node.args[0], st), st))
        if name == "field":
            x = self.eval(node.args[0], st)
            return unbox(self.field_spec(node.args[1].value), fld(node.args[1].value)(box(x, st)), st)
        if name in self.reg.theory:
            args, kwargs = self.eval_args(node, st)
            return self.reg.theory[name](self, st, *args, **kwargs)
        return None

    # ------------------------------------------------------------------ contract application
    def apply_contract(self, c, args, kwargs, st: State, node, label="") -> Sym:
        where = f"{label} line {getattr(node, 'lineno', '?')}"
        env = self.bind_call(c, args, kwargs, st, label)
        self.collector.callee_contracts.add((c.qualname, c.kind))
        if self.spec_mode:
            # a spec may mention a contracted *pure* function: its result is the uninterpreted image
            flat = [box(v, st) for k_, v in env.items() if v.kind != "pyobj"]
            f = uf("fn:" + (getattr(c, "fn_name", None) or c.qualname), *([V] * len(flat)), V)
            return unbox(c.result, f(*flat) if flat else CONSTS.get("fn", c.qualname), st)
        # ghost lets of the callee contract
        cmod = self.contract_module(c)
        param_env = dict(env)  # the arguments proper (ghost lets are not arguments of the function)
        for name, expr in c.lets:
            env[name] = self.spec_value(expr, st, env, module=cmod)
        # preconditions become obligations of the caller
        for cl in c.requires_:
            goal = self.spec_bool(cl, st, env, module=cmod)
            self.collector.add(Obligation(f"{self.kernel.qualname}#pre.{c.qualname.split('.')[-1]}.{cl.name}@{getattr(node, 'lineno', 0)}",
                                          "pre", st.hyps(), goal, where, self.kernel.qualname))
        # exceptions
        raise_conds = []
        for exc, when in c.exc_.items():
            if when is not None:
                w = self.spec_bool(when, st, env, module=cmod)
                if when.on == "iff":
                    cond = w
                else:
                    r = self.fresh_term(st, "raises", BoolS)
                    st.assume(z3.Implies(r, w))
                    cond = r
            else:
                cond = self.fresh_term(st, "raises", BoolS)
            raise_conds.append(cond)
            self.may_raise(st, cond, exc, where)
        # frame: havoc declared heap locations
        old_heap = dict(st.heap)
        for loc in c.modifies_:
            self.havoc_location(loc, st, env)
        # result
        if c.generator:
            rs = c.result if c.result.kind == "seq" else Spec("seq", c.result)
            if getattr(c, "functional", False):
                flat = [box(v, st) for v in param_env.values() if v.kind != "pyobj"]
                f = uf("fn:" + (getattr(c, "fn_name", None) or c.qualname), *([V] * len(flat)), V)
                res = Sym("seq", unS(f(*flat) if flat else CONSTS.get("fn", c.qualname)), rs)
            else:
                res = Sym("seq", self.fresh_term(st, "yielded", SeqV), rs)
        else:
            res = self.fresh_result(c, param_env, st)
        env2 = dict(env)
        env2["result"] = res
        if c.generator:
            env2["yielded"] = res
        ok = z3.Not(z3.Or(*raise_conds)) if raise_conds else None
        for cl in c.ensures_:
            if cl.on == "raise":
                continue
            f = self.spec_bool(cl, st, env2, old=(env, old_heap), module=cmod)
            st.assume(f if ok is None else z3.Implies(ok, f))
        return res

    def fresh_result(self, c, env, st) -> Sym:
        if getattr(c, "functional", False):
            # deterministic pure function of its arguments: the same uninterpreted image in code and spec
            flat = [box(v, st) for v in env.values() if v.kind != "pyobj"]
            f = uf("fn:" + (getattr(c, "fn_name", None) or c.qualname), *([V] * len(flat)), V)
            t = f(*flat) if flat else CONSTS.get("fn", c.qualname)
            return unbox(c.result, t, st)
        return self.fresh_sym(st, "res_" + c.qualname.split(".")[-1].replace(":", "_"), c.result)

    def spec_value(self, expr: str, st, env, module=None) -> Sym:
        saved_module = self.module
        if module is not None:
            self.module = module
        try:
            return self._spec_value(expr, st, env)
        finally:
            self.module = saved_module

    def _spec_value(self, expr: str, st, env) -> Sym:
        saved = (self.spec_mode, st.env, st.guards)
        self.spec_mode = True
        st.env = dict(env)
        st.guards = []
        try:
            return self.eval(ast.parse(expr.strip(), mode="eval").body, st)
        finally:
            self.spec_mode, st.env, st.guards = saved

    def havoc_location(self, loc: str, st, env):
        node = ast.parse(loc, mode="eval").body
        if not isinstance(node, ast.Attribute):
            raise Unsupported(f"modifies {loc}")
        saved = st.env
        st.env = dict(env)
        try:
            owner = self.eval(node.value, st)
            cur = self.getattr_sym(owner, node.attr, st)
        finally:
            st.env = saved
        new = self.like(st, "havoc_" + node.attr, cur)
        st.heap[(owner.t.get_id(), node.attr)] = new
        st.notes.setdefault("heap_terms", {})[(owner.t.get_id(), node.attr)] = owner.t

    # ------------------------------------------------------------------ constructors
    def construct(self, clsname: str, node: ast.Call, st: State) -> Sym:
        hit = extract.find_class(clsname, self.reg.modules)
        q = f"{hit[0].modname}.{clsname}" if hit else clsname
        c = self.reg.contracts.get(q)
        if c is not None:
            args, kwargs = self.eval_args(node, st)
            return self.apply_contract(c, args, kwargs, st, node, label=q)
        if clsname in ("list", "tuple", "set", "frozenset", "dict", "str", "int", "bool"):
            return self.builtin_construct(clsname, node, st)
        if clsname == "type" and len(node.args) == 1 and not node.keywords:
            # type(x): the class object of x, a function of x
            return S_val(uf("py_type", V, V)(box(self.eval(node.args[0], st), st)))
        self.note_class(clsname)
        args, kwargs = self.eval_args(node, st)
        fields = extract.dataclass_fields(clsname, self.reg.modules) if hit else None
        is_dc = hit is not None and (any("dataclass" in ast.unparse(d) for d in hit[1].decorator_list)
                                     or any(ast.unparse(b) in ("NamedTuple", "typing.NamedTuple") for b in hit[1].bases))
        anc_dc = is_dc
        if hit is not None and not is_dc:
            # inherited dataclass-ness (subclass of a dataclass without its own decorator keeps __init__)
            for a in CLASSES.ancestors(clsname):
                h2 = extract.find_class(a, self.reg.modules)
                if h2 and any("dataclass" in ast.unparse(d) for d in h2[1].decorator_list):
                    anc_dc = True
        custom_init = hit is not None and extract.has_method(clsname, "__init__", self.reg.modules)
        o = None
        if anc_dc and fields and not custom_init:
            init_fields = [f for f in fields if f["init"]]
            vals = {}
            plain = [a for a in args if not isinstance(a, tuple)]
            if len(plain) != len(args) or len(plain) > len(init_fields):
                raise Unsupported(f"constructor {clsname}: star-args / arity")
            for f, a in zip(init_fields, plain):
                vals[f["name"]] = a
            for k_, v in kwargs.items():
                vals[k_] = v
            for f in init_fields:
                if f["name"] not in vals:
                    if f["default"] is None:
                        raise Unsupported(f"constructor {clsname}: missing {f['name']}")
                    vals[f["name"]] = self.eval_default(f["default"], hit[0], st)
            # dataclass instances are *values*: the object is a function of its field values, so two
            # constructions with equal fields are the same term (assumption: identity of structurally
            # equal dataclass instances is never observed by the kernels)
            boxed = [(f["name"], box(vals[f["name"]], st)) for f in init_fields if vals[f["name"]].kind != "pyobj"]
            ctor = uf("new_" + clsname, *([V] * len(boxed)), V)
            o = ctor(*[b for _, b in boxed]) if boxed else CONSTS.get("new", clsname)
            st.assume(typeof(o) == CLASSES.const(clsname))
            st.assume(o != NONE)
            for name, b in boxed:
                st.assume(fld(name)(o) == b)
            if extract.has_method(clsname, "__post_init__", self.reg.modules):
                self.collector.assumptions.add(f"{clsname}.__post_init__ not modelled at construction in {self.kernel.qualname}")
        else:
            o = self.fresh_term(st, "new_" + clsname, V)
            st.assume(typeof(o) == CLASSES.const(clsname))
            st.assume(o != NONE)
            # exception classes and plain classes: arguments are recorded positionally
            for i, a in enumerate(args):
                if not isinstance(a, tuple) and a.kind != "pyobj":
                    st.assume(uf(f"ctor_arg{i}", V, V)(o) == box(a, st))
        return S_val(o, Spec("obj", clsname))

    def builtin_construct(self, clsname, node, st) -> Sym:
        if clsname == "list":
            return self.b_list(node, st)
        if clsname == "tuple":
            return self.b_tuple(node, st)
        if clsname in ("set", "frozenset"):
            if not node.args:
                return Sym("set", Q.Empty(), Spec("set", VAL))
            s = self.eval(node.args[0], st)
            if s.kind == "set":
                return s
            m = self.materialise(s, st, node)
            d = self.dedup_dict(m, st)
            return Sym("set", d.py.keys, Spec("set", elem_spec(m)))
        if clsname == "dict":
            if not node.args and not node.keywords:
                return Sym("dict", None, Spec("dict", (VAL, VAL)), DictPayload(Q.Empty(), z3.K(V, NONE)))
            if len(node.args) == 1:
                s = self.eval(node.args[0], st)
                if s.kind == "dict":
                    return s
                if s.kind == "val":
                    sp = s.spec.arg if (s.spec is not None and s.spec.kind == "opt") else s.spec
                    if sp is not None and sp.kind == "dict":
                        return unbox(sp, s.t, st)
            raise Unsupported("dict(...) constructor form")
        if clsname == "str":
            x = self.eval(node.args[0], st)
            if x.kind == "val" and x.spec is not None and x.spec.kind == "str":
                return x
            return S_val(uf("py_str", V, V)(box(x, st)), Spec("str"))
        if clsname == "int":
            x = self.eval(node.args[0], st)
            if x.kind in ("int", "bool"):
                return S_int(as_int(x, st))
            return S_int(uf("py_int", V, IntS)(box(x, st)))
        if clsname == "bool":
            return S_bool(truth(self.eval(node.args[0], st), st))
        raise Unsupported(f"builtin constructor {clsname}")

"""Sorts, symbolic values, states and obligations of the VC generator.

Encoding of Python semantics (DESIGN.md §2.3) in one place:

* one universal sort ``V`` of Python values; ``K`` of classes (``typeof: V -> K``,
  ``sub: K x K -> Bool`` reflexive/transitive, ground facts read from the repo's class
  statements); ``O`` of *runtime* objects that the specification theory quantifies over
  (never the target of a function from ``O``: the O-part of every query stays in EPR);
* ints are mathematical (``mkI/unI``), bools (``mkB/unB``), lists/tuples are z3
  sequences of ``V`` (``mkL/mkT/unS``) with CPython negative-index normalisation done by
  the executor; boxing facts are instantiated at the boxing site, never as global
  quantified axioms (solver discipline, DESIGN.md §2.6).
"""
from __future__ import annotations

import itertools
from dataclasses import dataclass, field
from typing import Any, Optional

import z3

from . import seqs as Q
from .seqs import V
K = z3.DeclareSort("K")
O = z3.DeclareSort("O")
SeqV = Q.Sq
IntS = z3.IntSort()
BoolS = z3.BoolSort()

mkI = z3.Function("mkI", IntS, V)
unI = z3.Function("unI", V, IntS)
mkB = z3.Function("mkB", BoolS, V)
unB = z3.Function("unB", V, BoolS)
mkL = z3.Function("mkL", SeqV, V)
mkT = z3.Function("mkT", SeqV, V)
unS = z3.Function("unS", V, SeqV)
typeof = z3.Function("typeof", V, K)
sub = z3.Function("sub", K, K, BoolS)
truthy = z3.Function("truthy", V, BoolS)
pyeq = z3.Function("pyeq", V, V, BoolS)
NONE = z3.Const("None", V)

_counter = itertools.count()


def fresh_name(prefix: str) -> str:
    return f"{prefix}!{next(_counter)}"


def fresh(prefix: str, sort) -> z3.ExprRef:
    return z3.Const(fresh_name(prefix), sort)


# ---------------------------------------------------------------------------
# class constants


class ClassTable:
    """Class constants of sort K and the subclass facts read from source."""

    def __init__(self):
        self.consts: dict[str, z3.ExprRef] = {}
        self.bases: dict[str, list[str]] = {}
        self.closed = False
        self.final: set[str] = set()  # classes assumed to have no subclasses (closed hierarchy)

    def const(self, name: str) -> z3.ExprRef:
        if name not in self.consts:
            self.consts[name] = z3.Const(f"K_{name}", K)
            self.bases.setdefault(name, [])
        return self.consts[name]

    def add(self, name: str, bases: list[str]):
        self.const(name)
        self.bases[name] = list(bases)
        for b in bases:
            self.const(b)

    def ancestors(self, name: str) -> set[str]:
        out = {name}
        stack = [name]
        while stack:
            n = stack.pop()
            for b in self.bases.get(n, []):
                if b not in out:
                    out.add(b)
                    stack.append(b)
        return out

    def axioms(self, used: Optional[set[str]] = None) -> list[z3.BoolRef]:
        a, b, c = z3.Consts("ka kb kc", K)
        ax = [
            z3.ForAll([a], sub(a, a)),
            z3.ForAll([a, b, c], z3.Implies(z3.And(sub(a, b), sub(b, c)), sub(a, c))),
        ]
        names = sorted(self.consts if used is None else (used & set(self.consts)))
        # close under ancestors
        full = set()
        for n in names:
            full |= self.ancestors(n)
        names = sorted(full)
        if len(names) > 1:
            ax.append(z3.Distinct(*[self.consts[n] for n in names]))
        # builtin classes with incompatible instance layouts have no common subclass
        solid = [n for n in ("int", "str", "bytes", "float", "tuple", "list", "dict", "set", "frozenset", "NoneType", "slice", "complex", "function", "type", "BaseException") if n in names]
        for i, x in enumerate(solid):
            for y in solid[i + 1:]:
                if x in self.ancestors(y) or y in self.ancestors(x):
                    continue
                ax.append(z3.ForAll([a], z3.Not(z3.And(sub(a, self.consts[x]), sub(a, self.consts[y]))), patterns=[sub(a, self.consts[x]), sub(a, self.consts[y])]))
        for n in names:
            if n in self.final:
                ax.append(z3.ForAll([a], z3.Implies(sub(a, self.consts[n]), a == self.consts[n]), patterns=[sub(a, self.consts[n])]))
        for n in names:
            anc = self.ancestors(n)
            for m in names:
                if m == n:
                    continue
                if m in anc:
                    ax.append(sub(self.consts[n], self.consts[m]))
                else:
                    ax.append(z3.Not(sub(self.consts[n], self.consts[m])))
        return ax


CLASSES = ClassTable()
for _n, _b in [("object", []), ("int", ["object"]), ("bool", ["int"]), ("str", ["object"]),
               ("bytes", ["object"]), ("float", ["object"]), ("list", ["object"]),
               ("tuple", ["object"]), ("dict", ["object"]), ("set", ["object"]),
               ("frozenset", ["object"]), ("NoneType", ["object"]), ("type", ["object"]),
               ("function", ["object"]),
               ("BaseException", ["object"]), ("Exception", ["BaseException"]),
               ("KeyError", ["LookupError"]), ("IndexError", ["LookupError"]),
               ("LookupError", ["Exception"]), ("TypeError", ["Exception"]),
               ("ValueError", ["Exception"]), ("AssertionError", ["Exception"]),
               ("AttributeError", ["Exception"]), ("StopIteration", ["Exception"]),
               ("NotImplementedError", ["RuntimeError"]), ("RuntimeError", ["Exception"]),
               ("FileNotFoundError", ["OSError"]), ("OSError", ["Exception"]), ("MarkerObject", ["object"])]:
    CLASSES.add(_n, _b)


# ---------------------------------------------------------------------------
# named constants (module-level singletons, string literals, enum members)


class ConstTable:
    def __init__(self):
        self.consts: dict[str, z3.ExprRef] = {}
        self.groups: dict[str, list[str]] = {}

    def get(self, group: str, name: str) -> z3.ExprRef:
        key = f"{group}:{name}"
        if key not in self.consts:
            safe = "".join(ch if ch.isalnum() else "_" for ch in name)[:40]
            self.consts[key] = z3.Const(f"c_{group}_{safe}_{len(self.consts)}", V)
            self.groups.setdefault(group, []).append(key)
        return self.consts[key]

    def axioms(self, only: Optional[set] = None) -> list[z3.BoolRef]:
        """only: names of the constants that occur in the obligation (facts about the others are irrelevant to it)"""
        keep = (lambda c: True) if only is None else (lambda c: c.decl().name() in only)
        allc = [c for c in self.consts.values() if keep(c)] + [NONE]
        ax = []
        if len(allc) > 1:
            ax.append(z3.Distinct(*allc))
        ax.append(z3.Not(truthy(NONE)))
        ax.append(typeof(NONE) == CLASSES.const("NoneType"))
        for key in self.groups.get("marker", []):
            if keep(self.consts[key]):
                ax.append(typeof(self.consts[key]) == CLASSES.const("MarkerObject"))
        for key in self.groups.get("str", []):
            c = self.consts[key]
            if not keep(c):
                continue
            ax.append(typeof(c) == CLASSES.const("str"))
            lit = key[len("str:"):]
            ax.append(truthy(c) == (len(lit) > 0))
        return ax


CONSTS = ConstTable()


# ---------------------------------------------------------------------------
# type specs


@dataclass(frozen=True)
class Spec:
    kind: str  # int bool str val seq dict set obj opt any
    arg: Any = None  # elem spec / class name / inner spec
    tup: Optional[bool] = None

    def __str__(self):
        if self.arg is None:
            return self.kind
        return f"{self.kind}[{self.arg}]"


def parse_spec(s) -> Spec:
    if isinstance(s, Spec):
        return s
    s = s.strip()
    if s.startswith("obj:"):
        return Spec("obj", s[4:])
    if "[" in s:
        head, rest = s.split("[", 1)
        assert rest.endswith("]"), s
        inner = rest[:-1]
        if head in ("seq", "list", "tuple"):
            return Spec("seq", parse_spec(inner), {"seq": None, "list": False, "tuple": True}[head])
        if head == "pair":
            parts = []
            depth = 0
            cur = ""
            for ch in inner:
                if ch == "[":
                    depth += 1
                elif ch == "]":
                    depth -= 1
                if ch == "," and depth == 0:
                    parts.append(cur)
                    cur = ""
                else:
                    cur += ch
            parts.append(cur)
            return Spec("tupleof", tuple(parse_spec(p) for p in parts), True)
        if head == "opt":
            return Spec("opt", parse_spec(inner))
        if head == "set":
            return Spec("set", parse_spec(inner))
        if head == "dict":
            k, v = _split_top(inner)
            return Spec("dict", (parse_spec(k), parse_spec(v)))
        raise ValueError(s)
    if s in ("seq", "list", "tuple"):
        return Spec("seq", Spec("val"), {"seq": None, "list": False, "tuple": True}[s])
    if s == "set":
        return Spec("set", Spec("val"))
    if s == "hset":
        # a real hash set: a membership test hashes the probe (TypeError for an unhashable one)
        return Spec("set", Spec("val"), "hash")
    if s == "dict":
        return Spec("dict", (Spec("val"), Spec("val")))
    if s in ("int", "bool", "str", "val", "any"):
        return Spec("val" if s == "any" else s)
    raise ValueError(f"bad spec {s!r}")


def _split_top(s):
    depth = 0
    for i, ch in enumerate(s):
        if ch == "[":
            depth += 1
        elif ch == "]":
            depth -= 1
        elif ch == "," and depth == 0:
            return s[:i], s[i + 1:]
    raise ValueError(s)


VAL = Spec("val")


# ---------------------------------------------------------------------------
# symbolic values


class Sym:
    """A symbolic Python value: a static *kind* plus a z3 term (or python payload)."""

    __slots__ = ("kind", "t", "spec", "py")

    def __init__(self, kind: str, t, spec: Optional[Spec] = None, py=None):
        self.kind = kind  # int bool val seq dict set func cls pyobj
        self.t = t
        self.spec = spec
        self.py = py

    def __repr__(self):
        return f"Sym<{self.kind}:{self.t if self.t is not None else self.py}>"


def S_int(t) -> Sym:
    if isinstance(t, int):
        t = z3.IntVal(t)
    return Sym("int", t)


def S_bool(t) -> Sym:
    if isinstance(t, bool):
        t = z3.BoolVal(t)
    return Sym("bool", t)


def S_val(t, spec: Optional[Spec] = None) -> Sym:
    return Sym("val", t, spec)


def S_seq(t, elem: Optional[Spec] = None, tup: Optional[bool] = None) -> Sym:
    return Sym("seq", t, Spec("seq", elem or VAL, tup))


def S_none() -> Sym:
    return Sym("val", NONE)


def S_str(lit: str) -> Sym:
    return Sym("val", CONSTS.get("str", lit), Spec("str"))


class DictPayload:
    """dict model: insertion-ordered distinct keys + total value map (meaningful on keys)."""

    def __init__(self, keys, vals, kspec=VAL, vspec=VAL, mode="identity"):
        self.mode = mode  # "identity": keys compared as z3 terms; "pyeq": identity or (equal hash and ==), may raise TypeError
        self.keys = keys  # SeqV
        self.vals = vals  # Array V V
        self.kspec = kspec
        self.vspec = vspec


def is_prim(sym: Sym) -> bool:
    """statically known to compare by identity-equivalent equality (str/int/None/enum consts)"""
    if sym.kind in ("int", "bool"):
        return True
    if sym.kind == "val":
        if sym.spec is not None and sym.spec.kind in ("str", "int", "bool", "prim"):
            return True
        if z3.is_const(sym.t) and sym.t.decl().kind() == z3.Z3_OP_UNINTERPRETED:
            n = sym.t.decl().name()
            if n == "None" or n.startswith("c_"):
                return True
    return False


@dataclass
class Obligation:
    name: str
    kind: str  # post | safety | pre | inv.establish | inv.preserve | lemma | cover | canary | exc
    hyps: list
    goal: Any
    where: str = ""
    kernel: str = ""
    expect: str = "unsat"  # 'unsat' to be proved; 'sat' for covers / canaries
    info: dict = field(default_factory=dict)


class Unsupported(Exception):
    """Construct outside the executed subset: the kernel becomes *undecided* (never a violation)."""


class ExcInfo:
    def __init__(self, cls: str, value: Optional[Sym] = None, where: str = ""):
        self.cls = cls
        self.value = value
        self.where = where

    def __repr__(self):
        return f"Exc<{self.cls}@{self.where}>"


class State:
    def __init__(self):
        self.env: dict[str, Sym] = {}
        self.pc: list = []
        self.guards: list = []
        self.heap: dict = {}
        self.yielded: Optional[Sym] = None
        self.pending: list = []  # [(cond, ExcInfo)]
        self.trace: list[str] = []
        self.old_env: dict[str, Sym] = {}
        self.notes: dict = {}

    def copy(self) -> "State":
        s = State()
        s.env = dict(self.env)
        s.pc = list(self.pc)
        s.guards = list(self.guards)
        s.heap = dict(self.heap)
        s.yielded = self.yielded
        s.pending = list(self.pending)
        s.trace = list(self.trace)
        s.old_env = self.old_env
        s.notes = dict(self.notes)
        return s

    def assume(self, fact):
        if self.guards:
            fact = z3.Implies(z3.And(*self.guards), fact)
        self.pc.append(fact)

    def hyps(self) -> list:
        return list(self.pc) + list(self.guards)

"""Per-kernel driver: bind symbolic inputs, run the body, emit obligations."""
from __future__ import annotations

import ast
import time

import z3

from pyvc import seqs as Q

from . import extract
from .core import (CLASSES, CONSTS, NONE, SeqV, V, K, IntS, BoolS, Spec, VAL, Sym, State, Obligation, ExcInfo,
                   S_none, S_val, Unsupported, fresh, pyeq, typeof, sub)
from .expr import ExprMixin
from .calls import CallMixin
from .contracts_apply import ContractMixin
from .stmt import StmtMixin, NORMAL, PathLimit
from .values import box, isa


class Collector:
    def __init__(self):
        self.obligations: list[Obligation] = []
        self.used_classes: set[str] = set()
        self.opaque_calls: set[str] = set()
        self.callee_contracts: set = set()
        self.assumptions: set[str] = set()
        self.bounded: set[str] = set()
        self.order_oracles: list = []
        self.prune_checks = 0
        self.kernels: dict = {}
        self.undecided: list = []

    def add(self, ob: Obligation):
        self.obligations.append(ob)


_classes_loaded = set()


def load_classes(modules):
    for m in modules:
        if m in _classes_loaded:
            continue
        _classes_loaded.add(m)
        for name, bases in extract.class_bases(m).items():
            bases = [b.split(".")[-1] for b in bases if b.split(".")[-1] not in ("Generic", "Protocol")]
            CLASSES.add(name, bases or ["object"])


class Executor(ExprMixin, CallMixin, ContractMixin, StmtMixin):
    def __init__(self, kernel: extract.Kernel, contract, reg, collector: Collector, prune=True):
        self.kernel = kernel
        self.module = kernel.module
        self.contract = contract
        self.reg = reg
        self.collector = collector
        self.spec_mode = False
        self.prune = prune
        self.paths_seen = 0
        self.initial_heap: dict = {}
        self._ax_cache = None
        load_classes(reg.modules)
        self.loop_ordinals = {}
        n = 0
        for node in self._preorder(kernel.node.body):
            if isinstance(node, (ast.For, ast.While)):
                self.loop_ordinals[id(node)] = n
                n += 1
        self.n_loops = n

    def _preorder(self, body):
        for st in body:
            yield st
            for fld_ in ("body", "orelse", "finalbody"):
                sub_ = getattr(st, fld_, None)
                if isinstance(sub_, list) and not isinstance(st, (ast.FunctionDef, ast.ClassDef, ast.AsyncFunctionDef)):
                    yield from self._preorder(sub_)
            for h in getattr(st, "handlers", []):
                yield from self._preorder(h.body)

    # ------------------------------------------------------------------ axioms
    def base_axioms(self):
        key = (len(self.collector.used_classes), len(CONSTS.consts), len(CLASSES.consts))
        if self._ax_cache is None or self._ax_cache[0] != key:
            self._ax_cache = (key, global_axioms(self.collector.used_classes, self.reg))
        return self._ax_cache[1]

    # ------------------------------------------------------------------ run
    def run(self):
        c = self.contract
        k = self.kernel
        st = State()
        a = k.node.args
        names = [x.arg for x in a.posonlyargs + a.args] + ([a.vararg.arg] if a.vararg else []) + [x.arg for x in a.kwonlyargs] + ([a.kwarg.arg] if a.kwarg else [])
        for name in names + [v for v in c.free_vars if v not in names]:
            sp = c.params.get(name)
            if sp is None:
                if name == "self" and k.classname:
                    sp = Spec("obj", k.classname)
                elif name == "cls" and k.classname:
                    sp = VAL
                elif a.vararg and name == a.vararg.arg:
                    sp = Spec("seq", VAL, True)
                else:
                    sp = VAL
            st.env[name] = self.fresh_sym(st, name, sp)
            if sp.kind == "obj":
                self.note_class(sp.arg)
                st.pc.append(st.env[name].t != NONE)
        for name, expr in c.lets:
            st.env[name] = self.spec_value(expr, st, st.env)
        for cl in c.requires_:
            st.pc.append(self.spec_bool(cl, st, st.env))
        st.old_env = dict(st.env)
        self.entry_env = st.old_env
        self.initial_heap = {}
        pre_hyps = list(st.pc)
        self.collector.add(Obligation(f"{k.qualname}#vacuity.requires", "canary", pre_hyps, z3.BoolVal(False), "entry", k.qualname, expect="sat"))
        outcomes = self.exec_block(k.node.body, st)
        n_ret = n_exc = 0
        for s2, out in outcomes:
            if out is NORMAL:
                out = ("return", S_none())
            if out[0] == "return":
                n_ret += 1
                self.check_return(s2, out[1], n_ret)
            elif out[0] == "raise":
                n_exc += 1
                self.check_raise(s2, out[1], n_exc)
            else:
                raise Unsupported(f"break/continue escaped function: {out}")
        self.collector.kernels[k.qualname] = {
            "sha256": k.sha256, "line": k.lineno, "file": k.module.path, "paths_return": n_ret, "paths_raise": n_exc,
            "loops": self.n_loops, "loops_with_invariant": sorted(i for i, l in c.loops.items() if l.invariants),
            "props": c.props,
        }

    def result_env(self, st: State, result: Sym):
        env = dict(st.old_env)
        c = self.contract
        if self.kernel.is_generator:
            y = st.yielded or Sym("seq", Q.Empty(), Spec("seq", VAL))
            rs = c.result if c.result.kind == "seq" else Spec("seq", c.result)
            y = Sym("seq", y.t, rs)
            env["yielded"] = y
            env["result"] = y
        else:
            if c.result.kind == "val" and result.kind in ("dict", "set", "seq"):
                env["result"] = result  # keep the structure visible to the postconditions
            else:
                env["result"] = self.coerce(result, c.result, st)
        # final values of locals are visible to postconditions as `final_<name>` (ghost access)
        return env

    def check_return(self, st: State, result: Sym, idx: int):
        c = self.contract
        st.notes["final_env"] = dict(st.env)  # ghost access to locals at the return point: final('<name>')
        env = self.result_env(st, result)
        path = "→".join(st.trace[-12:])
        posted = False
        for cl in c.ensures_:
            if cl.on not in ("return", "both"):
                continue
            goal = self.spec_bool(cl, st, env, old=(st.old_env, self.initial_heap))
            hyps = st.hyps()
            self.collector.add(Obligation(f"{self.kernel.qualname}#post.{cl.name}/p{idx}", "post", hyps, goal, f"return path {idx} [{path}]", self.kernel.qualname,
                                          info={"clause": cl.expr, "case": cl.case}))
            posted = True
        if posted:
            self.collector.add(Obligation(f"{self.kernel.qualname}#cover/p{idx}", "cover", st.hyps(), z3.BoolVal(False), f"return path {idx}", self.kernel.qualname, expect="sat"))

    def check_raise(self, st: State, exc: ExcInfo, idx: int):
        c = self.contract
        raised = exc.cls
        base = raised.split(":")[0]
        allowed = None
        for name, when in c.exc_.items():
            if any((r == name or name in CLASSES.ancestors(r)) for r in base.split("|")) and ":" not in raised:
                allowed = (name, when)
                break
        if base in c.ignore_exceptions and ":" not in raised:
            return
        if allowed is None:
            self.collector.add(Obligation(f"{self.kernel.qualname}#safety.{raised}/x{idx}", "safety", st.hyps(), z3.BoolVal(False),
                                          f"uncaught {raised} at {exc.where}", self.kernel.qualname, info={"exc": raised}))
            return
        name, when = allowed
        env = dict(st.old_env)
        if when is not None:
            goal = self.spec_bool(when, st, env, old=(st.old_env, self.initial_heap))
            self.collector.add(Obligation(f"{self.kernel.qualname}#exc.{name}.onlyif/x{idx}", "exc", st.hyps(), goal, f"raise {raised} at {exc.where}", self.kernel.qualname))
        for ename, cl in c.exc_ensures_:
            if ename == name:
                goal = self.spec_bool(cl, st, env, old=(st.old_env, self.initial_heap))
                self.collector.add(Obligation(f"{self.kernel.qualname}#excpost.{cl.name}/x{idx}", "exc", st.hyps(), goal, f"raise {raised} at {exc.where}", self.kernel.qualname))
        # functions that must *return* under a condition: ensures(on='both') are evaluated with result undefined -> skip


def global_axioms(used_classes, reg, terms=None):
    """terms: when given (the sliced hypotheses and the goal of one obligation), the class-table and constant-table facts
    are restricted to the classes / constants that occur in them or in the theory axioms (dropping facts about symbols
    an obligation does not mention is sound and keeps a query independent of which other kernels share the run)"""
    hooks = []
    for fn in getattr(reg, "axiom_hooks", []):
        hooks += fn(used_classes)
    base = {"object", "int", "bool", "str", "list", "tuple", "dict", "NoneType", "MarkerObject"}
    if terms is None:
        ax = CLASSES.axioms(set(used_classes) | base)
        ax += CONSTS.axioms()
    else:
        from .solve import const_names
        occ = const_names(list(terms) + hooks)
        cls = {n for n, c in CLASSES.consts.items() if c.decl().name() in occ}
        ax = CLASSES.axioms((cls | base) & (set(used_classes) | base | cls))
        ax += CONSTS.axioms(only=occ)
    a, b = z3.Consts("pa pb", V)
    ax += Q.global_axioms()
    ax.append(z3.ForAll([a], pyeq(a, a)))
    ax.append(z3.ForAll([a, b], pyeq(a, b) == pyeq(b, a)))
    ax += hooks
    return ax

"""Statement execution: path forking, loops with invariants, exceptions, generators."""
from __future__ import annotations

import ast
from typing import Optional

import z3

from pyvc import seqs as Q

from . import extract
from .core import (CLASSES, CONSTS, NONE, SeqV, V, IntS, BoolS, Spec, VAL, Sym, State, DictPayload,
                   ExcInfo, Obligation, S_bool, S_int, S_none, S_seq, S_str, S_val, Unsupported, fresh,
                   fresh_name, parse_spec, sub, typeof, truthy, unS, unI)
from .values import as_int, as_seq, box, elem_spec, fld, isa, norm_index, truth, uf, unbox, seq_contains

NORMAL = ("normal",)
BREAK = ("break",)
CONTINUE = ("continue",)


class PathLimit(Exception):
    pass


class StmtMixin:
    # ------------------------------------------------------------------ feasibility
    def feasible(self, st: State) -> bool:
        if not self.prune:
            return True
        s = z3.Solver()
        s.set("timeout", 400)
        for a in self.base_axioms():
            s.add(a)
        for f in st.pc:
            s.add(f)
        self.collector.prune_checks += 1
        return s.check() != z3.unsat

    # ------------------------------------------------------------------ blocks
    def exec_block(self, stmts, st: State):
        """-> list of (state, outcome)"""
        states = [st]
        results = []
        for stmt in stmts:
            nxt = []
            for s in states:
                for s2, out in self.exec_stmt(stmt, s):
                    if out is NORMAL:
                        nxt.append(s2)
                    else:
                        results.append((s2, out))
            if len(nxt) > 1 and getattr(self.contract, "merge_paths", True):
                nxt = self.merge_states(nxt)
            states = nxt
            self.paths_seen = max(self.paths_seen, len(states) + len(results))
            if len(states) + len(results) > self.contract.path_limit:
                raise PathLimit(f"more than {self.contract.path_limit} paths")
            if not states:
                break
        results.extend((s, NORMAL) for s in states)
        return results

    # ------------------------------------------------------------------ state merging at join points
    def merge_states(self, states):
        """Join the normally-continuing states of a statement into one (selector booleans b_i with
        b_i => facts-of-branch-i, Or(b_i); variables become ite-chains).  Exact: the merged state
        denotes the union of the branch states.  States whose Python-level values (functions, classes,
        iterator views) differ are left unmerged."""
        groups = []
        for s in states:
            for g in groups:
                if self._mergeable(g[0], s):
                    g.append(s)
                    break
            else:
                groups.append([s])
        return [self._merge_group(g) if len(g) > 1 else g[0] for g in groups]

    def _mergeable(self, a: State, b: State) -> bool:
        if set(a.env) != set(b.env):
            # a name bound on one side only is dropped if it is a plain value; python-level ones block
            pass
        for n in set(a.env) & set(b.env):
            x, y = a.env[n], b.env[n]
            if x is y:
                continue
            if x.kind in ("func", "cls", "pyobj") or y.kind in ("func", "cls", "pyobj"):
                if x.kind != y.kind or x.py != y.py:
                    return False
        if len(a.guards) or len(b.guards):
            return False
        return True

    def _merge_group(self, group):
        n0 = 0
        first = group[0].pc
        while all(len(s.pc) > n0 and s.pc[n0] is first[n0] for s in group):
            n0 += 1
        m = group[0].copy()
        m.pc = list(first[:n0])
        sels = [fresh("br", BoolS) for _ in group]
        for b, s in zip(sels, group):
            delta = s.pc[n0:]
            if delta:
                m.pc.append(z3.Implies(b, z3.And(*delta) if len(delta) > 1 else delta[0]))
        m.pc.append(z3.Or(*sels))

        def pick(vals):
            """vals: list of Sym (same length as group) -> merged Sym"""
            v0 = vals[0]
            if all(v is v0 for v in vals):
                return v0
            kinds = {v.kind for v in vals}
            if kinds <= {"func", "cls", "pyobj"}:
                return v0
            if len(kinds) == 1 and v0.kind in ("int", "bool", "seq", "set"):
                t = vals[-1].t
                for b, v in zip(reversed(sels[:-1]), reversed(vals[:-1])):
                    t = z3.If(b, v.t, t)
                specs = {str(v.spec) for v in vals}
                return Sym(v0.kind, t, v0.spec if len(specs) == 1 else (Spec("seq", VAL) if v0.kind == "seq" else v0.spec))
            if len(kinds) == 1 and v0.kind == "dict":
                keys, dv = vals[-1].py.keys, vals[-1].py.vals
                for b, v in zip(reversed(sels[:-1]), reversed(vals[:-1])):
                    keys = z3.If(b, v.py.keys, keys)
                    dv = z3.If(b, v.py.vals, dv)
                same = len({(str(v.py.kspec), str(v.py.vspec)) for v in vals}) == 1
                return Sym("dict", None, v0.spec, DictPayload(keys, dv, v0.py.kspec if same else VAL, v0.py.vspec if same else VAL, v0.py.mode))
            boxed = [box(v, m) for v in vals]
            t = boxed[-1]
            for b, x in zip(reversed(sels[:-1]), reversed(boxed[:-1])):
                t = z3.If(b, x, t)
            specs = {str(v.spec) for v in vals}
            return S_val(t, v0.spec if len(specs) == 1 and len(kinds) == 1 else None)

        names = set()
        for s in group:
            names |= set(s.env)
        env = {}
        for n in names:
            if all(n in s.env for s in group):
                env[n] = pick([s.env[n] for s in group])
            else:
                # bound on some paths only: keep a value (reading it on the other paths would be an
                # UnboundLocalError in Python; not modelled)
                have = [s.env[n] for s in group if n in s.env]
                env[n] = pick([s.env[n] if n in s.env else have[0] for s in group])
        m.env = env
        hkeys = set()
        for s in group:
            hkeys |= set(s.heap)
        heap = {}
        for k in hkeys:
            vals = []
            for s in group:
                if k in s.heap:
                    vals.append(s.heap[k])
                else:
                    owner = None
                    for s2 in group:
                        if owner is None:
                            owner = s2.notes.get("heap_terms", {}).get(k)
                    sample = next(s2.heap[k] for s2 in group if k in s2.heap)
                    vals.append(self._initial_field(owner, k[1], sample, m))
            heap[k] = pick(vals)
        m.heap = heap
        ht = {}
        bx = {}
        for s in group:
            ht.update(s.notes.get("heap_terms", {}))
            bx.update(s.notes.get("boxed", {}))
        m.notes["heap_terms"] = ht
        m.notes["boxed"] = bx
        ys = [s.yielded for s in group]
        if any(y is not None for y in ys):
            ys = [y if y is not None else Sym("seq", Q.Empty(), Spec("seq", VAL)) for y in ys]
            m.yielded = pick(ys)
        gk = set()
        for s in group:
            gk |= set((s.notes.get("ghost_appends") or {}))
        if gk:
            empty = Sym("seq", Q.Empty(), Spec("seq", VAL))
            m.notes["ghost_appends"] = {k: pick([(s.notes.get("ghost_appends") or {}).get(k, empty) for s in group]) for k in gk}
        m.trace = group[0].trace[:] + ["⋈"]
        if any(s.notes.get("bounded") for s in group):
            m.notes["bounded"] = True
        return m

    def _initial_field(self, owner, attr, sample: Sym, st) -> Sym:
        from .values import fld as _fld, unbox as _unbox
        t = _fld(attr)(owner)
        if sample.kind == "val":
            return S_val(t, sample.spec)
        sp = sample.spec or self.field_spec(attr)
        return _unbox(sp if sp.kind != "val" else self.field_spec(attr), t, st, facts=False)

    def flush(self, st: State):
        """Turn the exceptional forks recorded while evaluating expressions into outcomes."""
        outs = []
        pend = st.pending
        st.pending = []
        for cond, exc in pend:
            s2 = st.copy()
            s2.pending = []
            s2.pc.append(cond)
            if self.feasible(s2):
                outs.append((s2, ("raise", exc)))
            st.pc.append(z3.Not(cond))
        return outs

    def exec_stmt(self, node, st: State):
        m = getattr(self, "s_" + type(node).__name__, None)
        if m is None:
            raise Unsupported(f"statement {type(node).__name__} at line {node.lineno}")
        st.trace.append(f"L{node.lineno}")
        return m(node, st)

    def simple(self, st: State):
        outs = self.flush(st)
        outs.append((st, NORMAL))
        return outs

    # ------------------------------------------------------------------ simple statements
    def s_Pass(self, node, st):
        return [(st, NORMAL)]

    def s_Expr(self, node, st):
        v = node.value
        if isinstance(v, ast.Constant):
            return [(st, NORMAL)]  # docstring
        if isinstance(v, ast.Yield):
            val = self.eval(v.value, st) if v.value is not None else S_none()
            self.do_yield(st, Q.Unit(st, box(val, st)))
            return self.simple(st)
        if isinstance(v, ast.YieldFrom):
            it = self.eval(v.value, st)
            m = self.materialise(it, st, node)
            self.do_yield(st, m.t)
            return self.simple(st)
        if isinstance(v, ast.Call) and self.is_logging(v):
            return [(st, NORMAL)]
        if isinstance(v, ast.Call) and isinstance(v.func, ast.Attribute) and v.func.attr in self.MUTATORS:
            txt = ast.unparse(v.func.value)
            if any(txt.startswith(u) for u in self.contract.unmodelled):
                self.collector.assumptions.add(f"{self.kernel.qualname}: statement `{ast.unparse(v)[:60]}` mutates state outside the model; only recorded as a ghost append")
                if v.func.attr == "append" and len(v.args) == 1:
                    item = self.eval(v.args[0], st)
                    g = dict(st.notes.get("ghost_appends") or {})
                    cur = g.get(txt) or Sym("seq", Q.Empty(), Spec("seq", VAL))
                    g[txt] = Sym("seq", Q.Concat(st, cur.t, Q.Unit(st, box(item, st))), Spec("seq", VAL))
                    st.notes["ghost_appends"] = g
                    return self.simple(st)
                return [(st, NORMAL)]
        self.eval(v, st)
        return self.simple(st)

    def is_logging(self, call: ast.Call) -> bool:
        s = ast.unparse(call.func)
        return s.startswith(("self.logger.", "self.log", "logger.", "logging.", "sys.stderr.", "sys.stdout.")) or s == "print"

    def do_yield(self, st, seqterm):
        cur = st.yielded.t if st.yielded is not None else Q.Empty()
        st.yielded = Sym("seq", Q.Concat(st, cur, seqterm), Spec("seq", VAL))

    def s_Assign(self, node, st):
        val = self.eval(node.value, st)
        for t in node.targets:
            self.assign(t, val, st)
        return self.simple(st)

    def s_AnnAssign(self, node, st):
        if node.value is None:
            return [(st, NORMAL)]
        val = self.eval(node.value, st)
        self.assign(node.target, val, st)
        return self.simple(st)

    def assign(self, target, val: Sym, st: State):
        if isinstance(target, (ast.Name, ast.Tuple, ast.List)):
            if isinstance(target, ast.Name) and val.kind == "pyobj" and val.py[0] == "iterview":
                val = self.materialise(val, st)
            if isinstance(target, ast.Name) and target.id in self.contract.local_specs and val.kind == "seq":
                # element type of a local list that starts empty, declared by the contract (the source has no annotation)
                val = Sym("seq", val.t, self.contract.local_specs[target.id])
            self.bind_target(target, val, st)
            return
        if isinstance(target, ast.Subscript):
            txt = ast.unparse(target.value)
            if any(txt.startswith(u) for u in self.contract.unmodelled):
                self.collector.assumptions.add(f"{self.kernel.qualname}: store into {txt} is outside the modelled state")
                return
            base = self.eval(target.value, st)
            if isinstance(target.slice, ast.Slice):
                raise Unsupported("slice assignment")
            idx = self.eval(target.slice, st)
            if base.kind == "dict":
                self.store_back(target.value, self.dict_set(base, idx, val, st), st)
                return
            if base.kind == "seq":
                i = as_int(idx, st)
                n = Q.Length(base.t)
                self.may_raise(st, z3.Or(i >= n, i < -n), "IndexError", f"line {target.lineno}")
                j = norm_index(i, n)
                new = Q.Concat(st, Q.Extract(st, base.t, z3.IntVal(0), j), Q.Unit(st, box(val, st)), Q.Extract(st, base.t, j + 1, n - j - 1))
                self.store_back(target.value, Sym("seq", new, self._widen(base.spec, val)), st)
                return
            raise Unsupported(f"subscript assignment on {base.kind}")
        if isinstance(target, ast.Attribute):
            owner = self.eval(target.value, st)
            if owner.kind == "val":
                st.heap[(owner.t.get_id(), target.attr)] = val
                st.notes.setdefault("heap_terms", {})[(owner.t.get_id(), target.attr)] = owner.t
                return
        raise Unsupported(f"assignment to {type(target).__name__}")

    def s_AugAssign(self, node, st):
        cur = self.eval(node.target, st)
        rhs = self.eval(node.value, st)
        op = node.op
        if isinstance(op, ast.Add) and cur.kind == "seq":
            new = Sym("seq", Q.Concat(st, cur.t, as_seq(self.materialise(rhs, st, node), st)), cur.spec)
        elif isinstance(op, (ast.Add, ast.Sub)) and (cur.kind in ("int", "bool") or rhs.kind in ("int", "bool")):
            a, b = as_int(cur, st), as_int(rhs, st)
            new = S_int(a + b if isinstance(op, ast.Add) else a - b)
        elif isinstance(op, ast.Add) and cur.kind == "val":
            new = S_val(uf("str_concat", V, V, V)(cur.t, box(rhs, st)), Spec("str"))
        elif isinstance(op, ast.BitOr) and cur.kind == "set":
            new = self.set_union(cur, rhs, st)
        else:
            raise Unsupported(f"augmented assignment {type(op).__name__} on {cur.kind}")
        self.assign(node.target, new, st)
        return self.simple(st)

    def s_Delete(self, node, st):
        for t in node.targets:
            if isinstance(t, ast.Subscript):
                base = self.eval(t.value, st)
                idx = self.eval(t.slice, st)
                if base.kind == "seq":
                    i = as_int(idx, st)
                    n = Q.Length(base.t)
                    self.may_raise(st, z3.Or(i >= n, i < -n), "IndexError", f"del line {node.lineno}")
                    strict = ast.unparse(t) in self.contract.strict_index
                    if strict:
                        self.may_raise(st, i < 0, "IndexError:negative-position", f"del line {node.lineno}")
                    j = norm_index(i, n)
                    new = Q.Concat(st, Q.Extract(st, base.t, z3.IntVal(0), j), Q.Extract(st, base.t, j + 1, n - j - 1))
                    self.store_back(t.value, Sym("seq", new, base.spec), st)
                    continue
            raise Unsupported("del form")
        return self.simple(st)

    def s_Return(self, node, st):
        val = self.eval(node.value, st) if node.value is not None else S_none()
        outs = self.flush(st)
        outs.append((st, ("return", val)))
        return outs

    def s_Raise(self, node, st):
        if node.exc is None:
            exc = st.notes.get("current_exc")
            if exc is None:
                raise Unsupported("bare raise outside handler")
            outs = self.flush(st)
            outs.append((st, ("raise", exc)))
            return outs
        e = node.exc
        val = None
        if isinstance(e, ast.Call):
            val = self.eval(e, st)
            cname = self.exc_class_of_call(e, val)
        elif isinstance(e, ast.Name):
            cname = e.id
        else:
            raise Unsupported("raise form")
        outs = self.flush(st)
        outs.append((st, ("raise", ExcInfo(cname, val, f"line {node.lineno}"))))
        return outs

    def exc_class_of_call(self, call, val) -> str:
        f = call.func
        if isinstance(f, ast.Name):
            return f.id
        if isinstance(f, ast.Attribute):
            # InvalidConfigOption.from_parser(...) -> class of receiver when it is a class name
            if isinstance(f.value, ast.Name):
                return f.value.id
        return "Exception"

    def s_Assert(self, node, st):
        c = self.eval_bool(node.test, st)
        outs = self.flush(st)
        s2 = st.copy()
        s2.pc.append(z3.Not(c))
        if self.feasible(s2):
            outs.append((s2, ("raise", ExcInfo("AssertionError", None, f"line {node.lineno}"))))
        st.pc.append(c)
        outs.append((st, NORMAL))
        return outs

    def s_Break(self, node, st):
        return [(st, BREAK)]

    def s_Continue(self, node, st):
        return [(st, CONTINUE)]

    def s_Global(self, node, st):
        raise Unsupported("global")

    def s_FunctionDef(self, node, st):
        st.env[node.name] = Sym("func", None, None, (node, None))
        return [(st, NORMAL)]

    def s_Import(self, node, st):
        return [(st, NORMAL)]

    s_ImportFrom = s_Import

    # ------------------------------------------------------------------ if
    def s_If(self, node, st):
        c = self.eval_bool(node.test, st)
        outs = self.flush(st)
        st_t = st
        st_f = st.copy()
        st_t.pc.append(c)
        st_f.pc.append(z3.Not(c))
        if z3.is_true(z3.simplify(c)):
            return outs + self.exec_block(node.body, st_t)
        if z3.is_false(z3.simplify(c)):
            return outs + self.exec_block(node.orelse, st_f)
        if self.feasible(st_t):
            outs.extend(self.exec_block(node.body, st_t))
        if self.feasible(st_f):
            outs.extend(self.exec_block(node.orelse, st_f))
        return outs

    # ------------------------------------------------------------------ try / with
    def s_Try(self, node, st):
        outs = []
        body_outs = self.exec_block(node.body, st)
        after = []
        for s2, out in body_outs:
            if out[0] == "raise":
                handled = False
                exc = out[1]
                for h in node.handlers:
                    if self.handler_matches(h, exc):
                        s3 = s2
                        if h.name:
                            s3.env[h.name] = exc.value or S_val(self.fresh_term(s3, "exc", V))
                        prev = s3.notes.get("current_exc")
                        s3.notes["current_exc"] = exc
                        for s4, o4 in self.exec_block(h.body, s3):
                            s4.notes["current_exc"] = prev
                            after.append((s4, o4, False))
                        handled = True
                        break
                if not handled:
                    after.append((s2, out, False))
            elif out is NORMAL:
                if node.orelse:
                    for s3, o3 in self.exec_block(node.orelse, s2):
                        after.append((s3, o3, False))
                else:
                    after.append((s2, out, False))
            else:
                after.append((s2, out, False))
        if node.finalbody:
            for s2, out, _ in after:
                for s3, o3 in self.exec_block(node.finalbody, s2):
                    outs.append((s3, out if o3 is NORMAL else o3))
        else:
            outs = [(s, o) for s, o, _ in after]
        return outs

    def handler_matches(self, h, exc: ExcInfo) -> bool:
        if h.type is None:
            return True
        names = [n.id if isinstance(n, ast.Name) else ast.unparse(n) for n in (h.type.elts if isinstance(h.type, ast.Tuple) else [h.type])]
        raised = exc.cls.split(":")[0].split("|")
        for r in raised:
            for n in names:
                if n in ("Exception", "BaseException"):
                    return True
                if r == n or n in CLASSES.ancestors(r):
                    continue_ = True
                    if len(raised) == 1 or all((x == n or n in CLASSES.ancestors(x)) for x in raised):
                        return True
        return False

    def s_With(self, node, st):
        # supported: qcore.override(obj, attr, value); repo @contextmanager kernels with a contract
        if len(node.items) != 1:
            # several context managers: supported when each is declared transparent by the contract
            texts = [ast.unparse(i.context_expr) for i in node.items]
            if all(any(t.startswith(p) for p in getattr(self.contract, "transparent_with", [])) for t in texts):
                for t in texts:
                    self.collector.assumptions.add(f"{self.kernel.qualname}: `with {t[:50]}` treated as transparent")
                return self.exec_block(node.body, st)
            raise Unsupported("multi-item with")
        item = node.items[0]
        ce = item.context_expr
        if isinstance(ce, ast.Call) and ast.unparse(ce.func) in ("qcore.override", "override"):
            owner = self.eval(ce.args[0], st)
            attr = ce.args[1].value
            newv = self.eval(ce.args[2], st)
            oldv = self.getattr_sym(owner, attr, st)
            key = (owner.t.get_id(), attr)
            st.heap[key] = newv
            st.notes.setdefault("heap_terms", {})[key] = owner.t
            outs = self.flush(st)
            for s2, out in self.exec_block(node.body, st):
                s2.heap[key] = oldv
                outs.append((s2, out))
            return outs
        txt = ast.unparse(ce)
        if any(txt.startswith(p) for p in getattr(self.contract, "transparent_with", [])):
            # an opaque context manager declared transparent by the contract: enter/exit assumed not to
            # touch modelled state nor to swallow exceptions
            self.collector.assumptions.add(f"{self.kernel.qualname}: `with {txt[:50]}` treated as transparent")
            if item.optional_vars is not None:
                self.assign(item.optional_vars, S_val(self.fresh_term(st, "cm", V)), st)
            return self.exec_block(node.body, st)
        raise Unsupported(f"with {txt[:40]}")

    # ------------------------------------------------------------------ loops
    def assigned_names(self, body) -> tuple[set, set, bool]:
        """names assigned / mutated in a loop body, heap locations mutated, whether it yields"""
        names, heap, yields = set(), set(), False
        for top in body:
            for n in ast.walk(top):
                if isinstance(n, (ast.FunctionDef, ast.Lambda)):
                    continue
                if isinstance(n, ast.Name) and isinstance(n.ctx, (ast.Store, ast.Del)):
                    names.add(n.id)
                elif isinstance(n, (ast.Yield, ast.YieldFrom)):
                    yields = True
                elif isinstance(n, (ast.Subscript, ast.Attribute)) and isinstance(n.ctx, (ast.Store, ast.Del)):
                    root = n.value
                    if isinstance(root, ast.Name):
                        names.add(root.id)
                    elif isinstance(root, ast.Attribute):
                        heap.add(ast.unparse(root))
                    if isinstance(n, ast.Attribute) and isinstance(n.ctx, ast.Store):
                        heap.add(ast.unparse(n))
                elif isinstance(n, ast.Call) and isinstance(n.func, ast.Attribute) and n.func.attr in self.MUTATORS:
                    root = n.func.value
                    while isinstance(root, ast.Subscript):   # d[k].add(x) mutates (the container held in) d
                        root = root.value
                    if isinstance(root, ast.Name):
                        names.add(root.id)
                    elif isinstance(root, ast.Attribute):
                        heap.add(ast.unparse(root))
                elif isinstance(n, ast.Call):
                    # contracted callee with a modifies clause
                    pass
                elif isinstance(n, ast.NamedExpr):
                    names.add(n.target.id)
        return names, heap, yields

    def havoc_for_loop(self, node, st: State, tag: str):
        names, heaplocs, yields = self.assigned_names(node.body + getattr(node, "orelse", []))
        for n in sorted(names):
            if n in st.env:
                st.env[n] = self.like(st, f"{tag}_{n}", st.env[n])
        for loc in sorted(heaplocs):
            try:
                self.havoc_location(loc, st, st.env)
            except Unsupported:
                raise
        # heap locations modified by contracted callees in the body
        for top in node.body:
            for n in ast.walk(top):
                if isinstance(n, ast.Call):
                    for loc in self.callee_modifies(n):
                        self.havoc_location(loc, st, st.env)
        if yields:
            st.yielded = Sym("seq", self.fresh_term(st, f"{tag}_yielded", SeqV), Spec("seq", VAL))
        rc = set(getattr(self.contract, "record_calls", []) or []) | set(self.contract.unmodelled)
        if rc:
            hit = set()
            for top in node.body + getattr(node, "orelse", []):
                for n in ast.walk(top):
                    if isinstance(n, ast.Call):
                        t = ast.unparse(n.func)
                        if t in rc:
                            hit.add(t)
                        if isinstance(n.func, ast.Attribute) and n.func.attr == "append":
                            t2 = ast.unparse(n.func.value)
                            if any(t2.startswith(u) for u in self.contract.unmodelled):
                                hit.add(t2)
            if hit:
                g = dict(st.notes.get("ghost_appends") or {})
                for t in hit:
                    g[t] = Sym("seq", self.fresh_term(st, f"{tag}_ghost", SeqV), Spec("seq", VAL))
                st.notes["ghost_appends"] = g

    def callee_modifies(self, call: ast.Call):
        f = call.func
        c = None
        if isinstance(f, ast.Attribute) and isinstance(f.value, ast.Name) and f.value.id == "self" and self.kernel.classname:
            q = self.qualify_method(self.kernel.classname, f.attr)
            c = self.reg.contracts.get(q) if q else None
            if c is None:
                c = self.reg.methods.get(f.attr)
        if c is None or not c.modifies_:
            return []
        return [m for m in c.modifies_ if m.startswith("self.")]

    def returned_local(self):
        """name of the local the function returns by a trailing `return <name>` (its accumulator), if any"""
        if not hasattr(self, "_returned_local"):
            body = self.kernel.node.body
            last = body[-1] if body else None
            self._returned_local = last.value.id if isinstance(last, ast.Return) and isinstance(last.value, ast.Name) else None
        return self._returned_local

    def loop_env(self, st, ordinal, k, view):
        rl = self.returned_local()
        if rl is not None and rl in st.env:
            st.env["_retvar"] = st.env[rl]     # invariants name the accumulator by role, not by its incidental local name
        st.env[f"_k{ordinal}"] = S_int(k)
        st.env[f"_n{ordinal}"] = S_int(view.length) if view is not None else S_int(0)
        if view is not None and view.seq is not None:
            st.env[f"_seq{ordinal}"] = Sym("seq", view.seq, Spec("seq", view.espec))
        if st.yielded is not None or self.kernel.is_generator:
            st.env["_yielded"] = st.yielded or Sym("seq", Q.Empty(), Spec("seq", VAL))

    def check_invariants(self, ls, st, kind, ordinal, where):
        for cl in ls.invariants:
            goal = self.spec_bool(cl, st, st.env, old=(st.old_env, self.initial_heap))
            self.collector.add(Obligation(f"{self.kernel.qualname}#{kind}.{cl.name}", kind, st.hyps(), goal, where, self.kernel.qualname))

    def assume_invariants(self, ls, st):
        for cl in ls.invariants:
            st.pc.append(self.spec_bool(cl, st, st.env, old=(st.old_env, self.initial_heap)))

    def s_For(self, node, st):
        ordinal = self.loop_ordinals[id(node)]
        ls = self.contract.loops.get(ordinal)
        from .dsl import LoopSpec
        if ls is None:
            ls = LoopSpec()
        summary = self.filter_append_summary(node, st) if (not ls.invariants and ls.unroll is None) else None
        if summary is not None:
            # `for x in S: [if P:] acc.append(E)` has exactly the meaning of `acc += [E for x in S if P]`: executed as the
            # comprehension (no invariant needed; the two spellings of one function verify alike)
            acc, comp = summary
            cur = st.env[acc]
            add = self.e_ListComp(comp, st)
            spec = cur.spec if (cur.spec is not None and cur.spec.arg != VAL) else Spec("seq", elem_spec(add), cur.spec.tup if cur.spec else False)
            st.env[acc] = Sym("seq", Q.Concat(st, cur.t, add.t), spec)
            return self.simple(st)
        it = self.eval(node.iter, st)
        view = self.iter_view(it, st, node)
        outs = self.flush(st)
        where = f"loop {ordinal} line {node.lineno}"
        if ls.unroll is not None:
            return outs + self.unrolled_for(node, st, view, ls, ordinal)
        # establish
        self.loop_env(st, ordinal, z3.IntVal(0), view)
        self.check_invariants(ls, st, "inv.establish", ordinal, where)
        # arbitrary iteration
        body_st = st.copy()
        self.havoc_for_loop(node, body_st, f"L{ordinal}")
        exit_st = body_st.copy()
        k = fresh(f"k{ordinal}", IntS)
        body_st.pc.append(z3.And(0 <= k, k < view.length))
        self.loop_env(body_st, ordinal, k, view)
        self.assume_invariants(ls, body_st)
        exits = []
        if self.feasible(body_st):
            self.bind_target(node.target, view.get(k, body_st), body_st)
            outs.extend(self.flush(body_st))
            for s2, out in self.exec_block(node.body, body_st):
                if out is NORMAL or out is CONTINUE:
                    self.loop_env(s2, ordinal, k + 1, view)
                    self.check_invariants(ls, s2, "inv.preserve", ordinal, where)
                elif out is BREAK:
                    exits.append(s2)
                else:
                    outs.append((s2, out))
        # exit after exhausting the iterable
        self.loop_env(exit_st, ordinal, view.length, view)
        self.assume_invariants(ls, exit_st)
        # loop variable after the loop: last element if any (rarely used); leave havocked
        if isinstance(node.target, ast.Name) and node.target.id in st.env:
            pass
        if node.orelse:
            outs.extend(self.exec_block(node.orelse, exit_st))
        else:
            outs.append((exit_st, NORMAL))
        outs.extend((s, NORMAL) for s in exits)
        return outs

    def filter_append_summary(self, node, st):
        """(accumulator name, equivalent ListComp node) for a loop whose whole body is `acc.append(E)` or `if P: acc.append(E)`
        on a local list `acc` that neither the element expression, the condition nor the iterable mentions"""
        if node.orelse or len(node.body) != 1:
            return None
        stmt = node.body[0]
        cond = None
        if isinstance(stmt, ast.If) and not stmt.orelse and len(stmt.body) == 1:
            cond, stmt = stmt.test, stmt.body[0]
        if not (isinstance(stmt, ast.Expr) and isinstance(stmt.value, ast.Call) and isinstance(stmt.value.func, ast.Attribute) and stmt.value.func.attr == "append"
                and isinstance(stmt.value.func.value, ast.Name) and len(stmt.value.args) == 1 and not stmt.value.keywords):
            return None
        acc = stmt.value.func.value.id
        if acc not in st.env or st.env[acc].kind != "seq":
            return None
        elt = stmt.value.args[0]
        for part in [elt, node.iter] + ([cond] if cond is not None else []):
            for n in ast.walk(part):
                if isinstance(n, ast.Name) and n.id == acc:
                    return None
                if isinstance(n, (ast.NamedExpr, ast.Yield, ast.YieldFrom, ast.Await)):
                    return None
        comp = ast.ListComp(elt=elt, generators=[ast.comprehension(target=node.target, iter=node.iter, ifs=[cond] if cond is not None else [], is_async=0)])
        ast.copy_location(comp, node)
        ast.fix_missing_locations(comp)
        return acc, comp

    def unrolled_for(self, node, st, view, ls, ordinal):
        """Bounded stand-in: the loop is unrolled `ls.unroll` times; the iterable is *assumed* no longer."""
        # unwinding assertion (as in CBMC): the iterable is proved to be no longer than the unrolling
        # depth; when it discharges the unrolling is complete, not a bounded stand-in.
        self.collector.add(Obligation(f"{self.kernel.qualname}#unwind.loop{ordinal}<= {ls.unroll}".replace(" ", ""), "unwind", st.hyps(),
                                      view.length <= ls.unroll, f"loop {ordinal} line {node.lineno}", self.kernel.qualname))
        st.pc.append(view.length <= ls.unroll)
        outs = []
        states = [st]
        for i in range(ls.unroll):
            nxt = []
            for s in states:
                done = s.copy()
                done.pc.append(view.length == i)
                if self.feasible(done):
                    if node.orelse:
                        outs.extend(self.exec_block(node.orelse, done))
                    else:
                        outs.append((done, NORMAL))
                s.pc.append(view.length > i)
                if not self.feasible(s):
                    continue
                self.bind_target(node.target, view.get(z3.IntVal(i), s), s)
                outs.extend(self.flush(s))
                for s2, out in self.exec_block(node.body, s):
                    if out is NORMAL or out is CONTINUE:
                        nxt.append(s2)
                    elif out is BREAK:
                        outs.append((s2, NORMAL))
                    else:
                        outs.append((s2, out))
            states = nxt
        for s in states:
            s.pc.append(view.length == ls.unroll)
            if node.orelse:
                outs.extend(self.exec_block(node.orelse, s))
            else:
                outs.append((s, NORMAL))
        return outs

    def s_While(self, node, st):
        ordinal = self.loop_ordinals[id(node)]
        from .dsl import LoopSpec
        ls = self.contract.loops.get(ordinal) or LoopSpec()
        where = f"loop {ordinal} line {node.lineno}"
        outs = []
        self.loop_env(st, ordinal, z3.IntVal(0), None)
        self.check_invariants(ls, st, "inv.establish", ordinal, where)
        body_st = st.copy()
        self.havoc_for_loop(node, body_st, f"W{ordinal}")
        self.assume_invariants(ls, body_st)
        c = self.eval_bool(node.test, body_st)
        outs.extend(self.flush(body_st))
        exit_st = body_st.copy()
        body_st.pc.append(c)
        exit_st.pc.append(z3.Not(c))
        exits = []
        if self.feasible(body_st):
            for s2, out in self.exec_block(node.body, body_st):
                if out is NORMAL or out is CONTINUE:
                    self.check_invariants(ls, s2, "inv.preserve", ordinal, where)
                elif out is BREAK:
                    exits.append(s2)
                else:
                    outs.append((s2, out))
        if self.feasible(exit_st):
            if node.orelse:
                outs.extend(self.exec_block(node.orelse, exit_st))
            else:
                outs.append((exit_st, NORMAL))
        outs.extend((s, NORMAL) for s in exits)
        return outs

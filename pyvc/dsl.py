"""Sidecar contract DSL.  Contracts live in /verif/contracts/*.py; nothing is written into /repo.

A contract names a *real* function of /repo by qualified name.  The executor re-reads that
function's source on every run; the contract adds requires/ensures/loop invariants in
Python-expression syntax (parsed with ``ast`` and evaluated by the same expression
translator as the code, plus the spec functions of /verif/theory).
"""
from __future__ import annotations

import ast
from dataclasses import dataclass, field
from typing import Any, Callable, Optional

from .core import Spec, parse_spec


@dataclass
class LoopSpec:
    invariants: list = field(default_factory=list)  # [(name, expr_str)]
    unroll: Optional[int] = None
    note: str = ""


@dataclass
class Clause:
    name: str
    expr: str
    on: str = "return"  # return | raise | both
    case: Optional[str] = None  # known-finding case split predicate (expr), see DESIGN §4
    tree: Any = None

    def parsed(self):
        if self.tree is None:
            self.tree = ast.parse(self.expr.strip(), mode="eval").body
        return self.tree


class Contract:
    def __init__(self, qualname: str, props=(), kind: str = "kernel"):
        self.qualname = qualname
        self.props = list(props)
        self.kind = kind  # kernel (verified) | assumed (trusted callee contract) | lemma
        self.params: dict[str, Spec] = {}
        self.result: Spec = parse_spec("val")
        self.requires_: list[Clause] = []
        self.ensures_: list[Clause] = []
        self.exc_: dict[str, Optional[Clause]] = {}  # exceptions the function may raise: name -> when
        self.exc_ensures_: list[tuple[str, Clause]] = []
        self.loops: dict[int, LoopSpec] = {}
        self.modifies_: list[str] = []
        self.inline_ = False
        self.pure_ = True
        self.generator = False
        self.notes: list[str] = []
        self.assumptions: list[str] = []
        self.lets: list[tuple[str, str]] = []  # ghost definitions evaluated at entry
        self.realise: Optional[Callable] = None
        self.fields: dict[str, Spec] = {}
        self.verify = True
        self.free_vars: list[str] = []  # closure variables treated as parameters
        self.ignore_exceptions: list[str] = []
        self.path_limit = 4000
        self.unfold_: list[str] = []
        self.strict_index: list[str] = []
        self.local_contracts: dict[str, 'Contract'] = {}
        self.replay_fields: list[str] = []
        self.unmodelled: list[str] = []
        self.present_attrs: list[str] = []
        self.local_specs: dict = {}
        self.record_result_specs: dict = {}  # result Spec of recorded calls (e.g. pairs)
        self.record_calls: list[str] = []  # callee texts whose calls are logged as ghost events: appended('<text>')
        self.transparent_with: list[str] = []
        self.dict_keys = "identity"  # or "pyeq": dict displays created by the kernel are keyed by ==/hash
        self.unique_dispatch = False  # receivers whose mutation is outside the modelled state

    # -- declaration helpers -------------------------------------------------
    def param(self, name: str, spec: str):
        self.params[name] = parse_spec(spec)
        return self

    def returns(self, spec: str):
        self.result = parse_spec(spec)
        return self

    def requires(self, expr: str, name: Optional[str] = None):
        self.requires_.append(Clause(name or f"pre{len(self.requires_)}", expr))
        return self

    def ensures(self, expr: str, name: Optional[str] = None, on: str = "return", case: Optional[str] = None):
        self.ensures_.append(Clause(name or f"post{len(self.ensures_)}", expr, on, case))
        return self

    def raises(self, exc: str, when: Optional[str] = None, iff: bool = False):
        """The function may raise `exc`; if `when` is given, it raises *only if* `when` (evaluated
        in the pre-state) holds.  Verified for kernels, assumed for callees."""
        self.exc_[exc] = Clause(f"raises.{exc}", when, "iff" if iff else "onlyif") if when else None
        return self

    def exc_ensures(self, exc: str, expr: str, name: Optional[str] = None):
        self.exc_ensures_.append((exc, Clause(name or f"excpost{len(self.exc_ensures_)}", expr, "raise")))
        return self

    def loop(self, ordinal: int, invariant=None, name: Optional[str] = None, unroll: Optional[int] = None, note=""):
        ls = self.loops.setdefault(ordinal, LoopSpec())
        if invariant:
            if isinstance(invariant, (str, tuple)):
                invariant = [invariant]
            for inv in invariant:
                if isinstance(inv, tuple):
                    n, e = inv
                else:
                    n, e = (name or f"inv{len(ls.invariants)}"), inv
                ls.invariants.append(Clause(f"loop{ordinal}.{n}", e))
        if unroll is not None:
            ls.unroll = unroll
        if note:
            ls.note = note
        return self

    def local(self, name: str, spec: str):
        """element type of a local list (the source carries no annotation); only the static spec, no facts"""
        self.local_specs[name] = parse_spec(spec)
        return self

    def modifies(self, *locs: str):
        self.modifies_.extend(locs)
        return self

    def let(self, name: str, expr: str):
        self.lets.append((name, expr))
        return self

    def inline(self, flag=True):
        self.inline_ = flag
        return self

    def assume(self, text: str):
        self.assumptions.append(text)
        return self

    def fieldspec(self, name: str, spec: str):
        self.fields[name] = parse_spec(spec)
        return self

    def callee(self, call_text: str, build):
        """contract for one syntactic callee of this kernel (e.g. a class object held in a local)"""
        c = Contract(f"local:{self.qualname}:{call_text}", self.props, "assumed")
        build(c)
        self.local_contracts[call_text] = c
        return self


class Registry:
    def __init__(self):
        self.contracts: dict[str, Contract] = {}
        self.methods: dict[str, Contract] = {}  # dynamic-dispatch contracts by method name
        self.fields: dict[str, Spec] = {}
        self.theory: dict[str, Callable] = {}
        self.pure_externals: dict[str, Spec] = {}
        self.lemmas: list = []
        self.constants: dict[str, Any] = {}
        self.properties: dict[str, Contract] = {}  # @property contracts by attribute name
        self.modules: list[str] = []  # modules whose classes are known
        self.realisers: dict[str, Callable] = {}
        self.known_mutable_fields: set[str] = set()
        self.bounded_checks: list[dict] = []  # bounded native stand-ins for functions not under contract
        self.static_checks: list = []  # (name, props, fn): mechanical source scans returning [{name, ok, detail}]

    def contract(self, qualname: str, props=(), kind="kernel"):
        def deco(fn):
            c = Contract(qualname, props, kind)
            fn(c)
            if qualname.startswith("method:"):
                self.methods[qualname[len("method:"):]] = c
            elif qualname.startswith("property:"):
                self.properties[qualname[len("property:"):]] = c
            else:
                if qualname in self.contracts:
                    raise ValueError(f"duplicate contract for {qualname}")
                self.contracts[qualname] = c
            return c
        return deco

    def fieldspec(self, **kw):
        for k, v in kw.items():
            self.fields[k] = parse_spec(v)

    def spec_function(self, name: Optional[str] = None):
        def deco(fn):
            self.theory[name or fn.__name__] = fn
            return fn
        return deco

    def pure_external(self, qualname: str, result: str = "val"):
        self.pure_externals[qualname] = parse_spec(result)

    def bounded_check(self, name: str, props, replayer: str, covers, bound: str):
        """A bounded native stand-in (runtime checking of the property over an enumerated universe) for functions
        that are not within the verifier's reach.  Labelled bounded in the evidence, never counted as proved."""
        self.bounded_checks.append({"name": name, "props": list(props), "replayer": replayer, "covers": list(covers), "bound": bound})

    def static_check(self, name: str, props=()):
        def deco(fn):
            self.static_checks.append((name, list(props), fn))
            return fn
        return deco

    def lemma(self, name: str, props=()):
        def deco(fn):
            self.lemmas.append((name, list(props), fn))
            return fn
        return deco


REG = Registry()
contract = REG.contract
spec_function = REG.spec_function
lemma = REG.lemma

"""Expression translation (code mode and spec mode share it)."""
from __future__ import annotations

import ast
from typing import Optional

import z3

from . import extract
from . import seqs as Q
from .core import (CLASSES, CONSTS, NONE, SeqV, V, IntS, BoolS, Spec, VAL, Sym, State, DictPayload,
                   ExcInfo, S_bool, S_int, S_none, S_seq, S_str, S_val, Unsupported, fresh,
                   fresh_name, is_prim, parse_spec, sub, typeof, truthy, unS, unI)
from .values import (as_int, as_seq, box, elem_spec, fld, isa, norm_index, py_equal, seq_contains,
                     seq_slice, truth, uf, unbox, veq)


class IterView:
    """A finite indexed view of an iterable: length + k-th element."""

    def __init__(self, length, get, seq=None, espec=VAL, rng=None):
        self.rng = rng  # (lo, hi) for range(...) views
        self.length = length
        self.get = get  # callable(k_term, st) -> Sym
        self.seq = seq  # underlying SeqV term if element k is seq[k]
        self.espec = espec


class ExprMixin:
    # attributes provided by Executor: self.reg, self.kernel, self.module, self.collector, self.spec_mode

    # ------------------------------------------------------------------ fresh values under binders
    def fresh_term(self, st: State, prefix: str, sort):
        binders = st.notes.get("binders") or []
        if not binders:
            return fresh(prefix, sort)
        f = z3.Function(fresh_name(prefix), *[b.sort() for b in binders], sort)
        return f(*binders)

    def fresh_sym(self, st: State, prefix: str, spec: Spec) -> Sym:
        k = spec.kind
        if k == "int":
            return S_int(self.fresh_term(st, prefix, IntS))
        if k == "bool":
            return S_bool(self.fresh_term(st, prefix, BoolS))
        if k == "seq":
            return Sym("seq", self.fresh_term(st, prefix, SeqV), spec)
        if k == "set":
            t = self.fresh_term(st, prefix, SeqV)
            self._assume_distinct(st, t)
            return Sym("set", t, spec)
        if k == "dict":
            keys = self.fresh_term(st, prefix + "_keys", SeqV)
            vals = self.fresh_term(st, prefix + "_vals", z3.ArraySort(V, V))
            self._assume_distinct(st, keys)
            return Sym("dict", None, spec, DictPayload(keys, vals, spec.arg[0], spec.arg[1]))
        t = self.fresh_term(st, prefix, V)
        return unbox(spec, t, st)

    def _assume_distinct(self, st, seq):
        i, j = fresh("di", IntS), fresh("dj", IntS)
        st.assume(Q.Distinct(seq))

    def like(self, st: State, prefix: str, sym: Sym) -> Sym:
        """fresh value of the same static kind as `sym` (loop havoc)."""
        if sym.kind in ("func", "cls", "pyobj"):
            return sym
        if sym.kind == "int":
            return S_int(self.fresh_term(st, prefix, IntS))
        if sym.kind == "bool":
            return S_bool(self.fresh_term(st, prefix, BoolS))
        if sym.kind == "seq":
            return Sym("seq", self.fresh_term(st, prefix, SeqV), sym.spec)
        if sym.kind == "set":
            return self.fresh_sym(st, prefix, sym.spec or Spec("set", VAL))
        if sym.kind == "dict":
            d = self.fresh_sym(st, prefix, sym.spec or Spec("dict", (sym.py.kspec, sym.py.vspec)))
            d.py.mode = sym.py.mode
            return d
        sp = sym.spec
        t = self.fresh_term(st, prefix, V)
        if sp is not None and sp.kind in ("str", "prim"):
            return S_val(t, sp)
        return S_val(t, None)

    # ------------------------------------------------------------------ exceptions from expressions
    def may_raise(self, st: State, cond, exc: str, where=""):
        """Record an exceptional fork of the current statement (code mode only)."""
        if self.spec_mode:
            return
        binders = st.notes.get("binders") or []
        if st.guards:
            cond = z3.And(*st.guards, cond)
        for b, rng in reversed(st.notes.get("binder_ranges") or []):
            cond = z3.Exists([b], z3.And(rng, cond))
        st.pending.append((cond, ExcInfo(exc, None, where)))

    # ------------------------------------------------------------------ entry
    def eval(self, node: ast.AST, st: State) -> Sym:
        m = getattr(self, "e_" + type(node).__name__, None)
        if m is None:
            raise Unsupported(f"expression {type(node).__name__} at line {getattr(node, 'lineno', '?')}")
        return m(node, st)

    def eval_bool(self, node, st: State):
        """Truth value of an expression as a z3 Bool (short-circuit aware)."""
        if isinstance(node, ast.BoolOp):
            terms = []
            saved = len(st.guards)
            for v in node.values:
                b = self.eval_bool(v, st)
                terms.append(b)
                st.guards.append(b if isinstance(node.op, ast.And) else z3.Not(b))
            del st.guards[saved:]
            return z3.And(*terms) if isinstance(node.op, ast.And) else z3.Or(*terms)
        if isinstance(node, ast.UnaryOp) and isinstance(node.op, ast.Not):
            return z3.Not(self.eval_bool(node.operand, st))
        return truth(self.eval(node, st), st)

    # ------------------------------------------------------------------ atoms
    def e_Constant(self, node, st):
        v = node.value
        if v is None:
            return S_none()
        if isinstance(v, bool):
            return S_bool(v)
        if isinstance(v, int):
            return S_int(v)
        if isinstance(v, str):
            return S_str(v)
        if v is Ellipsis:
            return S_val(CONSTS.get("builtin", "Ellipsis"))
        if isinstance(v, bytes):
            return S_val(CONSTS.get("bytes", repr(v)))
        if isinstance(v, float):
            return S_val(CONSTS.get("float", repr(v)))
        raise Unsupported(f"constant {v!r}")

    def e_Name(self, node, st):
        name = node.id
        if name in st.env:
            return st.env[name]
        return self.resolve_global(name, st)

    BUILTIN_CLASSES = {"int", "bool", "str", "bytes", "float", "complex", "bytearray", "memoryview", "slice", "list", "tuple", "dict", "set", "frozenset",
                       "object", "type", "Exception", "KeyError", "IndexError", "TypeError", "ValueError",
                       "AssertionError", "AttributeError", "NotImplementedError", "StopIteration",
                       "BaseException", "LookupError", "RuntimeError", "FileNotFoundError", "OSError"}
    BUILTIN_FUNCS = {"len", "isinstance", "enumerate", "zip", "range", "reversed", "sorted", "min", "max",
                     "sum", "any", "all", "hasattr", "getattr", "iter", "next", "repr", "id", "hash",
                     "callable", "issubclass", "abs", "print", "super", "map", "filter", "setattr"}

    def resolve_global(self, name: str, st: State, module=None) -> Sym:
        module = module or self.module
        if name in self.reg.constants:
            return self.reg.constants[name](self, st)
        if name in module.classes:
            self.note_class(name)
            return Sym("cls", None, None, name)
        if name in module.funcs:
            return Sym("func", None, None, f"{module.modname}.{name}")
        if name in module.assigns:
            return self.module_constant(module, name, st)
        if name in module.imports:
            q = module.imports[name]
            modname, _, attr = q.rpartition(".")
            try:
                m2 = extract.get_module(modname)
            except extract.ExtractionError:
                m2 = None
            if m2 is not None and attr != name or (m2 is not None and m2 is not module):
                if attr in m2.classes or attr in m2.funcs or attr in m2.assigns or attr in m2.imports:
                    return self.resolve_global(attr, st, m2)
            # imported module or external name
            try:
                extract.get_module(q)
                return Sym("pyobj", None, None, ("module", q))
            except extract.ExtractionError:
                pass
            if attr in self.BUILTIN_CLASSES:
                return Sym("cls", None, None, attr)
            return Sym("pyobj", None, None, ("external", q))
        if name in self.BUILTIN_CLASSES:
            return Sym("cls", None, None, name)
        if name in self.BUILTIN_FUNCS:
            return Sym("pyobj", None, None, ("builtin", name))
        if name == "NotImplemented":
            return S_val(CONSTS.get("builtin", "NotImplemented"))
        if self.spec_mode and name in self.reg.theory:
            return Sym("pyobj", None, None, ("theory", name))
        if self.spec_mode:
            # a contracted function of another module, named without qualification in a specification
            hits = [q for q in self.reg.contracts if q.endswith("." + name) and not q.startswith(("local:", "method:"))]
            if len(hits) == 1:
                return Sym("func", None, None, hits[0])
        raise Unsupported(f"unresolved name {name!r}")

    def module_constant(self, module, name, st) -> Sym:
        """module-level `X = <expr>`: singletons become distinct named constants."""
        val = module.assigns[name]
        if isinstance(val, ast.Constant):
            return self.e_Constant(val, st)
        if isinstance(val, (ast.Set, ast.Tuple, ast.List)) and val.elts and all(isinstance(e, ast.Attribute) and isinstance(e.value, ast.Name) for e in val.elts):
            # display of enum members / class attributes: evaluated in the defining module
            saved_mod, saved_env = self.module, st.env
            self.module, st.env = module, {}
            try:
                items = [box(self.eval(e, st), st) for e in val.elts]
            except Unsupported:
                items = None
            finally:
                self.module, st.env = saved_mod, saved_env
            if items is not None:
                kind = "set" if isinstance(val, ast.Set) else "seq"
                return Sym(kind, Q.Literal(st, items), Spec(kind, Spec("prim")))
        if isinstance(val, ast.Dict) and val.keys and all(k is not None and isinstance(k, (ast.Attribute, ast.Constant)) for k in val.keys) \
                and all(isinstance(v, (ast.Set, ast.Tuple, ast.List, ast.Attribute, ast.Constant)) for v in val.values):
            # table keyed by enum members / constants (e.g. KIND_TO_ALLOWED_PREVIOUS): evaluated in the defining module
            saved_mod, saved_env = self.module, st.env
            self.module, st.env = module, {}
            try:
                d = Sym("dict", None, Spec("dict", (VAL, VAL)), DictPayload(Q.Empty(), z3.K(V, NONE)))
                for k, v in zip(val.keys, val.values):
                    if isinstance(v, (ast.Set, ast.Tuple, ast.List)):
                        items = [box(self.eval(e, st), st) for e in v.elts]
                        kind = "set" if isinstance(v, ast.Set) else "seq"
                        vs = Sym(kind, Q.Literal(st, items), Spec(kind, Spec("prim")))
                    else:
                        vs = self.eval(v, st)
                    d = self.dict_set(d, self.eval(k, st), vs, st)
                spec_v = Spec("set", Spec("prim")) if all(isinstance(v, ast.Set) for v in val.values) else VAL
                return Sym("dict", None, Spec("dict", (VAL, spec_v)), DictPayload(d.py.keys, d.py.vals, VAL, spec_v))
            except Unsupported:
                pass
            finally:
                self.module, st.env = saved_mod, saved_env
        if isinstance(val, (ast.Set, ast.Tuple, ast.List)) and all(isinstance(e, ast.Constant) for e in val.elts):
            items = [box(self.e_Constant(e, st), st) for e in val.elts]
            kind = "set" if isinstance(val, ast.Set) else "seq"
            es = Spec("str") if all(isinstance(e.value, str) for e in val.elts) else VAL
            return Sym(kind, Q.Literal(st, items), Spec(kind, es))
        if (isinstance(val, ast.Call) and isinstance(val.func, ast.Name) and val.func.id in ("set", "frozenset", "tuple", "list")
                and len(val.args) == 1 and isinstance(val.args[0], ast.Constant) and isinstance(val.args[0].value, str)):
            chars = list(dict.fromkeys(val.args[0].value)) if val.func.id in ("set", "frozenset") else list(val.args[0].value)
            items = [box(S_str(ch), st) for ch in chars]
            kind = "set" if val.func.id in ("set", "frozenset") else "seq"
            return Sym(kind, Q.Literal(st, items), Spec(kind, Spec("str")))
        if isinstance(val, ast.Call):
            fn = ast.unparse(val.func)
            if fn.endswith("MarkerObject") or fn in ("object",):
                return S_val(CONSTS.get("marker", f"{module.modname}.{name}"), Spec("prim"))
            # module-level instance of a repo class (e.g. NO_RETURN_VALUE = MultiValuedValue([]))
            c = CONSTS.get("global", f"{module.modname}.{name}")
            hook = self.reg.constants.get(f"{module.modname}.{name}")
            if hook is not None:
                return hook(self, st)
            if isinstance(val.func, ast.Name) and extract.find_class(val.func.id, self.reg.modules) is not None:
                # module-level instance of a repo class: its exact class is known
                self.note_class(val.func.id)
                st.pc.append(typeof(c) == CLASSES.const(val.func.id))
                st.pc.append(c != NONE)
            return S_val(c)
        if isinstance(val, (ast.Name,)):
            return self.resolve_global(val.id, st, module)
        c = CONSTS.get("global", f"{module.modname}.{name}")
        return S_val(c)

    def note_class(self, name):
        self.collector.used_classes.add(name)

    # ------------------------------------------------------------------ attribute
    def e_Attribute(self, node, st):
        base = self.eval(node.value, st)
        return self.getattr_sym(base, node.attr, st, node)

    def field_spec(self, attr: str, base: Optional[Sym] = None) -> Spec:
        c = getattr(self, "contract", None)
        if c is not None and attr in c.fields:
            return c.fields[attr]
        return self.reg.fields.get(attr, VAL)

    def getattr_sym(self, base: Sym, attr: str, st: State, node=None) -> Sym:
        if base.kind == "pyobj":
            tag, q = base.py[0], base.py[1]
            if tag == "module":
                m2 = extract.get_module(q)
                return self.resolve_global(attr, st, m2)
            if tag == "external":
                return Sym("pyobj", None, None, ("external", f"{q}.{attr}"))
            raise Unsupported(f"attribute {attr} of {base}")
        if base.kind == "cls":
            cname = base.py
            hit = extract.find_class(cname, self.reg.modules)
            if hit is not None:
                mod, cnode = hit
                bases = [ast.unparse(b) for b in cnode.bases]
                if any(b.endswith("Enum") or b.endswith("Flag") for b in bases):
                    return S_val(CONSTS.get("enum", f"{cname}.{attr}"), Spec("prim"))
                for n in cnode.body:
                    if isinstance(n, ast.FunctionDef) and n.name == attr:
                        return Sym("func", None, None, f"{mod.modname}.{cname}.{attr}")
            # class attribute (ClassVar) of a known class object
            t = CONSTS.get("class", cname)
            return unbox(self.field_spec(attr), fld(attr)(t), st)
        if base.kind == "val":
            key = (base.t.get_id(), attr)
            if key in st.heap:
                return st.heap[key]
            pc = self.reg.properties.get(attr)
            if pc is not None and not self.spec_mode:
                return self.apply_contract(pc, [base], {}, st, node, label=f"property {attr}")
            return unbox(self.field_spec(attr, base), fld(attr)(base.t), st)
        if base.kind == "func" and attr == "__name__":
            return S_val(CONSTS.get("str", "fname:" + str(base.py)), Spec("str"))
        raise Unsupported(f"attribute {attr} of {base.kind}")

    # ------------------------------------------------------------------ operators
    def e_UnaryOp(self, node, st):
        if isinstance(node.op, ast.Not):
            return S_bool(z3.Not(self.eval_bool(node.operand, st)))
        v = self.eval(node.operand, st)
        if isinstance(node.op, ast.USub):
            return S_int(-as_int(v, st))
        if isinstance(node.op, ast.UAdd):
            return S_int(as_int(v, st))
        raise Unsupported("unary op")

    def e_BoolOp(self, node, st):
        # value semantics: `a and b` -> b if truthy(a) else a
        vals = []
        saved = len(st.guards)
        for v in node.values:
            s = self.eval(v, st)
            vals.append(s)
            b = truth(s, st)
            st.guards.append(b if isinstance(node.op, ast.And) else z3.Not(b))
        del st.guards[saved:]
        if all(v.kind == "bool" for v in vals):
            ts = [v.t for v in vals]
            return S_bool(z3.And(*ts) if isinstance(node.op, ast.And) else z3.Or(*ts))
        out = vals[-1]
        same = all(v.kind == out.kind for v in vals) and out.kind in ("int", "seq")
        if same:
            t = out.t
            for v in reversed(vals[:-1]):
                c = truth(v, st)
                t = z3.If(c, t, v.t) if isinstance(node.op, ast.And) else z3.If(c, v.t, t)
            return Sym(out.kind, t, out.spec)
        t = box(out, st)
        for v in reversed(vals[:-1]):
            c = truth(v, st)
            bv = box(v, st)
            t = z3.If(c, t, bv) if isinstance(node.op, ast.And) else z3.If(c, bv, t)
        return S_val(t)

    def e_IfExp(self, node, st):
        c = self.eval_bool(node.test, st)
        st.guards.append(c)
        a = self.eval(node.body, st)
        st.guards[-1] = z3.Not(c)
        b = self.eval(node.orelse, st)
        st.guards.pop()
        return self.ite(c, a, b, st)

    def ite(self, c, a: Sym, b: Sym, st) -> Sym:
        if a.kind == b.kind and a.kind in ("int", "bool", "seq", "set"):
            return Sym(a.kind, z3.If(c, a.t, b.t), a.spec or b.spec)
        if a.kind == b.kind == "dict":
            return Sym("dict", None, a.spec, DictPayload(z3.If(c, a.py.keys, b.py.keys), z3.If(c, a.py.vals, b.py.vals), a.py.kspec, a.py.vspec, a.py.mode))
        sp = a.spec if (a.spec == b.spec) else None
        return S_val(z3.If(c, box(a, st), box(b, st)), sp)

    def e_BinOp(self, node, st):
        a = self.eval(node.left, st)
        b = self.eval(node.right, st)
        op = node.op
        if isinstance(op, ast.Add):
            if a.kind == "seq" or b.kind == "seq":
                sp = a.spec if a.kind == "seq" else b.spec
                return Sym("seq", Q.Concat(st, as_seq(a, st), as_seq(b, st)), sp)
            if a.kind in ("int", "bool") or b.kind in ("int", "bool"):
                return S_int(as_int(a, st) + as_int(b, st))
            if (a.spec and a.spec.kind == "str") or (b.spec and b.spec.kind == "str"):
                return S_val(uf("str_concat", V, V, V)(a.t, b.t), Spec("str"))
        if isinstance(op, ast.Sub):
            if a.kind in ("int", "bool") or b.kind in ("int", "bool"):
                return S_int(as_int(a, st) - as_int(b, st))
            if a.kind == "set" or b.kind == "set":
                return self.set_difference(self.coerce(a, Spec("set", VAL), st), self.coerce(b, Spec("set", VAL), st), st)
        if isinstance(op, ast.Mult):
            if (a.kind == "seq" and b.kind in ("int", "bool")) or (b.kind == "seq" and a.kind in ("int", "bool")):
                sq, n = (a, b) if a.kind == "seq" else (b, a)
                # list repetition of a one-element list: n copies (none for n <= 0)
                r = Q._fresh_sq(st, "rep")
                nn = as_int(n, st)
                i = fresh("ri", IntS)
                from .core import Obligation
                self.collector.add(Obligation(f"{self.kernel.qualname}#model.list_repetition_singleton@{node.lineno}", "safety", st.hyps(),
                                              Q.Length(sq.t) == 1, f"line {node.lineno}", self.kernel.qualname))
                st.assume(Q.Length(r) == z3.If(nn > 0, nn, 0))
                st.assume(z3.ForAll([i], z3.Implies(z3.And(0 <= i, i < Q.Length(r)), Q.At(r, i) == Q.At(sq.t, 0)), patterns=[Q.At(r, i)]))
                return Sym("seq", r, sq.spec)
            if a.kind == "int" and b.kind == "int":
                if z3.is_int_value(a.t) or z3.is_int_value(b.t):
                    return S_int(a.t * b.t)
            if (a.spec and a.spec.kind == "str") or (b.spec and b.spec.kind == "str"):
                s, n = (a, b) if (a.spec and a.spec.kind == "str") else (b, a)
                return S_val(uf("str_repeat", V, IntS, V)(s.t, as_int(n, st)), Spec("str"))
        if isinstance(op, ast.Mod):
            if a.kind == "val":
                return S_val(uf("percent_format", V, V, V)(a.t, box(b, st)), Spec("str"))
        if isinstance(op, (ast.BitAnd, ast.BitOr)) and (a.kind == "set" or b.kind == "set") and a.kind in ("set", "val") and b.kind in ("set", "val"):
            sa, sb = self.coerce(a, Spec("set", VAL), st), self.coerce(b, Spec("set", VAL), st)
            if isinstance(op, ast.BitOr):
                return self.set_union(sa, sb, st)
            r = self.fresh_term(st, "setinter", SeqV)
            x = fresh("sx", V)
            st.assume(z3.ForAll([x], seq_contains(r, x) == z3.And(seq_contains(as_seq(sa, st), x), seq_contains(as_seq(sb, st), x))))
            self._assume_distinct(st, r)
            return Sym("set", r, sa.spec)
        if isinstance(op, ast.BitOr) and a.kind == "val" and b.kind == "val":
            return S_val(uf("bitor", V, V, V)(a.t, b.t))
        if a.kind == "val" and b.kind == "val":
            return S_val(uf("binop_" + type(op).__name__, V, V, V)(a.t, b.t))
        raise Unsupported(f"binop {type(op).__name__} on {a.kind},{b.kind} line {node.lineno}")

    def set_difference(self, a, b, st):
        sa, sb = as_seq(a, st), as_seq(b, st)
        r = self.fresh_term(st, "setdiff", SeqV)
        x = fresh("sx", V)
        st.assume(z3.ForAll([x], seq_contains(r, x) == z3.And(seq_contains(sa, x), z3.Not(seq_contains(sb, x)))))
        self._assume_distinct(st, r)
        return Sym("set", r, a.spec)

    def e_Compare(self, node, st):
        left = self.eval(node.left, st)
        terms = []
        for op, rn in zip(node.ops, node.comparators):
            right = self.eval(rn, st)
            terms.append(self.compare(op, left, right, st, node))
            left = right
        return S_bool(terms[0] if len(terms) == 1 else z3.And(*terms))

    def compare(self, op, a: Sym, b: Sym, st, node=None):
        if isinstance(op, (ast.Is, ast.IsNot)):
            if a.kind == "cls" and b.kind == "cls":
                r = z3.BoolVal(a.py == b.py)
            elif a.kind == "bool" and b.kind == "bool":
                r = a.t == b.t
            else:
                r = box(a, st) == box(b, st)
            return r if isinstance(op, ast.Is) else z3.Not(r)
        if isinstance(op, (ast.Eq, ast.NotEq)):
            r = py_equal(a, b, st)
            return r if isinstance(op, ast.Eq) else z3.Not(r)
        if isinstance(op, (ast.Lt, ast.LtE, ast.Gt, ast.GtE)):
            if a.kind == "seq" and b.kind == "seq":
                raise Unsupported("sequence ordering")
            x, y = as_int(a, st), as_int(b, st)
            return {ast.Lt: x < y, ast.LtE: x <= y, ast.Gt: x > y, ast.GtE: x >= y}[type(op)]
        if isinstance(op, (ast.In, ast.NotIn)):
            r = self.contains(b, a, st)
            return r if isinstance(op, ast.In) else z3.Not(r)
        raise Unsupported("compare op")

    def _unwrap_container(self, c: Sym, st) -> Sym:
        """a val whose declared spec is (optionally) a dict/set/seq is read through that spec"""
        if c.kind == "val" and c.spec is not None:
            sp = c.spec.arg if c.spec.kind == "opt" else c.spec
            if isinstance(sp, Spec) and sp.kind in ("dict", "set", "seq", "tupleof"):
                return unbox(sp, c.t, st, facts=False)
        return c

    def contains(self, container: Sym, x: Sym, st):
        container = self._unwrap_container(container, st)
        if container.kind == "set" and container.spec is not None and container.spec.tup == "hash" and not self.spec_mode:
            hashable = uf("py_hashable", V, BoolS)
            xb = box(x, st)
            if x.kind == "pyobj" and x.py[0] == "pytuple":
                st.assume(hashable(xb) == z3.And(*[hashable(box(it, st)) for it in x.py[1]]))   # a tuple hashes its items
            self.may_raise(st, z3.Not(hashable(xb)), "TypeError", "unhashable probe of a hash set")
        if container.kind in ("seq", "set"):
            if is_prim(x) or elem_spec(container).kind in ("str", "int", "prim") or container.kind == "set":
                return seq_contains(container.t, box(x, st), st)
            i = fresh("ci", IntS)
            xb = box(x, st)
            return z3.Exists([i], z3.And(0 <= i, i < Q.Length(container.t), veq(Q.At(container.t, i), xb)))
        if container.kind == "dict":
            if container.py.mode == "pyeq":
                return self.dict_has_pyeq(container, box(x, st), st)
            return seq_contains(container.py.keys, box(x, st), st)
        if container.kind == "val":
            sp = container.spec
            if sp is not None and sp.kind == "str":
                return uf("str_contains", V, V, BoolS)(container.t, box(x, st))
            return uf("py_contains", V, V, BoolS)(container.t, box(x, st))
        if container.kind == "pyobj" and container.py[0] == "iterview" and container.py[1].rng is not None:
            lo, hi = container.py[1].rng
            if x.kind in ("int", "bool"):
                xi = as_int(x, st)
                return z3.And(lo <= xi, xi < hi)
            xb = box(x, st)
            return z3.And(isa(xb, "int"), lo <= unI(xb), unI(xb) < hi)
        raise Unsupported(f"in on {container.kind}")

    # ------------------------------------------------------------------ displays
    def e_Tuple(self, node, st):
        return self.display(node.elts, st, True)

    def e_List(self, node, st):
        return self.display(node.elts, st, False)

    def display(self, elts, st, tup):
        especs = set()
        if not any(isinstance(e, ast.Starred) for e in elts):
            boxed = []
            for e in elts:
                s = self.eval(e, st)
                boxed.append(box(s, st))
                especs.add(self.static_spec(s))
            es = especs.pop() if len(especs) == 1 else VAL
            return Sym("seq", Q.Literal(st, boxed), Spec("seq", es, tup))
        parts = []
        for e in elts:
            if isinstance(e, ast.Starred):
                s = self.eval(e.value, st)
                if s.kind == "dict":
                    parts.append(s.py.keys)
                    especs.add(s.py.kspec)
                else:
                    parts.append(as_seq(self.materialise(s, st), st))
                    especs.add(elem_spec(s))
            else:
                s = self.eval(e, st)
                parts.append(Q.Unit(st, box(s, st)))
                especs.add(self.static_spec(s))
        t = Q.Concat(st, *parts)
        es = especs.pop() if len(especs) == 1 else VAL
        return Sym("seq", t, Spec("seq", es, tup))

    def static_spec(self, s: Sym) -> Spec:
        if s.kind in ("int", "bool"):
            return Spec(s.kind)
        if s.kind == "seq":
            return s.spec or Spec("seq", VAL)
        if s.kind == "val" and s.spec is not None and s.spec.kind in ("str", "prim"):
            return s.spec
        if s.kind in ("dict", "set") and s.spec is not None:
            return s.spec
        return VAL

    def e_Set(self, node, st):
        cur = Sym("set", Q.Empty(), Spec("set", VAL))
        for e in node.elts:
            if isinstance(e, ast.Starred):
                s = self.eval(e.value, st)
                cur = self.set_union(cur, s, st)
            else:
                cur = self.set_add(cur, self.eval(e, st), st)
        return cur

    def set_add(self, s: Sym, x: Sym, st):
        xb = box(x, st)
        return Sym("set", z3.If(seq_contains(s.t, xb, st), s.t, Q.Concat(st, s.t, Q.Unit(st, xb))), s.spec)

    def set_union(self, a, b, st):
        sa, sb = as_seq(a, st), as_seq(b, st)
        r = self.fresh_term(st, "setunion", SeqV)
        x = fresh("sx", V)
        st.assume(z3.ForAll([x], seq_contains(r, x) == z3.Or(seq_contains(sa, x), seq_contains(sb, x))))
        self._assume_distinct(st, r)
        return Sym("set", r, a.spec)

    def e_Dict(self, node, st):
        d = Sym("dict", None, Spec("dict", (VAL, VAL)), DictPayload(Q.Empty(), z3.K(V, NONE), mode=getattr(self.contract, "dict_keys", "identity")))
        for k, v in zip(node.keys, node.values):
            if k is None:
                raise Unsupported("dict unpacking display")
            d = self.dict_set(d, self.eval(k, st), self.eval(v, st), st)
        return d

    def dict_has_pyeq(self, d: Sym, kb, st):
        """`k in d` for a dict keyed by objects with user-level __eq__/__hash__: some stored key is the same
        object, or has the same hash and compares equal; unhashable keys raise TypeError"""
        hashable = uf("py_hashable", V, BoolS)
        pyhash = uf("py_hash", V, IntS)
        self.may_raise(st, z3.Not(hashable(kb)), "TypeError", "unhashable dict key")
        i = fresh("ki", IntS)
        keys = d.py.keys
        return z3.Exists([i], z3.And(0 <= i, i < Q.Length(keys),
                                     z3.Or(Q.At(keys, i) == kb, z3.And(pyhash(Q.At(keys, i)) == pyhash(kb), veq(Q.At(keys, i), kb)))))

    def dict_set(self, d: Sym, k: Sym, v: Sym, st) -> Sym:
        kb, vb = box(k, st), box(v, st)
        p = d.py
        present = self.dict_has_pyeq(d, kb, st) if p.mode == "pyeq" else seq_contains(p.keys, kb, st)
        keys = z3.If(present, p.keys, Q.Concat(st, p.keys, Q.Unit(st, kb)))
        return Sym("dict", None, d.spec, DictPayload(keys, z3.Store(p.vals, kb, vb), p.kspec, p.vspec, p.mode))

    def e_JoinedStr(self, node, st):
        # f-string: an uninterpreted function of the template and of the interpolated values
        tmpl = []
        args = []
        for part in node.values:
            if isinstance(part, ast.Constant):
                tmpl.append(str(part.value).replace("{", "{{").replace("}", "}}"))
            else:
                conv = {-1: "", 115: "!s", 114: "!r", 97: "!a"}.get(part.conversion, "")
                tmpl.append("{" + conv + "}")
                args.append(box(self.eval(part.value, st), st))
        return self.fmt_term("".join(tmpl), args)

    def fmt_term(self, template: str, args) -> Sym:
        if not args:
            return S_str(template)
        f = uf("fmt:" + template, *([V] * len(args)), V)
        return S_val(f(*args), Spec("str"))

    def e_Lambda(self, node, st):
        return Sym("func", None, None, (node, dict(st.env)))

    def e_Starred(self, node, st):
        raise Unsupported("bare starred expression")

    def e_NamedExpr(self, node, st):
        v = self.eval(node.value, st)
        st.env[node.target.id] = v
        return v

    # ------------------------------------------------------------------ subscripts
    def e_Subscript(self, node, st):
        base = self.eval(node.value, st)
        sl = node.slice
        if isinstance(sl, ast.Slice):
            if sl.step is not None:
                raise Unsupported("slice step")
            lo = as_int(self.eval(sl.lower, st), st) if sl.lower is not None else None
            hi = as_int(self.eval(sl.upper, st), st) if sl.upper is not None else None
            s = as_seq(base, st)
            return Sym("seq", seq_slice(st, s, lo, hi), base.spec if base.kind == "seq" else Spec("seq", elem_spec(base)))
        idx = self.eval(sl, st)
        return self.getitem(base, idx, st, node)

    def getitem(self, base: Sym, idx: Sym, st, node=None) -> Sym:
        if base.kind == "pyobj" and base.py[0] in ("external", "module"):
            # an external object (sys.modules, os.environ, ...): opaque value
            return S_val(uf("py_getitem", V, V, V)(box(base, st), box(idx, st)))
        base = self._unwrap_container(base, st)
        where = f"line {getattr(node, 'lineno', '?')}"
        if base.kind == "seq" or (base.kind == "val" and base.spec is not None and base.spec.kind == "seq"):
            s = as_seq(base, st)
            i = as_int(idx, st)
            n = Q.Length(s)
            if idx.kind == "val" and not (idx.spec is not None and idx.spec.kind in ("int", "bool")) and not self.spec_mode:
                # the index object may be a slice: s[slice] never raises and yields some sub-sequence
                self.note_class("slice")
                is_slice = isa(idx.t, "slice")
                self.may_raise(st, z3.And(z3.Not(is_slice), z3.Or(i >= n, i < -n)), "IndexError", where)
                r = Q._fresh_sq(st, "sliced")
                st.assume(Q.Length(r) <= n)
                elem = unbox(elem_spec(base), Q.At(s, norm_index(i, n)), st)
                return S_val(z3.If(is_slice, box(Sym("seq", r, base.spec), st), box(elem, st)))
            self.may_raise(st, z3.Or(i >= n, i < -n), "IndexError", where)
            strict = getattr(self, "contract", None) and node is not None and ast.unparse(node) in self.contract.strict_index
            if strict:
                self.may_raise(st, i < 0, "IndexError:negative-position", where)
            # in specifications s[i] is the mathematical at(s, i) (no negative-index normalisation)
            if base.spec is not None and base.spec.kind == "tupleof" and z3.is_int_value(i) and 0 <= i.as_long() < len(base.spec.arg):
                return unbox(base.spec.arg[i.as_long()], Q.At(s, i), st)
            return unbox(elem_spec(base), Q.At(s, i if self.spec_mode else norm_index(i, n)), st)
        if base.kind == "dict":
            kb = box(idx, st)
            if not self.spec_mode:
                self.may_raise(st, z3.Not(seq_contains(base.py.keys, kb, st)), "KeyError", where)
            return unbox(base.py.vspec, z3.Select(base.py.vals, kb), st)
        if base.kind == "val":
            r = uf("py_getitem", V, V, V)(base.t, box(idx, st))
            if not self.spec_mode:
                # dict-like reading of an untyped container: x[k] raises iff k not in x
                self.may_raise(st, z3.Not(uf("py_contains", V, V, BoolS)(base.t, box(idx, st))), "KeyError", where)
            return S_val(r)
        if base.kind == "cls":
            return base  # Generic[T] style subscription of a class
        raise Unsupported(f"subscript of {base.kind}")

    # ------------------------------------------------------------------ comprehensions
    def iter_view(self, sym: Sym, st: State, node=None) -> IterView:
        if sym.kind == "seq":
            es = elem_spec(sym)
            return IterView(Q.Length(sym.t), lambda k, st_: unbox(es, Q.At(sym.t, k), st_), sym.t, es)
        if sym.kind == "set":
            # iteration order of a set is an arbitrary permutation of its members (order oracle)
            es = elem_spec(sym)
            perm = self.fresh_term(st, "setorder", SeqV)
            x = fresh("px", V)
            st.assume(z3.ForAll([x], seq_contains(perm, x) == seq_contains(sym.t, x)))
            st.assume(Q.Length(perm) == Q.Length(sym.t))
            # every member is visited: it has a position in the iteration order
            binders = st.notes.get("binders") or []
            pidx = z3.Function(fresh_name("pidx"), *[b.sort() for b in binders], V, IntS)
            pi = lambda y: pidx(*binders, y)
            st.assume(z3.ForAll([x], z3.Implies(seq_contains(perm, x), z3.And(0 <= pi(x), pi(x) < Q.Length(perm), Q.At(perm, pi(x)) == x)),
                                patterns=[seq_contains(perm, x)]))
            self._assume_distinct(st, perm)
            self.collector.order_oracles.append((self.kernel.qualname, getattr(node, "lineno", 0)))
            return IterView(Q.Length(perm), lambda k, st_: unbox(es, Q.At(perm, k), st_), perm, es)
        if sym.kind == "dict":
            p = sym.py
            return IterView(Q.Length(p.keys), lambda k, st_: unbox(p.kspec, Q.At(p.keys, k), st_), p.keys, p.kspec)
        if sym.kind == "val":
            sp = sym.spec
            if sp is not None and sp.kind == "opt":
                sp = sp.arg
            if sp is not None and sp.kind in ("dict", "set"):
                return self.iter_view(unbox(sp, sym.t, st), st, node)
            s = unS(sym.t)
            es = elem_spec(sym)
            return IterView(Q.Length(s), lambda k, st_: unbox(es, Q.At(s, k), st_), s, es)
        if sym.kind == "pyobj" and sym.py[0] == "iterview":
            return sym.py[1]
        raise Unsupported(f"iteration over {sym.kind}")

    def bind_target(self, target, value: Sym, st: State):
        if isinstance(target, ast.Name):
            st.env[target.id] = value
            return
        if isinstance(target, (ast.Tuple, ast.List)):
            if any(isinstance(e, ast.Starred) for e in target.elts):
                raise Unsupported("starred unpacking target")
            if value.kind == "pyobj" and value.py[0] == "pytuple":
                items = value.py[1]
                if len(items) != len(target.elts):
                    raise Unsupported("tuple arity")
                for e, it in zip(target.elts, items):
                    self.bind_target(e, it, st)
                return
            s = as_seq(value, st)
            vspec = value.spec
            if vspec is not None and vspec.kind == "opt":
                vspec = vspec.arg
            es = None
            if vspec is not None and vspec.kind == "tupleof":
                es = vspec.arg
                if len(es) == len(target.elts):
                    st.assume(Q.Length(s) == len(es))
            self.may_raise(st, Q.Length(s) != len(target.elts), "ValueError", "unpack")
            for i, e in enumerate(target.elts):
                sp = es[i] if es else elem_spec(value)
                self.bind_target(e, unbox(sp, Q.At(s, i), st), st)
            return
        raise Unsupported(f"assignment target {type(target).__name__}")

    def comp_core(self, node, st: State, need_box: bool = True):
        """Evaluate a single-generator comprehension symbolically.
        Returns (n, i, elt_sym(i), conds(i)) with i a fresh Int constant bound over [0,n)."""
        if len(node.generators) != 1:
            raise Unsupported("nested comprehension")
        gen = node.generators[0]
        it = self.eval(gen.iter, st)
        view = self.iter_view(it, st, node)
        i = fresh("ci", IntS)
        rng = z3.And(0 <= i, i < view.length)
        saved_env = dict(st.env)
        binders = st.notes.get("binders") or []
        ranges = st.notes.get("binder_ranges") or []
        st.notes["binders"] = binders + [i]
        st.notes["binder_ranges"] = ranges + [(i, rng)]
        pc_before = len(st.pc)
        st.guards.append(rng)
        try:
            self.bind_target(gen.target, view.get(i, st), st)
            conds = []
            for c in gen.ifs:
                b = self.eval_bool(c, st)
                conds.append(b)
                st.guards.append(b)
            if isinstance(node, ast.DictComp):
                elt = (self.eval(node.key, st), self.eval(node.value, st))
                eb = (box(elt[0], st), box(elt[1], st))
            else:
                elt = self.eval(node.elt, st)
                eb = box(elt, st) if (need_box and elt.kind != "pyobj") else None
            if conds:
                del st.guards[len(st.guards) - len(conds):]
        finally:
            st.guards.pop()
            st.notes["binders"] = binders
            st.notes["binder_ranges"] = ranges
            st.env = saved_env
        # generalise the facts learned under the binder
        new = st.pc[pc_before:]
        del st.pc[pc_before:]
        for f in new:
            st.pc.append(z3.ForAll([i], f) if self._mentions(f, i) else f)
        cond = z3.And(*conds) if conds else None
        return view, i, rng, elt, cond, eb

    @staticmethod
    def _mentions(f, c) -> bool:
        seen = set()
        stack = [f]
        while stack:
            t = stack.pop()
            if t.get_id() in seen:
                continue
            seen.add(t.get_id())
            if t.eq(c):
                return True
            if z3.is_quantifier(t):
                stack.append(t.body())
            else:
                stack.extend(t.children())
        return False

    def e_ListComp(self, node, st):
        view, i, rng, elt, cond, eb = self.comp_core(node, st)
        r = self.fresh_term(st, "comp", SeqV)
        es = self.static_spec(elt)
        if cond is None:
            st.assume(Q.Length(r) == view.length)
            st.assume(z3.ForAll([i], z3.Implies(rng, Q.At(r, i) == eb)))
        else:
            src = z3.Function(fresh_name("src"), IntS, IntS)
            dst = z3.Function(fresh_name("dst"), IntS, IntS)
            j, j2 = fresh("cj", IntS), fresh("cj2", IntS)
            n = view.length
            st.assume(Q.Length(r) <= n)
            st.assume(z3.ForAll([j], z3.Implies(z3.And(0 <= j, j < Q.Length(r)),
                                               z3.And(0 <= src(j), src(j) < n,
                                                      z3.substitute(cond, (i, src(j))),
                                                      Q.At(r, j) == z3.substitute(eb, (i, src(j))),
                                                      dst(src(j)) == j))))
            st.assume(z3.ForAll([j, j2], z3.Implies(z3.And(0 <= j, j < j2, j2 < Q.Length(r)), src(j) < src(j2))))
            st.assume(z3.ForAll([i], z3.Implies(z3.And(rng, cond),
                                               z3.And(0 <= dst(i), dst(i) < Q.Length(r), src(dst(i)) == i))))
        return Sym("seq", r, Spec("seq", es, False))

    def e_GeneratorExp(self, node, st):
        s = self.e_ListComp(node, st)
        return s

    def e_SetComp(self, node, st):
        view, i, rng, elt, cond, eb = self.comp_core(node, st)
        r = self.fresh_term(st, "setcomp", SeqV)
        x = fresh("sx", V)
        body = z3.And(rng, eb == x) if cond is None else z3.And(rng, cond, eb == x)
        st.assume(z3.ForAll([x], seq_contains(r, x) == z3.Exists([i], body)))
        self._assume_distinct(st, r)
        binders = st.notes.get("binders") or []
        widx = z3.Function(fresh_name("swidx"), *[b.sort() for b in binders], V, IntS)
        wi = lambda y: widx(*binders, y)
        st.assume(z3.ForAll([x], z3.Implies(seq_contains(r, x), z3.And(0 <= wi(x), wi(x) < Q.Length(r), Q.At(r, wi(x)) == x)), patterns=[seq_contains(r, x)]))
        return Sym("set", r, Spec("set", self.static_spec(elt)))

    def e_DictComp(self, node, st):
        view, i, rng, (k, v), cond, (kb, vb) = self.comp_core(node, st)
        keys = self.fresh_term(st, "dc_keys", SeqV)
        vals = self.fresh_term(st, "dc_vals", z3.ArraySort(V, V))
        x = fresh("sx", V)
        body = z3.And(rng, kb == x) if cond is None else z3.And(rng, cond, kb == x)
        st.assume(z3.ForAll([x], seq_contains(keys, x) == z3.Exists([i], body)))
        self._assume_distinct(st, keys)
        # value of key: that of the *last* generating index; exact when keys are generated once
        last = z3.Function(fresh_name("lastidx"), V, IntS)
        g = z3.And(rng, cond) if cond is not None else rng
        st.assume(z3.ForAll([i], z3.Implies(g, z3.And(last(kb) >= i))))
        st.assume(z3.ForAll([x], z3.Implies(seq_contains(keys, x),
                                           z3.And(z3.substitute(g, (i, last(x))), z3.substitute(kb, (i, last(x))) == x,
                                                  z3.Select(vals, x) == z3.substitute(vb, (i, last(x)))))))
        return Sym("dict", None, Spec("dict", (self.static_spec(k), self.static_spec(v))),
                   DictPayload(keys, vals, self.static_spec(k), self.static_spec(v)))

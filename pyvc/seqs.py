"""Sequences as an axiomatised uninterpreted sort (UF + linear integers + triggers).

z3's native sequence theory combined with index-quantified invariants left trivial
obligations (append preserves a forall) undecided, and global axioms over sequence
*constructors* have no finite models (every satisfiable, i.e. defective-code, query would
time out).  So: ``Sq`` is uninterpreted, ``slen``/``at`` are its observers, and every
constructor term gets its defining axioms *at the site that creates it* (quantified over the
index only).  The only global axioms create no new ``Sq`` terms.
"""
from __future__ import annotations

import z3

V = z3.DeclareSort("V")
Sq = z3.DeclareSort("Sq")
IntS = z3.IntSort()
BoolS = z3.BoolSort()

slen = z3.Function("slen", Sq, IntS)
at = z3.Function("at", Sq, IntS, V)
smem = z3.Function("smem", Sq, V, BoolS)
sidx = z3.Function("sidx", Sq, V, IntS)
sq_unit = z3.Function("sq_unit", V, Sq)
sq_concat = z3.Function("sq_concat", Sq, Sq, Sq)
sq_slice = z3.Function("sq_slice", Sq, IntS, IntS, Sq)
EMPTY = z3.Const("sq_empty", Sq)

_n = [0]


def _v(prefix, sort):
    _n[0] += 1
    return z3.Const(f"{prefix}!q{_n[0]}", sort)


def global_axioms():
    s = z3.Const("qs", Sq)
    i = z3.Const("qi", IntS)
    x = z3.Const("qx", V)
    return [
        z3.ForAll([s], slen(s) >= 0, patterns=[slen(s)]),
        slen(EMPTY) == 0,
        z3.ForAll([x], z3.Not(smem(EMPTY, x)), patterns=[smem(EMPTY, x)]),
        z3.ForAll([s, i], z3.Implies(z3.And(0 <= i, i < slen(s)), smem(s, at(s, i))), patterns=[at(s, i)]),
        z3.ForAll([s, x], z3.Implies(smem(s, x), slen(s) > 0), patterns=[smem(s, x)]),
    ]


def _fresh_sq(st, prefix):
    """a fresh sequence name (a Skolem function of the enclosing binders, if any): constructor
    results are *named*, so triggers never contain interpreted symbols"""
    _n[0] += 1
    binders = st.notes.get("binders") or []
    if not binders:
        return z3.Const(f"{prefix}!q{_n[0]}", Sq)
    f = z3.Function(f"{prefix}!q{_n[0]}", *[b.sort() for b in binders], Sq)
    return f(*binders)


def Length(s):
    return slen(s)


def At(s, i):
    if isinstance(i, int):
        i = z3.IntVal(i)
    return at(s, i)


def Empty():
    return EMPTY


def is_empty_term(s) -> bool:
    return s.eq(EMPTY)


def Unit(st, x):
    u = _fresh_sq(st, "unit")
    st.pc.append(slen(u) == 1)
    st.pc.append(at(u, 0) == x)
    y = _v("uy", V)
    st.pc.append(z3.ForAll([y], smem(u, y) == (y == x), patterns=[smem(u, y)]))
    return u


def Concat(st, *parts):
    parts = [p for p in parts if not is_empty_term(p)]
    if not parts:
        return EMPTY
    cur = parts[0]
    for p in parts[1:]:
        cur = _concat2(st, cur, p)
    return cur


def _concat2(st, a, b):
    c = _fresh_sq(st, "cat")
    i = _v("ci", IntS)
    y = _v("cy", V)
    st.pc.append(slen(c) == slen(a) + slen(b))
    st.pc.append(z3.ForAll([i], z3.And(
        z3.Implies(z3.And(0 <= i, i < slen(a)), at(c, i) == at(a, i)),
        z3.Implies(z3.And(slen(a) <= i, i < slen(a) + slen(b)), at(c, i) == at(b, i - slen(a)))), patterns=[at(c, i)]))
    st.pc.append(z3.ForAll([y], smem(c, y) == z3.Or(smem(a, y), smem(b, y)), patterns=[smem(c, y)]))
    return c


def Extract(st, s, off, n):
    """n elements of s from offset off (0 <= off, off + n <= slen(s) is the caller's business; n<0 -> empty)"""
    r = _fresh_sq(st, "slice")
    i = _v("xi", IntS)
    st.pc.append(slen(r) == z3.If(n > 0, n, 0))
    st.pc.append(z3.ForAll([i], z3.Implies(z3.And(0 <= i, i < slen(r)), at(r, i) == at(s, off + i)), patterns=[at(r, i)]))
    return r


def Contains(s, x, st=None):
    """membership.  `at(s,i) -> smem(s, at(s,i))` is a global axiom; the converse (a member has an
    index) is instantiated *here*, for this (s, x) pair only, with a fresh witness index: as a global
    axiom it sends E-matching into a matching loop (observed)."""
    if st is not None and not (st.notes.get("binders") or []):
        # (under a binder the witness would be a Skolem function whose axiom re-triggers itself)
        _n[0] += 1
        j = z3.Const(f"widx!q{_n[0]}", IntS)
        st.pc.append(z3.Implies(smem(s, x), z3.And(0 <= j, j < slen(s), at(s, j) == x)))
    return smem(s, x)


def PrefixOf(p, s):
    i = _v("pi", IntS)
    return z3.And(slen(p) <= slen(s), z3.ForAll([i], z3.Implies(z3.And(0 <= i, i < slen(p)), at(p, i) == at(s, i))))


def Eq(a, b):
    if a.eq(b):
        return z3.BoolVal(True)
    i = _v("ei", IntS)
    return z3.And(slen(a) == slen(b), z3.ForAll([i], z3.Implies(z3.And(0 <= i, i < slen(a)), at(a, i) == at(b, i))))


_pos = z3.Function("sq_pos", Sq, V, IntS)


def Distinct(s):
    """no duplicates, stated through an index function (one bound variable: friendlier to both
    E-matching and model finding than the two-variable disequality form)"""
    i = _v("di", IntS)
    body = z3.Implies(z3.And(0 <= i, i < slen(s)), _pos(s, at(s, i)) == i)
    if not _pattern_ok(s):
        return z3.ForAll([i], body)
    return z3.ForAll([i], body, patterns=[at(s, i)])


_lit_cache = {}


def _pattern_ok(t) -> bool:
    stack = [t]
    while stack:
        x = stack.pop()
        if z3.is_quantifier(x):
            return False
        if z3.is_app(x):
            k = x.decl().kind()
            if k not in (z3.Z3_OP_UNINTERPRETED, z3.Z3_OP_ANUM, z3.Z3_OP_ADD, z3.Z3_OP_SUB, z3.Z3_OP_SELECT):
                return False
            stack.extend(x.children())
    return True


def Literal(st, elems):
    """a display of n known elements: the term `sq_lit_n(e1..en)` is a function of its elements, so two
    displays with equal elements are equal sequences by congruence (tuples used as set members / keys)"""
    n = len(elems)
    if n == 0:
        return EMPTY
    if n not in _lit_cache:
        _lit_cache[n] = z3.Function(f"sq_lit_{n}", *([V] * n), Sq)
    t = _lit_cache[n](*elems)
    st.pc.append(slen(t) == n)
    for i, e in enumerate(elems):
        st.pc.append(at(t, i) == e)
    y = _v("ly", V)
    body = smem(t, y) == z3.Or(*[y == e for e in elems])
    if all(_pattern_ok(e) for e in elems):
        st.pc.append(z3.ForAll([y], body, patterns=[smem(t, y)]))
    else:
        st.pc.append(z3.ForAll([y], body))
    return t

"""Turning a z3 counter-model into concrete, JSON-able inputs for native replay."""
from __future__ import annotations

import z3

from pyvc import seqs as Q

from .core import CLASSES, CONSTS, NONE, Spec, Sym, V, typeof, unI, unB, unS, truthy
from .values import fld


class Concretizer:
    def __init__(self, model: z3.ModelRef, reg, field_names=()):
        self.m = model
        self.reg = reg
        self.budget = 1500  # model-evaluation budget (nested fields x sequences explode otherwise)
        self.field_names = list(field_names)
        self.const_names = {}
        for key, c in CONSTS.consts.items():
            try:
                self.const_names[str(self.m.eval(c, model_completion=True))] = key
            except Exception:
                pass
        self.none = str(self.m.eval(NONE, model_completion=True))
        self.class_names = {}
        for name, c in CLASSES.consts.items():
            self.class_names.setdefault(str(self.m.eval(c, model_completion=True)), name)

    def ev(self, t):
        return self.m.eval(t, model_completion=True)

    def int_(self, t):
        v = self.ev(t)
        try:
            return v.as_long()
        except Exception:
            return 0

    def bool_(self, t):
        return z3.is_true(self.ev(t))

    def seq_(self, t, espec: Spec, depth):
        n = self.int_(Q.Length(t))
        n = max(0, min(n, 6))
        return [self.val_(self.ev(Q.At(t, i)), espec, depth) for i in range(n)]

    def sym(self, s: Sym, depth=3):
        if s.kind == "int":
            return self.int_(s.t)
        if s.kind == "bool":
            return self.bool_(s.t)
        if s.kind in ("seq", "set"):
            es = s.spec.arg if s.spec is not None and isinstance(s.spec.arg, Spec) else Spec("val")
            return self.seq_(s.t, es, depth)
        if s.kind == "val":
            return self.val_(self.ev(s.t), s.spec or Spec("val"), depth)
        if s.kind == "dict":
            keys = self.seq_(s.py.keys, s.py.kspec, depth)
            n = min(self.int_(Q.Length(s.py.keys)), 12)
            out = []
            for i in range(max(0, n)):
                kt = self.ev(Q.At(s.py.keys, i))
                out.append([self.val_(kt, s.py.kspec, depth), self.val_(self.ev(z3.Select(s.py.vals, kt)), s.py.vspec, depth)])
            return {"$dict": out}
        return {"$unsupported": s.kind}

    def val_(self, t, spec: Spec, depth):
        self.budget -= 1
        if self.budget < 0:
            return {"$truncated": True}
        name = str(t)
        k = spec.kind
        if k == "opt":
            if name == self.none:
                return None
            return self.val_(t, spec.arg, depth)
        if name == self.none:
            return None
        if name in self.const_names:
            return {"$const": self.const_names[name]}
        if k == "int":
            return self.int_(unI(t))
        if k == "bool":
            return self.bool_(unB(t))
        if k == "str":
            return {"$str": name}
        if k == "seq":
            return self.seq_(unS(t), spec.arg if isinstance(spec.arg, Spec) else Spec("val"), depth - 1)
        cls = self.class_names.get(str(self.ev(typeof(t))), None)
        out = {"$obj": name, "$class": cls}
        if depth > 0:
            for f in self.field_names:
                fs = self.reg.fields.get(f, Spec("val"))
                try:
                    out[f] = self.val_(self.ev(fld(f)(t)), fs, depth - 1)
                except Exception:
                    pass
        return out

"""Mechanical enumeration of the places where the iteration order of a set can reach an observable result.

Hash seeds and memory layout enter a Python program only through the iteration order of set/frozenset (and of
views derived from them), id() and hash().  This scanner walks the real source of the anchored modules on every run
and lists each *order-sensitive consumer* of a set-typed expression; a site that is not in the committed disposition
table (c10_sites.json) is a new obligation and fails the check."""
from __future__ import annotations

import ast
from . import extract

SET_FIELDS = {"base_classes", "artificial_bases", "protocol_members", "used_ignores", "seen_errors"}
SET_CALLS = {"set", "frozenset"}
SET_SAFE_METHODS = {"update", "issubset", "issuperset", "intersection", "union", "difference", "symmetric_difference", "isdisjoint", "add", "discard", "remove",
                    "intersection_update", "difference_update", "safe_in", "get", "setdefault", "isinstance", "safe_isinstance", "id", "hash", "repr"}
ORDER_FREE_CONSUMERS = {"any", "all", "len", "sorted", "set", "frozenset", "sum", "min", "max", "bool", "isinstance"}


class _FnScan(ast.NodeVisitor):
    def __init__(self, modname, qual, fn):
        self.modname, self.qual, self.fn = modname, qual, fn
        self.setvars: set[str] = set()
        self.sites = []
        for a in fn.args.posonlyargs + fn.args.args + fn.args.kwonlyargs:
            if a.annotation is not None:
                ann = ast.unparse(a.annotation).replace("typing.", "").replace("builtins.", "")
                if ann.lower().startswith(("set[", "frozenset[", "abstractset[")) or ann in ("set", "frozenset"):
                    self.setvars.add(a.arg)
        # two passes so that names assigned from set expressions are known before their uses
        for _ in range(2):
            for n in ast.walk(fn):
                if isinstance(n, ast.Assign) and len(n.targets) == 1 and isinstance(n.targets[0], ast.Name) and self.is_set(n.value):
                    self.setvars.add(n.targets[0].id)
                if isinstance(n, ast.AnnAssign) and isinstance(n.target, ast.Name) and n.value is not None and self.is_set(n.value):
                    self.setvars.add(n.target.id)
                if isinstance(n, ast.AnnAssign) and isinstance(n.target, ast.Name) and ast.unparse(n.annotation).lower().startswith(("set[", "frozenset[", "set", "abstractset")):
                    self.setvars.add(n.target.id)

    def is_set(self, e) -> bool:
        if isinstance(e, (ast.Set, ast.SetComp)):
            return True
        if isinstance(e, ast.Call) and isinstance(e.func, ast.Name) and e.func.id in SET_CALLS:
            return True
        if isinstance(e, ast.Call) and isinstance(e.func, ast.Attribute) and e.func.attr in ("intersection", "union", "difference", "symmetric_difference"):
            return True
        if isinstance(e, ast.Name) and e.id in self.setvars:
            return True
        if isinstance(e, ast.Call) and isinstance(e.func, ast.Attribute) and e.func.attr in ("get", "pop", "setdefault") and len(e.args) == 2 and self.is_set(e.args[1]):
            return True   # d.get(k, set()): a mapping whose values are sets
        if isinstance(e, ast.Attribute) and e.attr in SET_FIELDS:
            return True
        if isinstance(e, ast.BinOp) and isinstance(e.op, (ast.Sub, ast.BitOr, ast.BitAnd, ast.BitXor)):
            # set algebra: one operand syntactically a set, or a dict keys view
            def viewish(x):
                return self.is_set(x) or (isinstance(x, ast.Call) and isinstance(x.func, ast.Attribute) and x.func.attr == "keys")
            return viewish(e.left) or viewish(e.right)
        return False

    def site(self, node, kind, expr):
        self.sites.append({"function": self.qual, "module": self.modname, "line": node.lineno, "kind": kind, "expr": ast.unparse(expr)[:80]})

    def scan(self):
        parents = {}
        for n in ast.walk(self.fn):
            for c in ast.iter_child_nodes(n):
                parents[id(c)] = n
        for n in ast.walk(self.fn):
            if isinstance(n, (ast.For, ast.AsyncFor)) and self.is_set(n.iter):
                if self.loop_is_order_free(n):
                    continue
                self.site(n, "for-loop over a set", n.iter)
            elif isinstance(n, (ast.ListComp, ast.GeneratorExp, ast.DictComp)):
                for g in n.generators:
                    if self.is_set(g.iter):
                        par = parents.get(id(n))
                        if isinstance(par, ast.Call) and isinstance(par.func, ast.Name) and par.func.id in ORDER_FREE_CONSUMERS:
                            continue
                        self.site(n, "ordered comprehension over a set", g.iter)
            elif isinstance(n, ast.Call):
                f = n.func
                if isinstance(f, ast.Name) and f.id in ("list", "tuple", "enumerate", "iter", "next") and n.args and self.is_set(n.args[0]):
                    self.site(n, f"{f.id}() of a set", n.args[0])
                elif isinstance(f, ast.Attribute) and f.attr == "join" and n.args and self.is_set(n.args[0]):
                    self.site(n, "str.join of a set", n.args[0])
                elif isinstance(f, ast.Attribute) and f.attr == "join" and n.args and isinstance(n.args[0], ast.Call) and isinstance(n.args[0].func, ast.Name) \
                        and n.args[0].func.id == "map" and len(n.args[0].args) == 2 and self.is_set(n.args[0].args[1]):
                    self.site(n, "str.join of a set", n.args[0].args[1])
                elif isinstance(f, ast.Attribute) and f.attr == "pop" and not n.args and self.is_set(f.value):
                    self.site(n, "set.pop()", f.value)
                # a set handed to a parameter declared as an ordered iterable (the callee will iterate it)
                callee = f.attr if isinstance(f, ast.Attribute) else (f.id if isinstance(f, ast.Name) else None)
                target = FUNCS.get((self.modname, callee))
                if target is not None and callee not in ORDER_FREE_CONSUMERS:
                    params = [a for a in target.args.posonlyargs + target.args.args if a.arg not in ("self", "cls")]
                    for i, a in enumerate(n.args):
                        if i < len(params) and params[i].annotation is not None and self.is_set(a):
                            ann = ast.unparse(params[i].annotation)
                            if ann.startswith(("Iterable", "Sequence", "list", "List", "Collection", "tuple", "Tuple")):
                                self.site(n, f"set passed to the ordered-iterable parameter `{params[i].arg}` of {callee}()", a)
                # a set handed to any other callee escapes the function: the callee may iterate it, unless the receiving
                # parameter / dataclass field is declared Container[...] (membership only) or set[...] (then the callee is
                # scanned with that parameter as a set)
                if callee is not None and callee not in ORDER_FREE_CONSUMERS and callee not in SET_SAFE_METHODS \
                        and callee not in ("list", "tuple", "enumerate", "iter", "next", "join", "pop"):
                    decl = ANY_FUNCS.get(callee)
                    names, anns = [], {}
                    if decl is not None:
                        ps = [a for a in decl.args.posonlyargs + decl.args.args if a.arg not in ("self", "cls")]
                        names = [a.arg for a in ps]
                        anns = {a.arg: (ast.unparse(a.annotation) if a.annotation is not None else None) for a in ps + decl.args.kwonlyargs}
                    elif callee in CLASS_FIELDS:
                        names = [f for f, _ in CLASS_FIELDS[callee]]
                        anns = dict(CLASS_FIELDS[callee])
                    pairs = [(names[i] if i < len(names) else None, a) for i, a in enumerate(n.args)] + [(k.arg, k.value) for k in n.keywords]
                    for pname, a in pairs:
                        if not self.is_set(a):
                            continue
                        ann = (anns.get(pname) or "").replace("typing.", "").replace("builtins.", "")
                        if ann.startswith("Container[") or ann.lower().startswith(("set[", "frozenset[", "abstractset[")) or ann in ("set", "frozenset"):
                            continue
                        already = any(s_["line"] == n.lineno and s_["expr"] == ast.unparse(a)[:80] for s_ in self.sites)
                        if not already:
                            self.site(n, f"set passed to {callee}()", a)
            elif isinstance(n, ast.Starred) and self.is_set(n.value):
                self.site(n, "star-unpacking of a set", n.value)
        return self.sites

    def loop_is_order_free(self, loop) -> bool:
        """`for x in S: if P(x): return CONST` / any-shaped loops whose only effects are returning a constant"""
        for st in ast.walk(loop):
            if isinstance(st, (ast.Yield, ast.YieldFrom)):
                return False
            if isinstance(st, ast.Return) and st.value is not None and not isinstance(st.value, ast.Constant):
                return False
            if isinstance(st, ast.Call) and isinstance(st.func, ast.Attribute) and st.func.attr in ("append", "extend", "show_error", "add_invalid", "insert"):
                return False
            if isinstance(st, (ast.Assign, ast.AugAssign)) and st is not loop:
                targets = st.targets if isinstance(st, ast.Assign) else [st.target]
                for t in targets:
                    if not isinstance(t, ast.Name):
                        return False
        # assignments to plain locals inside the loop could still leak the *last/first* element
        for st in ast.walk(loop):
            if isinstance(st, ast.Assign) and st is not loop:
                return False
            if isinstance(st, ast.AugAssign):
                return False
        return True


def set_typed_fields(modnames):
    """names of class attributes annotated as set / frozenset in the scanned modules (read from source every run)"""
    out = set()
    for m in modnames:
        mod = extract.get_module(m)
        for node in ast.walk(mod.tree):
            if isinstance(node, ast.ClassDef):
                for st in node.body:
                    if isinstance(st, ast.AnnAssign) and isinstance(st.target, ast.Name):
                        ann = ast.unparse(st.annotation).replace("typing.", "").replace("builtins.", "")
                        if ann.lower().startswith(("set[", "frozenset[", "abstractset[")) or ann in ("set", "frozenset"):
                            out.add(st.target.id)
    return out


FUNCS: dict = {}
ANY_FUNCS: dict = {}      # function / method name -> def (first definition found in the scanned modules; ambiguous names are dropped)
CLASS_FIELDS: dict = {}   # class name -> [(field, annotation text)] in declaration order


def scan_modules(modnames):
    SET_FIELDS.update(set_typed_fields(modnames))
    for m in modnames:
        mod = extract.get_module(m)
        for node in ast.walk(mod.tree):
            if isinstance(node, (ast.FunctionDef, ast.AsyncFunctionDef)):
                FUNCS.setdefault((m, node.name), node)
    ambiguous = set()
    for m in modnames:
        mod = extract.get_module(m)
        for node in ast.walk(mod.tree):
            if isinstance(node, (ast.FunctionDef, ast.AsyncFunctionDef)):
                if node.name in ANY_FUNCS and ANY_FUNCS[node.name] is not node:
                    ambiguous.add(node.name)
                ANY_FUNCS.setdefault(node.name, node)
            if isinstance(node, ast.ClassDef):
                CLASS_FIELDS.setdefault(node.name, [(st.target.id, ast.unparse(st.annotation)) for st in node.body
                                                    if isinstance(st, ast.AnnAssign) and isinstance(st.target, ast.Name)])
    for nme in ambiguous:
        ANY_FUNCS.pop(nme, None)
    sites = []
    for m in modnames:
        mod = extract.get_module(m)
        for node in ast.walk(mod.tree):
            if isinstance(node, ast.ClassDef):
                for f in node.body:
                    if isinstance(f, (ast.FunctionDef, ast.AsyncFunctionDef)):
                        sites += _FnScan(m, f"{m}.{node.name}.{f.name}", f).scan()
        for f in mod.tree.body:
            if isinstance(f, (ast.FunctionDef, ast.AsyncFunctionDef)):
                sites += _FnScan(m, f"{m}.{f.name}", f).scan()
    # de-duplicate nested reports
    seen, out = set(), []
    for s in sites:
        k = (s["function"], s["kind"], s["expr"])
        if k not in seen:
            seen.add(k)
            out.append(s)
    return out

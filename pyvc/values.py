"""Boxing / unboxing / truthiness / equality / sequence helpers on Sym values."""
from __future__ import annotations

import z3

from . import seqs as Q
from .core import (CLASSES, CONSTS, NONE, SeqV, V, IntS, BoolS, Spec, VAL, Sym, State, DictPayload,
                   S_bool, S_int, S_seq, S_val, fresh, is_prim, mkB, mkI, mkL, mkT, pyeq,
                   truthy, typeof, unB, unI, unS, Unsupported)

_fld_cache: dict = {}


def fld(name: str):
    if name not in _fld_cache:
        _fld_cache[name] = z3.Function(f"fld_{name}", V, V)
    return _fld_cache[name]


_uf_cache: dict = {}


def uf(name: str, *sorts):
    key = (name, tuple(str(s) for s in sorts))
    if key not in _uf_cache:
        _uf_cache[key] = z3.Function(name, *sorts)
    return _uf_cache[key]


def _is_app_of(t, f) -> bool:
    return z3.is_app(t) and t.num_args() == 1 and t.decl().eq(f)


def box(sym: Sym, st: State):
    """Sym -> z3 term of sort V (adds the boxing facts at this site)."""
    k = sym.kind
    if k == "val":
        return sym.t
    if k == "int":
        if _is_app_of(sym.t, unI):
            return sym.t.arg(0)
        v = mkI(sym.t)
        st.pc.append(unI(v) == sym.t)
        st.pc.append(typeof(v) == CLASSES.const("int"))
        st.pc.append(truthy(v) == (sym.t != 0))
        return v
    if k == "bool":
        if _is_app_of(sym.t, unB):
            return sym.t.arg(0)
        v = mkB(sym.t)
        st.pc.append(unB(v) == sym.t)
        st.pc.append(unI(v) == z3.If(sym.t, 1, 0))
        st.pc.append(typeof(v) == CLASSES.const("bool"))
        st.pc.append(truthy(v) == sym.t)
        return v
    if k == "seq":
        if _is_app_of(sym.t, unS):
            return sym.t.arg(0)
        tup = sym.spec.tup if sym.spec else None
        if tup is None:
            v = uf("mkSeq", SeqV, V)(sym.t)  # list or tuple, statically unknown (a function of the content: binder-safe)
            st.pc.append(z3.Or(typeof(v) == CLASSES.const("list"), typeof(v) == CLASSES.const("tuple")))
        else:
            v = (mkT if tup else mkL)(sym.t)
            st.pc.append(typeof(v) == CLASSES.const("tuple" if tup else "list"))
        st.pc.append(unS(v) == sym.t)
        st.pc.append(truthy(v) == (Q.Length(sym.t) > 0))
        # extensionality of boxed sequences (tuples/lists passed to uninterpreted functions): equal contents,
        # equal value.  Instantiated pairwise for the sequences boxed in this state (not under binders).
        seen = st.notes.get("boxed_seqs") or []
        if not any(s_.eq(sym.t) for s_, _ in seen):
            for s_, v_ in seen[-6:]:
                if v_.decl().eq(v.decl()):
                    st.pc.append(z3.Implies(Q.Eq(s_, sym.t), v_ == v))
            if not (st.notes.get("binders") or []):
                st.notes["boxed_seqs"] = seen + [(sym.t, v)]
        return v
    if k in ("dict", "set"):
        # round trip: a dict / set unboxed from a value term and not modified since boxes back to that term
        if k == "dict" and z3.is_app(sym.py.keys) and sym.py.keys.decl().name() == "dictkeys" and z3.is_app(sym.py.vals) \
                and sym.py.vals.decl().name() == "dictvals" and sym.py.keys.arg(0).eq(sym.py.vals.arg(0)):
            return sym.py.keys.arg(0)
        if k == "set" and z3.is_app(sym.t) and sym.t.decl().name() == "setelems":
            return sym.t.arg(0)
        if k == "set":
            # a function of the content (binder-safe; equal contents box to equal values)
            v = uf("mkSet", SeqV, V)(sym.t)
            st.pc.append(uf("setelems", V, SeqV)(v) == sym.t)
            st.pc.append(typeof(v) == CLASSES.const("set"))
            st.pc.append(truthy(v) == (Q.Length(sym.t) > 0))
            return v
        v = fresh("box" + k, V)
        if not (st.notes.get("binders") or []):
            if k == "dict":
                st.pc.append(uf("dictkeys", V, SeqV)(v) == sym.py.keys)
                st.pc.append(uf("dictvals", V, z3.ArraySort(V, V))(v) == sym.py.vals)
            else:
                st.pc.append(uf("setelems", V, SeqV)(v) == sym.t)
        st.notes.setdefault("boxed", {})[v.get_id()] = sym
        st.pc.append(typeof(v) == CLASSES.const(k))
        if k == "dict":
            st.pc.append(truthy(v) == (Q.Length(sym.py.keys) > 0))
        else:
            st.pc.append(truthy(v) == (Q.Length(sym.t) > 0))
        return v
    if k == "cls":
        return CONSTS.get("class", sym.py)
    if k == "pyobj" and sym.py[0] in ("external", "module", "builtin"):
        return CONSTS.get("ext", str(sym.py[1]))
    if k == "func":
        return CONSTS.get("func", str(sym.py if not isinstance(sym.py, tuple) else id(sym.py[0])))
    raise Unsupported(f"cannot box {sym}")


def unbox(spec: Spec, t, st: State, facts: bool = True) -> Sym:
    """z3 V term -> Sym of the kind the spec prescribes (adds the typing facts of the spec)."""
    boxed = st.notes.get("boxed", {}).get(t.get_id())
    if boxed is not None:
        return boxed
    k = spec.kind
    if k == "val":
        return S_val(t)
    if k == "str":
        return S_val(t, spec)
    if k == "prim":
        return S_val(t, spec)
    if k == "int":
        if _is_app_of(t, mkI):
            return S_int(t.arg(0))
        if facts:
            st.assume(t != NONE)
            st.assume(isa(t, "int"))   # type invariant of an int-annotated location (bool included)
        return S_int(unI(t))
    if k == "bool":
        if _is_app_of(t, mkB):
            return S_bool(t.arg(0))
        if facts:
            st.assume(truthy(t) == unB(t))
            st.assume(unI(t) == z3.If(unB(t), 1, 0))
            st.assume(t != NONE)
        return S_bool(unB(t))
    if k == "seq":
        if (_is_app_of(t, mkL) or _is_app_of(t, mkT)):
            return Sym("seq", t.arg(0), spec)
        if facts:
            st.assume(t != NONE)
        return Sym("seq", unS(t), spec)
    if k == "tupleof":
        if facts:
            st.assume(t != NONE)
            st.assume(Q.Length(unS(t)) == len(spec.arg))
        return Sym("seq", unS(t), spec)
    if k == "obj":
        if facts:
            st.assume(t != NONE)
            st.assume(isa(t, spec.arg))
        return S_val(t, spec)
    if k == "opt":
        inner = spec.arg
        if inner.kind == "obj":
            if facts:
                st.assume(z3.Or(t == NONE, isa(t, inner.arg)))
            return S_val(t, spec)
        return S_val(t, spec)
    if k == "dict":
        keys = uf("dictkeys", V, SeqV)(t)
        vals = uf("dictvals", V, z3.ArraySort(V, V))(t)
        if facts:
            st.assume(Q.Distinct(keys))
        return Sym("dict", None, spec, DictPayload(keys, vals, spec.arg[0], spec.arg[1]))
    if k == "set":
        return Sym("set", uf("setelems", V, SeqV)(t), spec)
    raise Unsupported(f"unbox {spec}")


def isa(t, clsname: str):
    from .core import sub
    return sub(typeof(t), CLASSES.const(clsname))


def as_int(sym: Sym, st: State):
    if sym.kind == "int":
        return sym.t
    if sym.kind == "bool":
        return z3.If(sym.t, 1, 0)
    if sym.kind == "val":
        return unI(sym.t)
    raise Unsupported(f"as_int {sym}")


def as_seq(sym: Sym, st: State):
    if sym.kind in ("seq", "set"):
        return sym.t
    if sym.kind == "val":
        return unS(sym.t)
    if sym.kind == "dict":
        return sym.py.keys
    raise Unsupported(f"as_seq {sym}")


def elem_spec(sym: Sym) -> Spec:
    if sym.spec is not None:
        sp = sym.spec
        if sp.kind == "opt":
            sp = sp.arg
        if sp.kind in ("seq", "set") and isinstance(sp.arg, Spec):
            return sp.arg
        if sp.kind == "dict":
            return sp.arg[0]
    return VAL


def truth(sym: Sym, st: State):
    k = sym.kind
    if k == "bool":
        return sym.t
    if k == "int":
        return sym.t != 0
    if k in ("seq", "set"):
        return Q.Length(sym.t) > 0
    if k == "dict":
        return Q.Length(sym.py.keys) > 0
    if k == "val":
        if sym.t.eq(NONE):
            return z3.BoolVal(False)
        if _is_app_of(sym.t, mkB):
            return sym.t.arg(0)
        return truthy(sym.t)
    if k in ("cls", "func"):
        return z3.BoolVal(True)
    raise Unsupported(f"truth {sym}")


def py_equal(a: Sym, b: Sym, st: State):
    """Python ``==``."""
    if a.kind in ("int", "bool") and b.kind in ("int", "bool"):
        if a.kind == "bool" and b.kind == "bool":
            return a.t == b.t
        return as_int(a, st) == as_int(b, st)
    if a.kind == "seq" and b.kind == "seq":
        ea, eb = elem_spec(a), elem_spec(b)
        if ea.kind in ("str", "int", "bool", "prim") or eb.kind in ("str", "int", "bool", "prim"):
            return Q.Eq(a.t, b.t)
        i = fresh("eqi", IntS)
        return z3.And(Q.Length(a.t) == Q.Length(b.t),
                      z3.ForAll([i], z3.Implies(z3.And(0 <= i, i < Q.Length(a.t)),
                                                veq(Q.At(a.t, i), Q.At(b.t, i)))))
    if a.kind == "cls" and b.kind == "cls":
        return z3.BoolVal(a.py == b.py)
    if a.kind == "seq" and b.kind == "val" or a.kind == "val" and b.kind == "seq":
        s, v = (a, b) if a.kind == "seq" else (b, a)
        if elem_spec(s).kind in ("str", "int", "bool", "prim"):
            return Q.Eq(unS(v.t), s.t)
    if (a.kind == "int" and b.kind == "val") or (b.kind == "int" and a.kind == "val"):
        i, x = (a, b) if a.kind == "int" else (b, a)
        # int == object: true exactly for int-like objects (int, bool) with that numeric value (floats are not modelled)
        return z3.And(isa(x.t, "int"), unI(x.t) == i.t)
    ta, tb = box(a, st), box(b, st)
    if is_prim(a) or is_prim(b):
        return ta == tb
    return veq(ta, tb)


def veq(ta, tb):
    """`==` on boxed values: the uninterpreted relation ``pyeq`` (reflexive and symmetric by two
    global axioms that create no new terms); refined by the theory where it matters."""
    if ta.eq(tb):
        return z3.BoolVal(True)
    return pyeq(ta, tb)


def norm_index(i, n):
    return z3.If(i < 0, i + n, i)


def seq_slice(st, s, lo, hi, n=None):
    """CPython slice semantics for step 1; lo/hi are Int terms or None."""
    n = Q.Length(s) if n is None else n
    def clamp(x, default):
        if x is None:
            return default
        x = z3.If(x < 0, x + n, x)
        return z3.If(x < 0, 0, z3.If(x > n, n, x))
    a = clamp(lo, z3.IntVal(0))
    b = clamp(hi, n)
    return Q.Extract(st, s, a, b - a)


def seq_contains(s, x, st=None):
    return Q.Contains(s, x, st)

"""Mechanical extraction of kernels from /repo's *current working tree*.

Nothing here is hand-copied: every run re-parses the repository source with
``ast.parse`` and hands the real ``FunctionDef`` nodes to the symbolic executor.
What extraction drops is listed in DESIGN.md §2.7 (docstrings, annotations,
decorators, logging).
"""
from __future__ import annotations

import ast
import hashlib
import os
from functools import lru_cache
from typing import Optional

REPO = os.environ.get("PYVC_REPO", "/repo")


class ExtractionError(Exception):
    pass


class Module:
    def __init__(self, modname: str):
        self.modname = modname
        self.path = os.path.join(REPO, modname.replace(".", "/") + ".py")
        if not os.path.exists(self.path):
            raise ExtractionError(f"no such module file {self.path}")
        with open(self.path, encoding="utf-8") as f:
            self.src = f.read()
        self.tree = ast.parse(self.src)
        self.classes: dict[str, ast.ClassDef] = {}
        self.funcs: dict[str, ast.FunctionDef] = {}
        self.imports: dict[str, str] = {}
        self.assigns: dict[str, ast.expr] = {}
        self._scan(self.tree.body)

    def _scan(self, body):
        for node in body:
            if isinstance(node, ast.ClassDef):
                self.classes[node.name] = node
            elif isinstance(node, (ast.FunctionDef, ast.AsyncFunctionDef)):
                self.funcs.setdefault(node.name, node)
            elif isinstance(node, ast.ImportFrom):
                base = node.module or ""
                if node.level:
                    pkg = self.modname.split(".")[: -node.level]
                    base = ".".join(pkg + ([base] if base else []))
                for a in node.names:
                    self.imports[a.asname or a.name] = f"{base}.{a.name}"
            elif isinstance(node, ast.Import):
                for a in node.names:
                    self.imports[a.asname or a.name.split(".")[0]] = (
                        a.name if a.asname else a.name.split(".")[0]
                    )
            elif isinstance(node, ast.Assign):
                for t in node.targets:
                    if isinstance(t, ast.Name):
                        self.assigns[t.id] = node.value
            elif isinstance(node, ast.AnnAssign):
                if isinstance(node.target, ast.Name) and node.value is not None:
                    self.assigns[node.target.id] = node.value
            elif isinstance(node, (ast.If, ast.Try)):
                # conditional definitions (version checks): scan both arms, first wins
                for sub in ("body", "orelse", "finalbody"):
                    self._scan(getattr(node, sub, []))
                for h in getattr(node, "handlers", []):
                    self._scan(h.body)


@lru_cache(maxsize=None)
def get_module(modname: str) -> Module:
    return Module(modname)


def split_qualname(qualname: str):
    """'pyanalyze.options.ConfigOption.sort_key' -> (module, ['ConfigOption','sort_key'])"""
    parts = qualname.split(".")
    for i in range(len(parts), 0, -1):
        mod = ".".join(parts[:i])
        if os.path.exists(os.path.join(REPO, mod.replace(".", "/") + ".py")):
            return mod, parts[i:]
    raise ExtractionError(f"cannot locate module for {qualname}")


class Kernel:
    def __init__(self, qualname, node, module, classname, enclosing):
        self.qualname = qualname
        self.node: ast.FunctionDef = node
        self.module: Module = module
        self.classname: Optional[str] = classname
        self.enclosing = enclosing  # list of enclosing FunctionDef nodes (closures)
        seg = ast.get_source_segment(module.src, node) or ""
        self.source = seg
        self.sha256 = hashlib.sha256(seg.encode()).hexdigest()
        self.lineno = node.lineno
        self.decorators = [ast.unparse(d) for d in node.decorator_list]

    @property
    def is_generator(self):
        for n in walk_no_nested(self.node):
            if isinstance(n, (ast.Yield, ast.YieldFrom)):
                return True
        return False


def walk_no_nested(fn):
    """ast.walk over a function body that does not descend into nested defs/lambdas/classes."""
    stack = list(fn.body)
    while stack:
        n = stack.pop()
        yield n
        for c in ast.iter_child_nodes(n):
            if isinstance(c, (ast.FunctionDef, ast.AsyncFunctionDef, ast.ClassDef, ast.Lambda)):
                continue
            stack.append(c)


def find_kernel(qualname: str) -> Kernel:
    modname, path = split_qualname(qualname)
    mod = get_module(modname)
    if not path:
        raise ExtractionError(f"{qualname} names a module")
    classname = None
    enclosing = []
    cur_body = mod.tree.body
    node = None
    for i, name in enumerate(path):
        found = None
        for n in _iter_defs(cur_body):
            if isinstance(n, (ast.FunctionDef, ast.AsyncFunctionDef, ast.ClassDef)) and n.name == name:
                found = n
                break
        if found is None:
            raise ExtractionError(f"{qualname}: '{name}' not found")
        if isinstance(found, ast.ClassDef):
            classname = found.name
            cur_body = found.body
        else:
            if i < len(path) - 1:
                enclosing.append(found)
            cur_body = found.body
        node = found
    if not isinstance(node, (ast.FunctionDef, ast.AsyncFunctionDef)):
        raise ExtractionError(f"{qualname} is not a function")
    return Kernel(qualname, node, mod, classname, enclosing)


def _iter_defs(body):
    """Definitions in a body, looking through if/try/with/for nesting (closures defined in branches)."""
    for n in body:
        if isinstance(n, (ast.FunctionDef, ast.AsyncFunctionDef, ast.ClassDef)):
            yield n
        elif isinstance(n, (ast.If, ast.Try, ast.With, ast.For, ast.While)):
            for sub in ("body", "orelse", "finalbody"):
                yield from _iter_defs(getattr(n, sub, []))
            for h in getattr(n, "handlers", []):
                yield from _iter_defs(h.body)


# ---------------------------------------------------------------------------
# class hierarchy & dataclass fields, read from source on every run


def class_bases(modname: str) -> dict[str, list[str]]:
    mod = get_module(modname)
    out = {}
    for name, node in mod.classes.items():
        bases = []
        for b in node.bases:
            if isinstance(b, ast.Name):
                bases.append(b.id)
            elif isinstance(b, ast.Attribute):
                bases.append(ast.unparse(b))
            elif isinstance(b, ast.Subscript):  # Generic[T], ConfigOption[bool]
                bases.append(ast.unparse(b.value))
        out[name] = bases
    return out


def find_class(name: str, modnames) -> Optional[tuple[Module, ast.ClassDef]]:
    for m in modnames:
        mod = get_module(m)
        if name in mod.classes:
            return mod, mod.classes[name]
    return None


def dataclass_fields(name: str, modnames) -> Optional[list[dict]]:
    """Ordered __init__ fields of a dataclass (with inheritance). None if class unknown."""
    hit = find_class(name, modnames)
    if hit is None:
        return None
    mod, node = hit
    fields: list[dict] = []
    for b in node.bases:
        bname = b.id if isinstance(b, ast.Name) else (b.value.id if isinstance(b, ast.Subscript) and isinstance(b.value, ast.Name) else None)
        if bname:
            bf = dataclass_fields(bname, modnames)
            if bf:
                for f in bf:
                    fields = [x for x in fields if x["name"] != f["name"]] + [f]
    for st in node.body:
        if isinstance(st, ast.AnnAssign) and isinstance(st.target, ast.Name):
            ann = ast.unparse(st.annotation)
            if ann.startswith("ClassVar"):
                continue
            init = True
            default = st.value
            if isinstance(default, ast.Call) and isinstance(default.func, ast.Name) and default.func.id == "field":
                d2 = None
                for kw in default.keywords:
                    if kw.arg == "init" and isinstance(kw.value, ast.Constant) and kw.value.value is False:
                        init = False
                    if kw.arg == "default":
                        d2 = kw.value
                    if kw.arg == "default_factory":
                        d2 = ast.Call(func=kw.value, args=[], keywords=[])
                default = d2
            f = {"name": st.target.id, "ann": ann, "init": init, "default": default,
                 "initvar": ann.startswith("InitVar"), "kw_only": False}
            fields = [x for x in fields if x["name"] != f["name"]] + [f]
    return fields


def has_method(name: str, meth: str, modnames) -> bool:
    hit = find_class(name, modnames)
    if hit is None:
        return False
    _, node = hit
    return any(isinstance(n, ast.FunctionDef) and n.name == meth for n in node.body)

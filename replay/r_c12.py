"""C12 native replay (bounded stand-in): generated modules (deliberately ill-typed bodies inside functions, so the module
still imports) through the real checker: no exception, no internal_error, every diagnostic well formed; and the public value
API (can_assign / is_assignable, unite_values, substitute_typevars) on pairs of generated Values returns instead of raising."""
import itertools
import random

HEAD = """
import asyncio, dataclasses, enum, os, typing, typing_extensions
from typing import Any, Callable, Dict, Generic, List, Optional, Tuple, TypeVar, Union
T = TypeVar("T")
class Base:
    attr: int = 1
    def meth(self, x: int, *rest: str, key: bool = False) -> "Base":
        return self
    @property
    def prop(self) -> int:
        return 1
    @classmethod
    def make(cls) -> "Base":
        return cls()
    @staticmethod
    def stat(a, /, b, *, c=1): return (a, b, c)
class Child(Base, Generic[T]):
    def __init__(self, v: T = None) -> None:
        self.v = v
class Col(enum.Enum):
    R = 1
    G = "g"
@dataclasses.dataclass
class DC:
    a: int
    b: List[str] = dataclasses.field(default_factory=list)
def two(a: int, b: str = "x", *args: float, k: bool = False, **kw: bytes) -> Tuple[int, str]:
    return (a, b)
def deco(f):
    return f
"""

STMTS = [
    "x = two()", "x = two(1, 2, 3, k=1, z=b'')", "x = two('a', *[1, 2], **{'k': 1})", "x = undefined_thing + 1", "x = 1 + 'a'", "x = -'s'", "x = [1][5]; y = (1, 2)[7]",
    "x = {'a': 1}['b']", "x = Base().nope", "x = Base.meth(1)", "x = Base().meth('s', 1, key=2)", "x = Base().prop()", "x = os.ptah", "x = Col.R + Col.G", "x = Col['Z']",
    "x = DC()", "x = DC(1, 2, 3)", "x = DC(a='s').b.append(1)", "x = Child[int](3).v + 'a'", "x: List[int] = ['a']", "x: Callable[[int], str] = two", "x: 'Undefined' = 1",
    "x: Dict[str, int, bytes] = {}", "x: Optional[int, str] = None", "x: Tuple[int, ...] = (1, 's')", "x: Union = 1", "x = [i for i in 3]", "x = {k: v for k, v in [1, 2]}",
    "x = (lambda a, b=1, *c, d, **e: a + d)(1)", "x = (lambda: y)()", "a, *b, c = 1, 2", "a, b = 1, 2, 3", "*a, = 1", "x = [*1, *'ab']", "x = {**1}", "x = f'{undefined_name!r:>{width}}'",
    "x = f'{1 + \"a\"}'", "x = f'{None:>5}'", "x = f'{(1, 2):>8}'", "x = f'{Base:>3}'", "x = f'{[1]:x}{3:zz}{p:>{q}}'", "x = '%d %s' % (1,)", "x = '{} {}'.format(1)", "x = '%(a)s' % {'b': 1}", "if (n := 'a') > 1: pass", "x = (y := 5) + y", "x = [z := 1, z + 's']",
    "match 1:\n        case int(real=r):\n            x = r + 's'\n        case [a, *b] | {'k': a, **b}:\n            x = a\n        case Base(attr=3) | None:\n            x = 0\n        case _ if undefined_guard:\n            x = 1",
    "match DC(1):\n        case DC(a, b, c):\n            pass\n        case DC(q=1):\n            pass",
    "for i, j in [1, 2]: pass", "for i in 5: pass", "while 1:\n        break\n    else:\n        x = 1", "with 1 as z: pass", "with open('f') as f, f: pass", "try:\n        pass\n    except 5:\n        pass",
    "try:\n        x = 1\n    except (ValueError, 'a') as e:\n        y = e.nope\n    finally:\n        del x", "del undefined_one", "assert (1, 'always true')", "raise 5", "raise ValueError from 3",
    "return 1 + None", "yield 1", "x = yield from 5", "x = await 5", "global g_one; g_one = 1", "x = [][0].a.b.c()", "x = two(*5)", "x = two(**[1])", "x = isinstance(1, 5)", "x = len(5)",
    "x = sorted(1, key=2)", "x = int('a', 1, 2, 3)", "x = dict(a=1)['b']", "x = (1).real.nope", "x = None.attr", "x = typing.cast(5, 5)", "x = typing.cast('int', 'a') + 's'", "x = super().nope",
    "x = Base.stat(b=1)", "x = Base.stat(1, 2, 3)", "x = Base.make().meth()", "x = Child().meth(1).v", "x = not Base", "x = 1 if Base else 2", "x = 1 < 'a' < None", "x = 1 in 5", "x = 's' is 's'",
    "x = ~1.5", "x = 1 @ 2", "x = 2 ** 'a'", "x = 1 // 0", "x = 's' * 's'", "x = [1] + (2,)", "x = {1} | [2]", "x = b'a' + 'a'", "x = 1 .bit_length(3)", "x = 'a'.join(5)", "x = 'a'.format(**5)",
    "def inner(a, a2=undefined_default): return a\n    x = inner()", "class Local(undefined_base): pass", "class Local2(Base, Base): pass" if False else "class Local2(Base):\n        def meth(self): return 1",
    "@deco\n    @undefined_deco\n    def inner2(): pass", "async def ainner():\n        await two()\n        async for q in 5: pass\n        async with 5 as r: pass\n    x = ainner() + 1",
    "x = [a for a in range(3) if a.nope for b in a]", "x = {a for a in 'abc' if b}", "x = (c async for c in 5)", "nonlocal_missing = 1", "x = print(file=5, sep=3)", "x = type('N', (Base,), {})().nope",
    "x = typing.NamedTuple('NT', [('a', int)])(1, 2)", "x = typing.TypedDict('TD', {'a': int})(a='s')", "x = Callable[[int], str](1)", "x = List[int]()", "x = Optional[int](1)",
]


ANNS = ["Literal[-'a']", "Literal[-None]", "Literal[-1]", "Literal[-1.5]", "Literal[~1]", "Literal[+'a']", "Literal[not 1]", "-int", "~int", "int + 1", "1 < 2", "lambda: 1", "[int]", "{int: str}", "{int}",
        "f'{x}'", "int if 1 else str", "x := 1", "int[str]", "Literal[1.5]", "Literal[-1j]", "Literal[()]", "Literal", "Callable[int]", "Callable[[int], str, bytes]", "Annotated[int]", "Annotated[int, 1][2]",
        "Tuple[()]", "Tuple[int, ..., str]", "Tuple[...]", "Optional", "Union[()]", "Dict[int]", "List[int, str]", "Type[1]", "typing.Final", "typing.ClassVar[int][str]", "Undefined.attr", "os.path", "None[int]",
        "int | 'str'", "(int, str)", "int.real", "typing.Literal[Col.R, -Col.G]", "T[int]", "Child[int, str]", "DC(1)", "print", "...", "b'x'", "''", "' '", "1", "1.5 + 2j", "*int", "**int", "await x", "(yield)", "x for x in y"]


NESTED_MISTAKES = ["typing.List[typing.Nope]", "Dict[str, typing.Nope]", "List[Undefined.attr]", "Optional[List[int + 1]]", "Callable[[typing.Nope], int]", "Tuple[int, Literal[-'a']]"]
EMPTY_SUBSCRIPTS = [f"{n}[()]" for n in ("typing.Annotated", "typing_extensions.Annotated", "Optional", "Type", "Callable", "Dict", "List", "typing.Set", "typing.ClassVar", "typing.Final", "typing_extensions.Required",
                                            "typing_extensions.NotRequired", "typing_extensions.TypeGuard", "typing_extensions.Unpack", "typing_extensions.Concatenate", "Child", "T")]
FORMS = ["var", "param", "ret", "cast", "both"]


def _ann_stmt(rnd, a=None, form=None):
    a = rnd.choice(ANNS) if a is None else a
    q = repr(a)
    form = rnd.choice(FORMS) if form is None else form
    if form == "var":
        return f"x: {q} = 1"
    if form == "param":
        return f"def inner_a(p: {q}, *r: {q}, k: {q} = 1, **s: {q}): pass\n    x = inner_a(1)"
    if form == "ret":
        return f"def inner_b() -> {q}: return 1\n    x = inner_b()"
    if form == "cast":
        return f"x = typing.cast({q}, 1)"
    return f"def inner_c(p: {q}) -> {q}:\n        y: {q} = p\n        return y\n    x = inner_c(1)"


def module(rnd, n):
    picks = [rnd.choice(STMTS) if rnd.random() < 0.75 else _ann_stmt(rnd) for _ in range(n)]
    lines = [HEAD]
    for i, st in enumerate(picks):
        is_async = "await" in st.split("\n")[0] or "async for" in st or st.startswith("x = (c async")
        kind = "async def" if is_async else "def"
        lines.append(f"{kind} f{i}(p: int, q=None, *r, **s):\n    {st}\n")
    src = "\n".join(lines)
    return src


def verify_module(src):
    """no exception, no internal_error, registered codes, positions inside the file, non-empty messages"""
    from replay.checkcode import check_code
    from pyanalyze.error_code import ErrorCode, Error
    registered = set(ErrorCode)
    nlines = src.count("\n") + 1
    try:
        res = check_code(src)
    except BaseException as e:   # noqa: the property is exactly that this does not happen
        return f"the checker raised {type(e).__name__}: {e} on\n{src[len(HEAD):]}"
    src_lines = src.split("\n")
    for fl in res:
        code = fl.get("code")
        if code is None or not isinstance(code, Error) or code not in registered:
            return f"diagnostic without a registered error code: {fl}"
        if code is ErrorCode.internal_error:
            return f"internal_error: {fl.get('description')} on\n{src[len(HEAD):]}"
        ln = fl.get("lineno")
        if ln is not None and not (1 <= ln <= nlines):
            return f"diagnostic line {ln} outside the file (1..{nlines}): {fl.get('description')}"
        col = fl.get("col_offset")
        if ln is not None and col is not None and not (0 <= col <= len(src_lines[ln - 1])):
            return f"diagnostic column {col} outside line {ln} ({len(src_lines[ln - 1])} characters): {fl.get('description')}"
        if not (fl.get("description") or "").strip() or not (fl.get("message") or "").strip():
            return f"diagnostic with empty message: {fl}"
    return None


def search_annotations():
    """every malformed annotation of the list (plus every special form subscripted with the empty tuple), as a string annotation, in every position"""
    import ast
    rnd = random.Random(0)
    stmts = [(a, f) for a in ANNS + EMPTY_SUBSCRIPTS + NESTED_MISTAKES for f in FORMS]
    for off in range(0, len(stmts), 30):
        lines = [HEAD]
        for i, (a, f) in enumerate(stmts[off:off + 30]):
            lines.append(f"def f{i}(p: int, q=None, *r, **s):\n    {_ann_stmt(rnd, a, f)}\n")
        src = "\n".join(lines)
        try:
            import warnings
            with warnings.catch_warnings():
                warnings.simplefilter("ignore")
                ast.parse(src)
                exec(compile(src, "<gen>", "exec"), {})
        except Exception as e:
            return f"harness: the systematic annotation module does not import ({type(e).__name__}: {e})"
        from replay.util import count as _count
        _count(evaluations=30, distinct=30)
        msg = verify_module(src)
        if msg:
            return msg
    return None


def search_programs(count, seed):
    import ast
    from replay.checkcode import check_code
    from pyanalyze.error_code import ErrorCode, Error
    registered = set(ErrorCode)
    rnd = random.Random(seed)
    done = 0
    while done < count:
        src = module(rnd, rnd.choice([3, 5, 8]))
        try:
            import warnings
            with warnings.catch_warnings():
                warnings.simplefilter("ignore")
                ast.parse(src)
                exec(compile(src, "<gen>", "exec"), {})
        except SyntaxError:
            continue
        except Exception:
            continue    # the property quantifies over modules that import successfully
        done += 1
        from replay.util import count as _count, sample
        _count(evaluations=1, distinct=1)
        if done == 1:
            sample({"module_body": src[len(HEAD):][:600], "checked_for": "no exception, no internal_error, well-formed diagnostics"})
        msg = verify_module(src)
        if msg:
            return msg
    return None


def values():
    from pyanalyze.value import (AnnotatedValue, AnySource, AnyValue, CallableValue, GenericValue, KnownValue, MultiValuedValue, NewTypeValue, SequenceValue, SubclassValue,
                                 TypedDictEntry, TypedDictValue, TypedValue, TypeVarValue, UnboundMethodValue, NO_RETURN_VALUE, UNINITIALIZED_VALUE, CustomCheckExtension, KVPair, DictIncompleteValue)
    from pyanalyze.signature import Signature, SigParameter, ParameterKind, ELLIPSIS_PARAM
    from pyanalyze.stacked_scopes import Composite
    from pyanalyze.extensions import CustomCheck
    import typing
    T = typing.TypeVar("T")
    U = typing.TypeVar("U", bound=int)
    W = typing.TypeVar("W", int, str)
    NT = typing.NewType("NT", int)

    class RaisingEq:
        """== raises for two distinct instances (a currency-mismatch style comparison)"""
        def __eq__(self, other):
            if other is self:
                return True
            raise ValueError("cannot compare")
        __hash__ = object.__hash__

    class NoTruth:
        """== returns an object without a truth value"""
        def __eq__(self, other):
            class R:
                def __bool__(self):
                    raise TypeError("no truth value")
            return R()
        __hash__ = object.__hash__
    sig = Signature.make([SigParameter("x", ParameterKind.POSITIONAL_ONLY, annotation=TypedValue(int))], TypedValue(str))
    base = [KnownValue(1), KnownValue(None), KnownValue([1, {}]), KnownValue(int), KnownValue(len), KnownValue("s"), TypedValue(int), TypedValue(str), TypedValue(type), TypedValue(object),
            GenericValue(list, [TypedValue(int)]), GenericValue(dict, [TypedValue(str), TypeVarValue(T)]), GenericValue(list, []), SequenceValue(tuple, []),
            SequenceValue(tuple, [(False, TypedValue(int)), (True, TypedValue(str)), (False, TypeVarValue(U))]), SequenceValue(list, [(True, AnyValue(AnySource.explicit))]),
            TypedDictValue({}), TypedDictValue({"a": TypedDictEntry(TypedValue(int)), "b": TypedDictEntry(TypeVarValue(T), required=False, readonly=True)}, extra_keys=TypedValue(str)),
            SubclassValue(TypedValue(int)), SubclassValue(TypeVarValue(T)), TypeVarValue(T), TypeVarValue(U), TypeVarValue(W), AnyValue(AnySource.explicit), AnyValue(AnySource.unreachable),
            NO_RETURN_VALUE, UNINITIALIZED_VALUE, MultiValuedValue([KnownValue(1), TypedValue(str), TypeVarValue(T)]), AnnotatedValue(TypedValue(int), [CustomCheckExtension(CustomCheck())]),
            AnnotatedValue(MultiValuedValue([TypedValue(int), KnownValue(None)]), []), CallableValue(sig), CallableValue(Signature.make([ELLIPSIS_PARAM], TypeVarValue(T))),
            NewTypeValue(NT), UnboundMethodValue("append", Composite(TypedValue(list))), UnboundMethodValue("nope", Composite(KnownValue(1)), "secondary"),
            DictIncompleteValue(dict, [KVPair(KnownValue("k"), TypedValue(int)), KVPair(TypedValue(str), TypeVarValue(T), is_many=True, is_required=False)]),
            MultiValuedValue([KnownValue(i) for i in range(12)]), MultiValuedValue([KnownValue(c) for c in "abcdefghijkl"] + [KnownValue(None)]), KnownValue({}), KnownValue({1, 2}),
            KnownValue((1, [2])), KnownValue(RaisingEq()), KnownValue(RaisingEq()), KnownValue(NoTruth()), KnownValue(NoTruth()),
            DictIncompleteValue(dict, [KVPair(KnownValue("a"), TypedValue(int)), KVPair(KnownValue([1, 2]), TypedValue(int))]),
            DictIncompleteValue(dict, [KVPair(KnownValue({}), TypedValue(int))]), TypedDictValue({"a": TypedDictEntry(TypedValue(int))})]
    return base, {T: TypedValue(int), U: KnownValue(True), W: TypedValue(str)}


def search_values():
    from pyanalyze.checker import Checker
    from pyanalyze.value import unite_values, CanAssignError
    ctx = Checker()
    vs, tvmap = values()
    for v in vs:
        for label, fn in (("substitute_typevars", lambda: v.substitute_typevars(tvmap)), ("substitute_typevars({})", lambda: v.substitute_typevars({})), ("str", lambda: str(v)),
                          ("simplify", lambda: v.simplify()), ("get_type_value", lambda: v.get_type_value()), ("walk_values", lambda: list(v.walk_values()))):
            try:
                fn()
            except Exception as e:
                return f"{label} of {v!r} raised {type(e).__name__}: {e}"
    from replay.util import count
    count(evaluations=len(vs) * len(vs) * 6, distinct=len(vs) * len(vs))
    for a, b in itertools.product(vs, repeat=2):
        for label, fn in (("can_assign", lambda: a.can_assign(b, ctx)), ("is_assignable", lambda: a.is_assignable(b, ctx)), ("unite_values", lambda: unite_values(a, b)),
                          ("can_overlap", lambda: a.can_overlap(b, ctx, __import__('pyanalyze.value', fromlist=['OverlapMode']).OverlapMode.EQ)), ("==", lambda: a == b), ("hash", lambda: hash(unite_values(a, b)) if _hashable(a) and _hashable(b) else 0)):
            try:
                r = fn()
            except Exception as e:
                return f"{label}({a!r}, {b!r}) raised {type(e).__name__}: {e}"
            if label == "can_assign" and not isinstance(r, (dict, CanAssignError)):
                return f"can_assign({a!r}, {b!r}) returned {r!r}, neither a bounds map nor a CanAssignError"
    return None


def _hashable(v):
    try:
        hash(v)
        return True
    except TypeError:
        return False


def r_c12(rec):
    thorough = bool(rec and rec.get("tier") == "thorough")
    msg = search_values() or search_annotations() or search_programs(600 if thorough else 120, 1)
    return (True, msg) if msg else (False, "no crash, no internal_error, well-formed diagnostics on the generated modules; value API total on the generated pairs")


REPLAYERS = {"C12.bounded": r_c12}

if __name__ == "__main__":
    print(search_values())
    print(search_programs(120, 1))

"""Native replay: rebuild the solver's counter-model as real objects, call the REAL function of
/repo (PYTHONPATH points at the tree the obligation came from) and evaluate the violated
postcondition natively.  Exit 1 = violation reproduced, 0 = not reproduced, 2 = no replayer/error.

Also runs committed known-finding witnesses (files with a "witness" key naming a function here)."""
import importlib
import json
import os
import sys
import traceback

HERE = os.path.dirname(os.path.abspath(__file__))
sys.path.insert(0, os.path.dirname(HERE))


def main():
    path = sys.argv[1]
    with open(path) as f:
        rec = json.load(f)
    mods = [importlib.import_module("replay." + fn[:-3]) for fn in sorted(os.listdir(HERE))
            if fn.startswith("r_") and fn.endswith(".py")]
    table = {}
    for m in mods:
        table.update(getattr(m, "REPLAYERS", {}))
    key = rec.get("witness") or rec.get("kernel")
    fn = table.get(key)
    if fn is None:
        print(f"no native replayer for {key}; obligation {rec.get('obligation')} failed with solver verdict {rec.get('solver_verdict')}")
        return 2
    try:
        reproduced, msg = fn(rec)
    except Exception:
        print("replayer error:\n" + traceback.format_exc())
        return 2
    print(msg)
    from replay.util import STATS
    if STATS["evaluations"]:
        print("STATS " + json.dumps(STATS, default=str))
    return 1 if reproduced else 0


if __name__ == "__main__":
    sys.exit(main())

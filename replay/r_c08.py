"""C08 native replay: generated @overload sets x literal argument tuples through the checker, against a reference
resolver implementing the documented algorithm (first match; union arguments member-wise; Any never selects one)."""
import itertools
import re
import sys

TYPES = {"int": int, "str": str, "bytes": bytes, "float": float, "object": object}
LITS = {"1": 1, "'a'": "a", "b'x'": b"x", "1.5": 1.5, "None": None}


def _accepts(tname, val):
    t = TYPES[tname]
    if isinstance(val, t):
        return True
    if t is float and isinstance(val, int):
        return True
    return False


def _lib(overloads):
    lines = ["from typing import overload, Any, Union"]
    for params, ret in overloads:
        lines.append("@overload")
        lines.append(f"def f({', '.join(f'a{i}: {p}' for i, p in enumerate(params))}) -> {ret}: ...")
    lines.append("def f(*args: Any) -> Any:\n    raise NotImplementedError")
    return "\n".join(lines) + "\n"


def search():
    from replay.checkcode import check_code
    from replay.r_c13 import _install_module
    rets = ["int", "str", "bytes", "float"]
    sets = []
    for (p1, p2, p3) in [("int", "str", "object"), ("float", "int", "str"), ("object", "int", "str"), ("str", "str", "int"), ("int", "float", "bytes")]:
        sets.append([((p1,), rets[0]), ((p2,), rets[1]), ((p3,), rets[2])])
    sets.append([(("int", "str"), "int"), (("int",), "str"), (("str", "int"), "bytes")])
    sets.append([(("int", "int"), "int"), (("float", "float"), "float"), (("object", "str"), "str")])
    for n, ovs in enumerate(sets):
        name = f"verif_c08_lib_{n}"
        _install_module(name, _lib(ovs))
        try:
            arities = sorted({len(p) for p, _ in ovs})
            calls = []
            for k in set(arities) | {0, 1, 2}:
                for combo in itertools.product(LITS, repeat=k):
                    calls.append(combo)
            lines = [f"from {name} import f", "def use() -> None:"]
            for combo in calls:
                lines.append(f"    reveal_type(f({', '.join(combo)}))")
            res = check_code("\n".join(lines) + "\n")
        finally:
            sys.modules.pop(name, None)
        revealed, diagnosed = {}, set()
        for fl in res:
            if fl["code"].name == "reveal_type":
                revealed[fl["lineno"]] = re.search(r"'(.*)'", fl["description"]).group(1)
            elif fl["code"].name in ("incompatible_call", "incompatible_argument"):
                diagnosed.add(fl["lineno"])
        for ci, combo in enumerate(calls):
            ln = 3 + ci
            vals = [LITS[c] for c in combo]
            want = None
            for params, ret in ovs:
                if len(params) == len(vals) and all(_accepts(p, v) for p, v in zip(params, vals)):
                    want = ret
                    break
            call = f"f({', '.join(combo)})"
            if want is None:
                if ln not in diagnosed:
                    return f"overloads {ovs}: {call} matches no overload but is not diagnosed (revealed {revealed.get(ln)!r})"
            else:
                if ln in diagnosed:
                    return f"overloads {ovs}: {call} matches the overload returning {want} but is diagnosed"
                if revealed.get(ln) != want:
                    return f"overloads {ovs}: {call} should take the first matching overload (-> {want}), revealed {revealed.get(ln)!r}"
    # union argument: member-wise; Any: never selects one overload's type when several match
    name = "verif_c08_lib_u"
    _install_module(name, _lib([(("int",), "int"), (("str",), "str"), (("bytes",), "bytes")]))
    try:
        code = (f"from {name} import f\nfrom typing import Any, Union\n"
                "def use(u: Union[int, str], w: Union[int, float], a: Any) -> None:\n"
                "    reveal_type(f(u))\n    reveal_type(f(w))\n    reveal_type(f(a))\n    reveal_type(f(a0=u))\n    reveal_type(f(a0=w))\n")
        res = check_code(code)
    finally:
        sys.modules.pop(name, None)
    revealed = {fl["lineno"]: re.search(r"'(.*)'", fl["description"]).group(1) for fl in res if fl["code"].name == "reveal_type"}
    diagnosed = {fl["lineno"] for fl in res if fl["code"].name in ("incompatible_call", "incompatible_argument")}
    if 4 in diagnosed or set(revealed.get(4, "").replace(" ", "").split("|")) != {"int", "str"}:
        return f"f(Union[int, str]) over overloads int->int, str->str, bytes->bytes: revealed {revealed.get(4)!r}, diagnosed={4 in diagnosed}; expected int | str"
    if 5 not in diagnosed:
        return f"f(Union[int, float]): the float member matches no overload but the call is not diagnosed (revealed {revealed.get(5)!r})"
    if 7 in diagnosed or set(revealed.get(7, "").replace(" ", "").split("|")) != {"int", "str"}:
        return f"f(a0=Union[int, str]) (union passed by keyword): revealed {revealed.get(7)!r}, diagnosed={7 in diagnosed}; expected int | str"
    if 8 not in diagnosed:
        return f"f(a0=Union[int, float]): the float member matches no overload but the call is not diagnosed (revealed {revealed.get(8)!r})"
    if revealed.get(6) in ("int", "str", "bytes"):
        return f"f(Any) selected a single overload's type {revealed.get(6)!r} although three overloads match"
    # two arguments: an earlier overload that takes part of a union but rejects another argument is not a match at all;
    # a union with an Any member never selects specific overloads when several match
    name = "verif_c08_lib_v"
    _install_module(name, _lib([(("int", "int"), "int"), (("str", "bytes"), "str")]) + _lib([(("int",), "int"), (("str",), "str")]).replace("def f(", "def g(").replace("from typing import overload, Any, Union\n", ""))
    try:
        code = (f"from {name} import f, g\nfrom typing import Any, Union\n"
                "def use(u: Union[int, str], b: bytes, i: int, ua: Union[Any, int, str], ub: Union[int, Any, str]) -> None:\n"
                "    reveal_type(f(u, b))\n    reveal_type(f(i, i))\n    reveal_type(f('s', b))\n    reveal_type(g(ua))\n    reveal_type(g(ub))\n    reveal_type(f(u, i))\n")
        res = check_code(code)
    finally:
        sys.modules.pop(name, None)
    revealed = {fl["lineno"]: re.search(r"'(.*)'", fl["description"]).group(1) for fl in res if fl["code"].name == "reveal_type"}
    diagnosed = {fl["lineno"] for fl in res if fl["code"].name in ("incompatible_call", "incompatible_argument")}
    if 4 not in diagnosed:
        return f"f(Union[int, str], bytes) over (int, int) -> int, (str, bytes) -> str: the int member matches no overload (bytes is not int) but the call is accepted as {revealed.get(4)!r}"
    if 5 in diagnosed or revealed.get(5) != "int" or 6 in diagnosed or revealed.get(6) != "str":
        return f"f(int, int) / f('s', bytes): revealed {revealed.get(5)!r} / {revealed.get(6)!r}, diagnosed {sorted(diagnosed)}"
    for ln, what in ((7, "Union[Any, int, str]"), (8, "Union[int, Any, str]")):
        if set(revealed.get(ln, "").replace(" ", "").split("|")) <= {"int", "str"}:
            return f"g({what}) over int -> int, str -> str selected specific overload types {revealed.get(ln)!r} although the Any member matches several overloads"
    if 9 not in diagnosed:
        return f"f(Union[int, str], int): the str member matches no overload but the call is accepted as {revealed.get(9)!r}"
    # an `object` parameter matches an Any argument only by using Any: a later overload matches too, so no single type may be selected;
    # a default that does not fit its annotation exempts only an omitted argument, not an explicitly passed equal literal
    name = "verif_c08_lib_w"
    _install_module(name, "from typing import overload, Any\n@overload\ndef f(a0: object) -> int: ...\n@overload\ndef f(a0: str) -> str: ...\ndef f(*args: Any) -> Any:\n    raise NotImplementedError\n"
                          "@overload\ndef h(x: int, y: str = None) -> int: ...\n@overload\ndef h(x: int, y: None) -> str: ...\ndef h(*args: Any) -> Any:\n    raise NotImplementedError\n"
                          "@overload\ndef k(x: int = ...) -> int: ...\n@overload\ndef k(x: str) -> str: ...\ndef k(*args: Any) -> Any:\n    raise NotImplementedError\n")
    try:
        code = (f"from {name} import f, h, k\nfrom typing import Any\n"
                "def use(a: Any) -> None:\n"
                "    reveal_type(f(a))\n    reveal_type(h(1, None))\n    reveal_type(h(1))\n    reveal_type(h(1, 's'))\n    reveal_type(k(...))\n    reveal_type(k())\n    reveal_type(f(1))\n")
        res = check_code(code)
    finally:
        sys.modules.pop(name, None)
    revealed = {fl["lineno"]: re.search(r"'(.*)'", fl["description"]).group(1) for fl in res if fl["code"].name == "reveal_type"}
    diagnosed = {fl["lineno"] for fl in res if fl["code"].name in ("incompatible_call", "incompatible_argument")}
    if revealed.get(4) in ("int", "str"):
        return f"f(Any) over (object) -> int, (str) -> str selected the single type {revealed.get(4)!r} although both overloads match an Any argument"
    if revealed.get(5) != "str" or 5 in diagnosed:
        return f"h(1, None) over (x: int, y: str = None) -> int, (x: int, y: None) -> str: None is not a str, so the second overload is the first match; revealed {revealed.get(5)!r}, diagnosed={5 in diagnosed}"
    if revealed.get(6) != "int" or revealed.get(7) != "int" or revealed.get(10) != "int":
        return f"h(1) / h(1, 's') / f(1): revealed {revealed.get(6)!r} / {revealed.get(7)!r} / {revealed.get(10)!r}, expected int / int / int"
    if 8 not in diagnosed and revealed.get(8) == "int":
        return f"k(...) over (x: int = ...) -> int, (x: str) -> str: an explicitly passed Ellipsis is neither int nor str, but the call is accepted as {revealed.get(8)!r}"
    if revealed.get(9) != "int":
        return f"k() should take the first overload through its default: revealed {revealed.get(9)!r}"
    return None


def r_c08(rec):
    msg = search()
    if msg:
        return True, msg
    return False, "overload resolution agrees with the reference resolver on the generated overload sets"


REPLAYERS = {"C08.bounded": r_c08, "pyanalyze.signature.OverloadedSignature.check_call": r_c08, "pyanalyze.signature.OverloadedSignature._unite_rets": r_c08}

if __name__ == "__main__":
    print(search())

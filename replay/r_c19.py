"""C19 native replay: operators / attribute access / subscripts on literal operands through the checker, compared
with evaluating the expression under CPython."""
import enum
import itertools
import re

PRELUDE = "import enum, os\nclass E(enum.Enum):\n    A = 1\n    B = 'b'\n"
ENV = {}
exec(PRELUDE, ENV)
OBJS = ["os", "int", "E.A", "E", "float", "bytes"]
OBJ_ATTRS = ["path", "ptah", "value", "name", "A", "real", "__name__", "sep", "__dict__", "__class__"]
# names the mock module adds: the ignored_end_of_reference option silences them by design, except on classes whose attributes are all known
MOCK_ATTRS = ["count", "called", "call_count", "reset_mock"]
KNOWN_ATTR_ROOTS = ["int", "float", "bytes", "E"]
LITS = ["1", "0", "-3", "True", "1.5", "'ab'", "''", "b'x'", "(1, 2)", "()", "None", "[1]"]
BINOPS = ["+", "-", "*", "//", "%", "**", "|", "&", "<<"]
UNOPS = ["-", "+", "~", "not "]
ATTRS = ["real", "upper", "count", "bit_length", "nope", "__len__", "__dict__", "__class__", "__doc__"]


def _eval(expr):
    try:
        import warnings
        with warnings.catch_warnings():
            warnings.simplefilter("ignore")
            return ("ok", eval(expr, dict(ENV)))
    except (TypeError, AttributeError) as e:
        return ("raise", type(e).__name__)
    except IndexError as e:
        # the property counts IndexError only for literal tuple indices
        return ("raise" if expr.startswith("(1, 'a')[") else "other", type(e).__name__)
    except Exception as e:
        return ("other", type(e).__name__)


def _known(e):
    if e in ("E.value", "E.name"):
        return "D30"
    if re.fullmatch(r"\(int\) \* \(.*\)|\(.*\) \* \(int\)", e):
        return "D31"   # a class object as repeat count
    return None


def search(all_=False):
    found = []
    from replay.checkcode import check_code
    exprs = []
    for a, op, b in itertools.product(LITS, BINOPS, LITS):
        if op == "%" and a[0] in "'b":
            continue   # printf-style formatting is C17's subject (bad_format_string), not an operator dispatch question
        exprs.append(f"({a}) {op} ({b})")
    for op, a in itertools.product(UNOPS, LITS):
        exprs.append(f"{op}({a})")
    for a, attr in itertools.product(LITS, ATTRS):
        exprs.append(f"({a}).{attr}")
    for a, attr in itertools.product(OBJS, OBJ_ATTRS):
        exprs.append(f"{a}.{attr}")
    for a, attr in itertools.product(KNOWN_ATTR_ROOTS, MOCK_ATTRS):
        exprs.append(f"{a}.{attr}")
    for a, op, b in itertools.product(OBJS, ["+", "|", "*"], ["1", "E.A", "int", "'ab'"]):
        exprs.append(f"({a}) {op} ({b})")
        exprs.append(f"({b}) {op} ({a})")
    for op, a in itertools.product(UNOPS, OBJS):
        exprs.append(f"{op}({a})")
    for a, i in itertools.product(["(1, 'a')", "'ab'", "[1]"], ["0", "1", "-1", "-2", "2", "-3", "'k'"]):
        exprs.append(f"{a}[{i}]")
    if not all_:
        exprs = [e for e in exprs if not _known(e)]
    results = [(_e, _eval(_e)) for _e in exprs]
    results = [(e, r) for e, r in results if r[0] != "other"]   # ZeroDivisionError, OverflowError, ValueError: outside the property
    lines = PRELUDE.splitlines() + ["def f() -> None:"] + [f"    reveal_type({e})" for e, _ in results]
    res = check_code("\n".join(lines) + "\n")
    revealed, diag = {}, {}
    for fl in res:
        if fl["code"].name == "reveal_type":
            m = re.search(r"Revealed type is '(.*)'", fl["description"], re.S)
            revealed[fl["lineno"]] = m.group(1) if m else fl["description"]
        elif fl["code"].name in ("unsupported_operation", "undefined_attribute", "incompatible_call", "incompatible_argument", "not_callable"):
            diag.setdefault(fl["lineno"], []).append(fl["code"].name)
    for i, (e, (kind, val)) in enumerate(results):
        ln = i + 2 + len(PRELUDE.splitlines())
        if kind == "raise" and ln not in diag:
            found.append(f"`{e}` raises {val} under CPython but is not diagnosed (revealed {revealed.get(ln)!r})")
        if kind == "ok" and ln in diag:
            found.append(f"`{e}` evaluates to {val!r} under CPython but is diagnosed {diag[ln]}")
        if kind == "ok":
            m = re.fullmatch(r"Literal\[(.*)\]", revealed.get(ln, ""), re.S)
            if m:
                try:
                    lit = eval(m.group(1), dict(ENV))
                except Exception:
                    continue
                if type(lit) is not type(val) or lit != val:
                    found.append(f"`{e}` evaluates to {val!r} ({type(val).__name__}) but the inferred literal is {revealed[ln]}")
    return found


class Fl(enum.IntFlag):
    A = 1
    B = 2


def w_d17(rec):
    from replay.checkcode import check_code
    code = "import enum\nclass Fl(enum.IntFlag):\n    A = 1\n    B = 2\ndef f() -> None:\n    reveal_type(2 | Fl.A)\n"
    res = check_code(code)
    txt = [fl["description"] for fl in res if fl["code"].name == "reveal_type"]
    real = 2 | Fl.A
    bad = bool(txt) and "Literal[3]" in txt[0] and "Fl" not in txt[0]
    return bad, f"reveal_type(2 | Fl.A) = {txt}; CPython evaluates it to {real!r} of type {type(real).__name__} (type(right) is a proper subclass of type(left) overriding __ror__, so the reflected method runs first)"


def _witness(tag):
    def w(rec):
        hits = [m for m in search(all_=True) if _known(m.split("`")[1]) == tag]
        return bool(hits), "; ".join(hits) or f"no {tag} mismatch any more"
    return w


def r_c19(rec):
    msg = search()
    if msg:
        return True, msg[0]
    return False, "operations on the literal universe agree with CPython"


REPLAYERS = {"C19.bounded": r_c19, "C19.D17": w_d17, "C19.D30": _witness("D30"), "C19.D31": _witness("D31"), "pyanalyze.name_check_visitor.NameCheckVisitor._visit_binop_no_mvv": r_c19}

if __name__ == "__main__":
    print(*search(), sep='\n'); print(w_d17(None)); print(_witness('D30')(None)); print(_witness('D31')(None))

"""C10 native replay: the same sources checked in fresh subprocesses under different PYTHONHASHSEED values, and
again after unrelated sources with the same Checker, must produce the same rendered diagnostics."""
import json
import os
import subprocess
import sys
import tempfile

CORPUS = {
    "fmt.py": "def f(a: int) -> None:\n    print('%(alpha)s %(beta)s %(gamma)s %(delta)s' % {'zeta': a})\n",
    "kw.py": "def g(x: int) -> None:\n    pass\ndef f() -> None:\n    g(1, alpha=1, beta=2, gamma=3, delta=4, epsilon=5)\n",
    "narrow.py": ("from typing import Union\n"
                  "def f(x: Union[int, str, bytes, float, None], y: Union[int, str, bytes, None]) -> None:\n"
                  "    if isinstance(x, int) or isinstance(x, str) or isinstance(x, bytes) or x is None:\n        reveal_type(x)\n"
                  "    if (isinstance(x, str) and y is None) or (isinstance(x, bytes) and isinstance(y, int)) or isinstance(x, float):\n        reveal_type(x)\n        reveal_type(y)\n"),
    "unused.py": "def f() -> int:\n    alpha = 1\n    beta = 2\n    gamma = 3\n    delta = 4\n    return 0\n",
    "union.py": ("def f(c: bool, d: bool):\n    if c:\n        x = 1\n    elif d:\n        x = 'a'\n    else:\n        x = None\n    reveal_type(x)\n    return undefined_name_one + undefined_name_two\n"),
    "proto.py": ("from typing import Iterable, Sized, Hashable\nclass C:\n    pass\ndef want(a: Iterable[int], b: Sized, c: Hashable) -> None:\n    pass\ndef f() -> None:\n    want(C(), C(), C())\n"),
    "proto2.py": ("from typing_extensions import Protocol\nclass P(Protocol):\n    def alpha(self) -> int: ...\n    def beta(self) -> int: ...\n    def gamma(self) -> int: ...\n    def delta(self) -> int: ...\n"
                  "class C:\n    pass\ndef want(p: P) -> None:\n    pass\ndef f() -> None:\n    want(C())\n    x: P = C()\n    reveal_type(x)\n"),
    "overl.py": ("from typing import overload, Union\n@overload\ndef o(x: int) -> int: ...\n@overload\ndef o(x: str) -> str: ...\ndef o(x: object) -> object:\n    return x\n"
                 "def f(u: Union[int, str, bytes]) -> None:\n    reveal_type(o(u))\n"),
    "in_lit.py": ("def want(x: int) -> None:\n    pass\ndef f(s: str, n: int) -> None:\n    if s in ('alpha', 'beta', 'gamma', 'delta', 'epsilon'):\n        reveal_type(s)\n        want(s)\n"
                  "    if n not in [10, 20, 30, 40, 50]:\n        return\n    reveal_type(n)\n"),
    "nested.py": ("def outer(c: bool) -> None:\n    x = 1\n    x = 'a'\n    x = None\n    x = 2.5\n    x = b'b'\n    x = (1,)\n    def inner() -> None:\n        reveal_type(x)\n    inner()\n"),
    "a_iter.py": ("from typing import Iterator\nclass Countdown(Iterator[int]):\n    def __init__(self, n: int) -> None:\n        self.n = n\n    def __next__(self) -> int:\n        self.n -= 1\n        return self.n\n"
                  "def run() -> None:\n    for i in Countdown(3):\n        print(i)\n"),
    "b_iter.py": ("from typing import Iterator\nclass Chars:\n    def __init__(self, s: str) -> None:\n        self.s = s\n    def __iter__(self) -> 'Chars':\n        return self\n    def __next__(self) -> str:\n        return self.s\n"
                  "def consume(it: Iterator[str]) -> None:\n    for c in it:\n        print(c)\ndef run() -> None:\n    consume(Chars('abc'))\n"),
    "a_open.py": "def f(path: str) -> None:\n    open(path)\n    len(path)\n    sorted(path)\n",
    "b_open.py": ("from typing import TextIO, Sized, List\ndef f(path: str) -> TextIO:\n    return open(path)\ndef g(path: str) -> int:\n    return len(path)\n"
                  "def h(path: str) -> List[str]:\n    return sorted(path)\n"),
    "a_abs.py": "from typing import Union\nfrom fractions import Fraction\ndef f(x: Union[int, Fraction]) -> None:\n    reveal_type(abs(x))\n",
    "b_abs.py": "def distance(a: int, b: int) -> int:\n    reveal_type(abs(a - b))\n    return abs(a - b)\n",
    "try_defs.py": ("def c() -> bool:\n    return True\ndef f() -> None:\n    x = 0\n    try:\n        x = 1\n        if c():\n            x = 2\n        x = 3\n        x = 4\n        c()\n"
                    "    except Exception:\n        reveal_type(x)\n    with open('f') as fh:\n        y = 1\n        y = 2\n        y = 3\n    reveal_type(y)\n"),
}

KNOWN_HISTORY = set()   # corpus files whose shared-Checker difference is known finding D22 (none in the corpus: D22 has its own witness)

# scripts that cannot be imported (they fail at import time): checked without a module object (ast_annotator.annotate_code)
NOMODULE = {
    "h_script.py": "import sys\npath = sys.argv[99]\ndef read_text(path):\n    with open(path) as f:\n        return f.read()\nprint(len(read_text(path).split()))\n",
    "p_script.py": "import sys\npath = sys.argv[99]\nprint(len(read_text(path).splitlines()))\nprint(helper_two)\n",
}

RUNNER = r'''
import json, sys, io, contextlib
sys.path.insert(0, sys.argv[1])
from replay.checkcode import check_code, make_checker
corpus = json.load(open(sys.argv[2]))
order = sys.argv[3].split(",")
shared = make_checker() if len(sys.argv) > 4 and sys.argv[4] == "shared" else None
out = {}
if len(sys.argv) > 4 and sys.argv[4] == "nomodule":
    import contextlib, io
    from pyanalyze.ast_annotator import annotate_code
    from pyanalyze.name_check_visitor import NameCheckVisitor
    for name in order:
        errs = []
        class V(NameCheckVisitor):
            def show_error(self, *a, **k):
                r = super().show_error(*a, **k)
                if r is not None:
                    errs.append(r)
                return r
        with contextlib.redirect_stderr(io.StringIO()), contextlib.redirect_stdout(io.StringIO()):
            annotate_code(corpus[name], visitor_cls=V, show_errors=True)
        out[name] = sorted([f.get("lineno"), f["code"].name, f["description"]] for f in errs)
    print(json.dumps(out))
    sys.exit(0)
for name in order:
    res = check_code(corpus[name], checker=shared) if shared is not None else check_code(corpus[name])
    import re
    # the full rendered message (with the detail lines), module names and file paths normalised
    out[name] = sorted([f.get("lineno"), f["code"].name, re.sub(r"verif_mod_\d+", "verif_mod", f.get("message") or f["description"])] for f in res if f.get("code") is not None)
print(json.dumps(out))
'''


def _run(seed, order, corpus_path, runner_path, root, shared=False, mode=None):
    env = dict(os.environ)
    env["PYTHONHASHSEED"] = str(seed)
    p = subprocess.run([sys.executable, runner_path, root, corpus_path, ",".join(order)] + ([mode] if mode else (["shared"] if shared else [])), capture_output=True, text=True, env=env, timeout=300)
    if p.returncode != 0:
        raise RuntimeError(p.stderr[-800:])
    return json.loads(p.stdout.strip().splitlines()[-1])


def search(thorough=False):
    root = os.path.dirname(os.path.dirname(os.path.abspath(__file__)))
    d = tempfile.mkdtemp()
    cpath, rpath = os.path.join(d, "corpus.json"), os.path.join(d, "runner.py")
    with open(cpath, "w") as f:
        json.dump(CORPUS, f)
    with open(rpath, "w") as f:
        f.write(RUNNER)
    try:
        # history through the per-TypeObject protocol cache (was known finding D22; fixed in /repo e62b45f): regular check now
        rep, msg = w_d22(None)
        if rep:
            return msg
        names = sorted(CORPUS)
        base = _run(0, names, cpath, rpath, root)
        for seed in ((1, 2, 3, 5, 7) if not thorough else tuple(range(1, 16))):
            other = _run(seed, names, cpath, rpath, root)
            for n in names:
                if other[n] != base[n]:
                    a = [x for x in base[n] if x not in other[n]][:1]
                    b = [x for x in other[n] if x not in base[n]][:1]
                    return f"{n}: diagnostics differ between PYTHONHASHSEED=0 and {seed}: {a} vs {b}"
        rev = _run(0, list(reversed(names)), cpath, rpath, root)
        for n in names:
            if rev[n] != base[n]:
                a = [x for x in base[n] if x not in rev[n]][:1]
                b = [x for x in rev[n] if x not in base[n]][:1]
                return f"{n}: diagnostics depend on what was checked before in the same process: {a} vs {b}"
        # one Checker shared by all files (as a run over several files does), in both orders, against the fresh-Checker baseline
        for order in (names, list(reversed(names))):
            sh = _run(0, order, cpath, rpath, root, shared=True)
            for n in names:
                if sh[n] != base[n] and n not in KNOWN_HISTORY:
                    a = [x for x in base[n] if x not in sh[n]][:1]
                    b = [x for x in sh[n] if x not in base[n]][:1]
                    return f"{n}: diagnostics differ between a fresh Checker and a Checker that has already checked {order[:order.index(n)]}: {a} vs {b}"
        # files checked without a module object: each alone (fresh process) against after-the-other in one process
        with open(cpath, "w") as f:
            json.dump(NOMODULE, f)
        nm = sorted(NOMODULE)
        alone = {n: _run(0, [n], cpath, rpath, root, mode="nomodule")[n] for n in nm}
        for order in (nm, list(reversed(nm))):
            both = _run(0, order, cpath, rpath, root, mode="nomodule")
            for n in nm:
                if both[n] != alone[n]:
                    return f"{n} (checked without a module object): diagnostics {both[n]} after {order[:order.index(n)]} in the same process, {alone[n]} alone"
    finally:
        for p in (cpath, rpath):
            os.unlink(p)
        os.rmdir(d)
    return None


def w_d22(rec):
    """history dependence: the protocol positive cache is keyed by the right-hand value only"""
    from typing import Iterable
    from pyanalyze.annotations import type_from_runtime
    from pyanalyze.checker import Checker
    from pyanalyze.value import TypedValue

    from typing import Iterator

    class It:
        def __iter__(self) -> Iterator[int]:
            return iter([1])

    def run(first):
        ctx = Checker()
        a, b = type_from_runtime(Iterable[int]), type_from_runtime(Iterable[str])
        v = TypedValue(It)
        if first:
            a.is_assignable(v, ctx)
        return b.is_assignable(v, ctx)
    fresh, after = run(False), run(True)
    return fresh != after, f"Iterable[str].is_assignable(It) is {fresh} on a fresh checker and {after} after Iterable[int].is_assignable(It) was evaluated with the same checker"


def r_c10(rec):
    msg = search(thorough=bool(rec and rec.get("tier") == "thorough"))
    if msg:
        return True, msg
    return False, "rendered diagnostics are identical across 6 hash seeds and across two check orders on the corpus"


REPLAYERS = {"C10.bounded": r_c10, "C10.D22": w_d22}

if __name__ == "__main__":
    print(search()); print(w_d22(None))

"""C05 native replay (bounded stand-in): generated def signatures x call shapes through the real checker, compared with
CPython's own argument binding (calling the real function, whose body is `pass`: a TypeError can only come from binding)."""
import inspect
import itertools
import random


def signatures(max_params):
    """def headers over positional-only / positional-or-keyword / *args / keyword-only / **kwargs with default patterns"""
    out = []
    names = ["a", "b", "c", "d"]
    for npos_only in range(0, 2):
        for npok in range(0, 3):
            for nkwonly in range(0, 2):
                if npos_only + npok + nkwonly > max_params:
                    continue
                for star in (False, True):
                    for kw in (False, True):
                        npos = npos_only + npok
                        for ndef in range(0, npos + 1):
                            for kwdef in ([False, True] if nkwonly else [False]):
                                parts = []
                                k = 0
                                for i in range(npos):
                                    d = "=0" if i >= npos - ndef else ""
                                    parts.append(f"{names[k]}{d}")
                                    k += 1
                                    if npos_only and i == npos_only - 1:
                                        parts.append("/")
                                if star:
                                    parts.append("*args")
                                elif nkwonly:
                                    parts.append("*")
                                for i in range(nkwonly):
                                    parts.append(f"{names[k]}{'=0' if kwdef else ''}")
                                    k += 1
                                if kw:
                                    parts.append("**kwargs")
                                out.append(", ".join(parts))
    return sorted(set(out))


DUNDER_SIGS = ["a, *, __k", "a, *, __k=0", "a, *__rest", "a, **__opts", "__p, b", "a, __q=0", "*__rest, __k"]
DUNDER_SHAPES = ["1", "1, 2", "1, __k=2", "1, 2, 3", "1, __opts=2", "1, z=2", "__p=1, b=2", "1, b=2", "1, __q=2", "__k=1", "1, 2, __k=3"]


def search_dunder():
    """parameters whose name starts with two underscores: only a positional-or-keyword one is treated as positional-only (the legacy
    convention); keyword-only, *args and **kwargs parameters keep their kind"""
    from replay.checkcode import check_code
    from replay.util import count
    lines, plan, env = [], [], {}
    for si, sig in enumerate(DUNDER_SIGS):
        src = f"def d{si}({sig}):\n    pass\n"
        exec(src, env)
        lines.append(src)
    lines.append("def use() -> None:\n")
    base = sum(l.count("\n") for l in lines)
    for si, sig in enumerate(DUNDER_SIGS):
        for sh in DUNDER_SHAPES:
            plan.append((si, sig, sh))
            lines.append(f"    d{si}({sh})\n")
    res = check_code("".join(lines))
    bad = {fl["lineno"]: fl["description"].split("\n")[0] for fl in res if fl["code"].name in ("incompatible_call", "incompatible_argument")}
    count(evaluations=len(plan), distinct=len(plan))
    for i, (si, sig, sh) in enumerate(plan):
        ln = base + 1 + i
        try:
            eval(f"d{si}({sh})", env)
            binds = True
        except TypeError:
            binds = False
        if sig.startswith("__p") or "__q" in sig:
            continue    # the legacy convention itself (a dunder-named positional-or-keyword parameter read as positional-only) is pyanalyze's documented choice
        if binds == (ln in bad):
            return f"def f({sig}) called as f({sh}): CPython {'binds' if binds else 'raises TypeError while binding'}, pyanalyze reports {bad.get(ln, 'nothing')}"
    return None


def call_shapes():
    out = []
    kws = ["a", "b", "c", "z"]
    for npos in range(0, 4):
        for kwset in [(), ("a",), ("b",), ("c",), ("z",), ("a", "b"), ("b", "c"), ("b", "z")]:
            for star in (None, "()", "(1,)", "(1, 2)"):
                for dstar in (None, "{}", "{'b': 1}", "{'c': 1, 'z': 2}"):
                    parts = ["1"] * npos
                    if star is not None:
                        parts.append("*" + star)
                    parts += [f"{k}=1" for k in kwset]
                    if dstar is not None:
                        parts.append("**" + dstar)
                    out.append(", ".join(parts))
    return out


def search(thorough=False, seed=0):
    from replay.checkcode import check_code
    sigs = signatures(4)
    shapes = call_shapes()
    rnd = random.Random(seed)
    if not thorough:
        shapes = rnd.sample(shapes, 140)
    for off in range(0, len(sigs), 12):
        chunk = sigs[off:off + 12]
        lines = []
        plan = []
        env = {}
        for si, sig in enumerate(chunk):
            src = f"def f{si}({sig}):\n    pass\n"
            exec(src, env)
            lines.append(src)
        lines.append("def use() -> None:")
        base = sum(l.count("\n") for l in lines) + 1
        for si, sig in enumerate(chunk):
            for sh in shapes:
                try:
                    compile(f"f({sh})", "<c>", "eval")
                except SyntaxError:
                    continue
                plan.append((si, sig, sh))
                lines.append(f"    f{si}({sh})")
        res = check_code("".join(l if l.endswith("\n") else l + "\n" for l in lines))
        bad = {}
        for fl in res:
            if fl["code"].name in ("incompatible_call", "incompatible_argument"):
                bad.setdefault(fl["lineno"], []).append(fl["description"].split("\n")[0])
        from replay.util import count, sample
        count(evaluations=len(plan), distinct=len(plan))
        if off == 0 and plan:
            sample({"signature": plan[0][1], "call": plan[0][2], "pyanalyze_reports": bad.get(base + 1, []), "note": "compared with calling the real function"})
        for i, (si, sig, sh) in enumerate(plan):
            ln = base + 1 + i
            try:
                eval(f"f{si}({sh})", env)
                binds = True
            except TypeError:
                binds = False
            if binds == (ln in bad):
                return (f"def f({sig}) called as f({sh}): CPython {'binds the arguments' if binds else 'raises TypeError while binding'}, "
                        f"pyanalyze {'reports ' + str(bad[ln]) if ln in bad else 'reports nothing'}")
    return None


def search_star(seed=0, skip_known=True):
    """star-arguments of unknown length: accepted => some expansion binds; rejected => no expansion taking at least one
    element from every star-argument binds (expansions up to length 4)"""
    from replay.checkcode import check_code
    sigs = signatures(3)
    shapes = ["*xs", "1, *xs", "*xs, a=1", "**kw", "1, **kw", "*xs, **kw", "1, 2, *xs", "*ts", "1, *ts, **kw", "a=1, **kw", "*xs, b=1, **kw", "**kd", "1, **kd"]
    lines, plan, env = [], [], {}
    for si, sig in enumerate(sigs):
        src = f"def f{si}({sig}):\n    pass\n"
        exec(src, env)
        lines.append(src)
    lines.append("from typing import Dict, List, Tuple\nclass Key(str):\n    pass\ndef use(xs: List[int], ts: Tuple[int, ...], kw: Dict[str, int], kd: Dict[Key, int]) -> None:\n")
    base = sum(l.count("\n") for l in lines)
    for si, sig in enumerate(sigs):
        for sh in shapes:
            plan.append((si, sig, sh))
            lines.append(f"    f{si}({sh})\n")
    res = check_code("".join(lines))
    bad = {fl["lineno"]: fl["description"] for fl in res if fl["code"].name in ("incompatible_call", "incompatible_argument")}
    kwpool = [{}, {"a": 1}, {"b": 1}, {"c": 1}, {"a": 1, "b": 1}, {"b": 1, "c": 1}, {"a": 1, "b": 1, "c": 1}, {"zz": 1}, {"a": 1, "zz": 1}]
    from replay.util import count
    count(evaluations=len(plan), distinct=len(plan))
    for i, (si, sig, sh) in enumerate(plan):
        ln = base + 1 + i
        f = env[f"f{si}"]
        some, some_nonempty = False, False
        for n in range(0, 5):
            for kw in kwpool:
                try:
                    eval(f"f({sh})", {"f": f, "xs": [1] * n, "ts": (1,) * n, "kw": kw, "kd": kw})
                except TypeError:
                    continue
                some = True
                if (n > 0 or ("xs" not in sh and "ts" not in sh)) and (kw or ("kw" not in sh and "kd" not in sh)):
                    some_nonempty = True
        if ln not in bad and not some:
            return f"def f({sig}) called as f({sh}) with star-arguments of unknown length: accepted, but no expansion (lengths 0-4) binds"
        if ln in bad and some_nonempty and "may be filled from both *args and a keyword argument" in bad[ln] and skip_known:
            continue   # known finding D44
        if ln in bad and some_nonempty:
            return f"def f({sig}) called as f({sh}) with star-arguments of unknown length: rejected, but an expansion taking an element from every star-argument binds"
    return None


def w_d44(rec):
    msg = search_star(skip_known=False)
    return (bool(msg) and "rejected" in msg), msg or "no rejected call with a binding expansion any more"


def search_validate():
    """Signature.validate accepts a parameter list iff it is in CPython's order (reference written from the language rules)"""
    from pyanalyze.signature import Signature, SigParameter, ParameterKind as K, InvalidSignature
    from pyanalyze.value import KnownValue, TypedValue
    rank = {K.POSITIONAL_ONLY: 0, K.POSITIONAL_OR_KEYWORD: 1, K.VAR_POSITIONAL: 2, K.KEYWORD_ONLY: 3, K.VAR_KEYWORD: 4}
    kinds = list(rank)
    for n in range(0, 4):
        for combo in itertools.product([(k, d) for k in kinds for d in (False, True)], repeat=n):
            ok = True
            for i, (k, d) in enumerate(combo):
                if d and k in (K.VAR_POSITIONAL, K.VAR_KEYWORD):
                    ok = False
                for k2, d2 in combo[:i]:
                    if rank[k2] > rank[k] or (k2 == k and k in (K.VAR_POSITIONAL, K.VAR_KEYWORD)):
                        ok = False
                    if d2 and not d and k in (K.POSITIONAL_ONLY, K.POSITIONAL_OR_KEYWORD) and k2 in (K.POSITIONAL_ONLY, K.POSITIONAL_OR_KEYWORD):
                        ok = False
            from replay.util import count
            count(evaluations=1, distinct=1)
            params = {f"p{i}": SigParameter(f"p{i}", k, default=KnownValue(0) if d else None) for i, (k, d) in enumerate(combo)}
            try:
                Signature(params, TypedValue(int))
                got = True
            except InvalidSignature:
                got = False
            if got != ok:
                return f"Signature.validate {'accepts' if got else 'rejects'} the parameter list {[(k.name, 'default' if d else 'required') for k, d in combo]}; CPython's rules say {'valid' if ok else 'invalid'}"
    return None


FRONTEND_SRC = '''
class Base:
    @staticmethod
    def sm(a, b=0):
        return (a, b)
    @staticmethod
    def kw(a, *, k):
        return (a, k)
    @classmethod
    def cm(cls, a, b=0):
        return (a, b)
    def m(self, a, b=0):
        return (a, b)
class Sub(Base):
    pass
def helper(a):
    return a
def other(a, b):
    return (a, b)
def outer():
    def helper(a, b=0, *, c):
        return (a, b, c)
    def other(a, /):
        return a
    def uniq(a, *rest, k=0):
        return (a, rest, k)
    return [CALLS]
def use(x: Sub, y: Base) -> None:
    [UCALLS]
'''
NESTED_CALLS = ["helper(1, 2, c=3)", "helper(1)", "helper(1, c=2)", "other(1)", "other(a=1, b=2)", "other(1, 2)", "uniq(1, 2, 3, k=4)", "uniq()", "uniq(1, z=2)"]
METHOD_CALLS = [f"{recv}.{call}" for recv in ("x", "y", "Sub", "Base") for call in ("sm(1, 2)", "sm()", "sm(1)", "kw(1, k=2)", "kw(1, 2)", "cm(1)", "cm()", "cm(1, 2, 3)")] + \
               [f"{recv}.{call}" for recv in ("x", "y") for call in ("m(1)", "m()", "m(1, 2)", "m(1, 2, 3)")]


def search_frontends():
    """the ways a known Python function reaches the binder: (inherited) static / class / instance methods through an instance or the class,
    nested functions whose names shadow module-level functions"""
    from replay.checkcode import check_code
    lines = FRONTEND_SRC.strip("\n").split("\n")
    out, where = [], {}
    for l in lines:
        if "[CALLS]" in l:
            out.append("    res = []")
            for c in NESTED_CALLS:
                out.append(f"    {c}")
                where[len(out)] = ("nested", c)
            out.append("    return res")
        elif "[UCALLS]" in l:
            for c in METHOD_CALLS:
                out.append(f"    {c}")
                where[len(out)] = ("method", c)
        else:
            out.append(l)
    res = check_code("\n".join(out) + "\n")
    bad = {}
    for fl in res:
        if fl["code"].name in ("incompatible_call", "incompatible_argument"):
            bad.setdefault(fl["lineno"], []).append(fl["description"].split("\n")[0])
    # the reference: the same calls executed
    env = {}
    exec(FRONTEND_SRC.replace("    return [CALLS]", "    return dict(helper=helper, other=other, uniq=uniq)").replace("    [UCALLS]", "    pass"), env)
    nested = env["outer"]()
    menv = {"x": env["Sub"](), "y": env["Base"](), "Sub": env["Sub"], "Base": env["Base"]}
    from replay.util import count
    for ln, (kind, c) in sorted(where.items()):
        try:
            eval(c, dict(nested) if kind == "nested" else menv)
            binds = True
        except TypeError:
            binds = False
        count(1, 1)
        if binds == (ln in bad):
            what = "inside outer(), where nested defs helper(a, b=0, *, c), other(a, /), uniq(a, *rest, k=0) shadow module-level helper(a), other(a, b)" if kind == "nested" \
                else "with x: Sub, y: Base, class Sub(Base) inheriting sm(a, b=0), kw(a, *, k) [static], cm(cls, a, b=0) [class], m(self, a, b=0)"
            return (f"{c} ({what}): CPython {'binds the arguments' if binds else 'raises TypeError while binding'}, pyanalyze {'reports ' + str(bad[ln]) if ln in bad else 'reports nothing'}")
    return None


def r_validate(rec):
    msg = search_validate()
    return (True, msg) if msg else (False, "Signature.validate agrees with CPython's parameter-order rules on all lists of <= 3 parameters")


def r_c05(rec):
    thorough = bool(rec and rec.get("tier") == "thorough")
    msg = search(thorough) or search_star() or search_dunder() or search_frontends()
    return (True, msg) if msg else (False, "argument binding agrees with CPython on the generated signatures and call shapes")


REPLAYERS = {"C05.bounded": r_c05, "pyanalyze.signature.Signature.bind_arguments": r_c05, "C05.D44": w_d44, "pyanalyze.signature.Signature.validate": r_validate, "C05.validate": r_validate}

if __name__ == "__main__":
    import sys
    print(len(signatures(4)), len(call_shapes()))
    print(search(len(sys.argv) > 1))
    print(search_star()); print(search_validate()); print(search_dunder())

"""C16 native replay: _apply_changes_to_lines against its specification, and the witnesses of the two
known non-convergences of add-ignores (D12, D13) at the node_visitor level."""
import ast
import collections
import contextlib
import io
import itertools

from replay.r_c11 import IGN, _Node, _codes, _visitor, ref_file_ignored, ref_suppressed


def _propose(lines, lineno, code):
    """run the REAL show_error with add_ignores and return the Replacement it proposes"""
    import qcore
    from pyanalyze.node_visitor import BaseNodeVisitor
    v = _visitor(lines, add_ignores=True)
    changes = collections.defaultdict(list)
    with qcore.override(BaseNodeVisitor, "_changes_for_fixer", changes), contextlib.redirect_stderr(io.StringIO()):
        v.show_error(_Node(lineno), "msg", code)
    reps = changes["f.py"]
    return reps[0] if reps else None


def _step(lines, lineno, code):
    from pyanalyze.node_visitor import BaseNodeVisitor
    rep = _propose(lines, lineno, code)
    if rep is None:
        return None
    return list(BaseNodeVisitor._apply_changes_to_lines([rep], lines))


def search_apply_changes():
    from pyanalyze.node_visitor import BaseNodeVisitor, Replacement
    base = [f"l{i}\n" for i in range(4)]
    for n in range(1, 5):
        lines = base[:n]
        for d in range(1, n + 1):
            for adds in (None, [], ["a\n"], ["a\n", "b\n"]):
                for extra in ([], [Replacement([1], ["zzz\n"])]):
                    got = list(BaseNodeVisitor._apply_changes_to_lines([Replacement([d], adds)] + extra, list(lines)))
                    want = list(lines) if adds is None else lines[: d - 1] + adds + lines[d:]
                    if got != want:
                        return f"_apply_changes_to_lines([Replacement([{d}], {adds!r})]{' + later change' if extra else ''}, {lines!r}) = {got!r}, specification {want!r}"
    if list(BaseNodeVisitor._apply_changes_to_lines([], base)) != base:
        return "no changes must leave the lines unchanged"
    return None


def search_add_ignore_step():
    """the step lemma natively: after applying the proposed replacement the error is suppressed, the code line is
    unchanged and sits one line lower (frame conditions are checked where the lemma proves them)"""
    codes = _codes()
    vocab = ["x = 1\n", "    y = z\n", f"y = z  {IGN}[{codes[1].name}]\n", "# comment\n"]
    for n in range(1, 4):
        for lines in itertools.product(vocab, repeat=n):
            lines = list(lines)
            for lineno in range(1, n + 1):
                code = codes[0]
                if ref_file_ignored(lines, code) is not None or ref_suppressed(lines, lineno, code) is not None:
                    continue
                new = _step(lines, lineno, code)
                if new is None:
                    return f"no replacement proposed for line {lineno} of {lines!r}"
                if len(new) != n + 1 or new[lineno] != lines[lineno - 1]:
                    return f"add-ignores step on line {lineno} of {lines!r} gave {new!r}: code line changed or misplaced"
                if ref_suppressed(new, lineno + 1, code) is None:
                    return f"add-ignores step on line {lineno} of {lines!r} gave {new!r}: the error is still not suppressed"
                if new[:lineno - 1] != lines[:lineno - 1] or new[lineno + 1:] != lines[lineno:]:
                    return f"add-ignores step on line {lineno} of {lines!r} gave {new!r}: other lines changed"
    return None


def r_c16(rec):
    for fn in (search_apply_changes, search_add_ignore_step):
        msg = fn()
        if msg:
            return True, msg
    return False, "bounded native search over files of <= 4 lines found no deviation from the C16 one-step specification"


def w_d12(rec):
    code = _codes()[0]
    lines = ["x = undefined\n", "y = 1\n"]
    new = _step(lines, 1, code)
    before, after = ref_file_ignored(lines, code), ref_file_ignored(new, code)
    v = _visitor(new)
    real_after = v.has_file_level_ignore(code)
    return (before is None and real_after), f"add-ignores on line 1 (indentation 0) of {lines!r} gives {new!r}: has_file_level_ignore({code.name}) became {real_after} (was {before is not None}) - the new comment suppresses the whole file"


def w_d13(rec):
    c1, c2 = _codes()
    lines = ["a = 1\n", f"{IGN}[{c2.name}]\n", "x = y\n"]
    assert ref_suppressed(lines, 3, c2) is not None
    new = _step(lines, 3, c1)
    v = _visitor(new)
    with contextlib.redirect_stderr(io.StringIO()):
        shown = v.show_error(_Node(4), "msg", c2)
    return shown is not None, f"file {lines!r}: the {c2.name} error on line 3 is suppressed by the own-line comment; after add-ignores for {c1.name} the file is {new!r} and the {c2.name} error (now line 4) is {'reported again' if shown is not None else 'still suppressed'}"


REPLAYERS = {
    "pyanalyze.node_visitor.BaseNodeVisitor._apply_changes_to_lines": r_c16,
    "lemma.add_ignores_step": r_c16,
    "C16.D12": w_d12,
    "C16.D13": w_d13,
}


PROGRAMS = [
    # (source, call expression evaluated before and after the fix, error codes to enable)
    ("def f():\n    unused = used = 3\n    return used\n", "f()", []),
    ("def f():\n    unused = 3\n    return 4\n", "f()", []),
    ("def f(base, name):\n    return {**base, 'label': 'name: %s' % name}\n", "f({'a': 1}, 'n')", ["use_fstrings"]),
    ("def f(name):\n    return 'hello %s!' % name\n", "f('n')", ["use_fstrings"]),
    ("def f(a, b):\n    x = [a, *b]\n    y = 3\n    return x\n", "f(1, [2])", []),
    ("def g(*, k, j=1):\n    return k + j\ndef f(name):\n    h = lambda *, k: k\n    return 'v: %s' % name + str(g(k=1)) + str(h(k=2))\n", "f('n')", ["use_fstrings"]),
    # multi-line statements closed by each kind of bracket on a line of its own
    ("def f(name):\n    xs = [\n        'a: %s' % name,\n        'b',\n    ]\n    return xs\n", "f('n')", ["use_fstrings"]),
    ("def f(name):\n    d = {\n        'k': 'a: %s' % name,\n    }\n    return d\n", "f('n')", ["use_fstrings"]),
    ("def f(name):\n    t = (\n        'a: %s' % name,\n        1,\n    )\n    return t\n", "f('n')", ["use_fstrings"]),
    ("def f(name):\n    xs = [\n        {\n            'k': 'a: %s' % name,\n        }\n    ]\n    return xs\n", "f('n')", ["use_fstrings"]),
    # conversions that an f-string rewrite must either keep or leave alone (width, precision, flags)
    ("def f(x):\n    return '%5s|' % x\n", "f('ab')", ["use_fstrings"]),
    ("def f(x):\n    return '%-5s|%05d' % (x, 3)\n", "f('ab')", ["use_fstrings"]),
    ("def f(x):\n    return '%.1f and %s' % (1.26, x)\n", "f('ab')", ["use_fstrings"]),
    ("def f(x):\n    return '%d%%' % x\n", "f(3)", ["use_fstrings"]),
    # positional-to-keyword rewrite of a call that also passes keywords and a **mapping
    ("def g(a, b, c, d, e, f_, g_, h, i, j, k, verbose=False, **opts):\n    return (a, b, c, d, e, f_, g_, h, i, j, k, verbose, tuple(sorted(opts.items())))\n"
     "def f(opts):\n    return g(1, 2, 3, 4, 5, 6, 7, 8, 9, 10, 11, verbose=True, **opts)\n", "f({'z': 1})", ["too_many_positional_args"]),
    ("def g(a, b, c, d, e, f_, g_, h, i, j, k, *, flag):\n    return (a, b, c, d, e, f_, g_, h, i, j, k, flag)\ndef f():\n    return g(1, 2, 3, 4, 5, 6, 7, 8, 9, 10, 11, flag=0)\n", "f()", ["too_many_positional_args"]),
    # an unused ignore comment at the end of a line that also carries code: only the comment goes
    ("def f(y):\n    z = y * 2  # static analysis: ignore[undefined_name]\n    return z\n", "f(2)", ["unused_ignore"]),
    ("def f(y):\n    # static analysis: ignore[undefined_name]\n    z = y * 2\n    return z  # static analysis: ignore\n", "f(2)", ["unused_ignore"]),
]


def search_autofix():
    """apply every proposed fix until nothing changes: the file still parses, the fixed diagnostic is gone, no new
    diagnostic appears and the function computes what it computed before"""
    import ast
    from pyanalyze.error_code import ErrorCode
    from replay.checkcode import check_code
    for src, call, enable in PROGRAMS:
        settings = {getattr(ErrorCode, c): True for c in enable}
        ns0 = {}
        exec(src, ns0)
        before = eval(call, ns0)
        code = src
        first = None
        for _ in range(6):
            res, new = check_code(code, settings=settings, apply_changes=True)
            codes = sorted(f["code"].name for f in res if f.get("code") is not None)
            if first is None:
                first = codes
            if new == code or not new:
                break
            try:
                ast.parse(new)
            except SyntaxError as e:
                return f"fix of {codes} in {src!r} gives unparsable code {new!r}: {e}"
            code = new
        if code != src:
            res2 = check_code(code, settings=settings)
            after_codes = sorted(f["code"].name for f in res2 if f.get("code") is not None)
            new_codes = [c for c in after_codes if c not in first]
            if new_codes:
                return f"after applying the proposed fixes to {src!r} the file is {code!r} and new diagnostics appear: {new_codes}"
            ns1 = {}
            try:
                exec(code, ns1)
                after = eval(call, ns1)
            except Exception as e:
                return f"after applying the proposed fixes to {src!r} the file is {code!r}; {call} now raises {type(e).__name__}: {e}"
            if after != before:
                return f"after applying the proposed fixes to {src!r} the file is {code!r}; {call} returned {before!r} before and {after!r} after"
    return None


def r_c16_bounded(rec):
    for fn in (search_apply_changes, search_add_ignore_step, search_autofix):
        msg = fn()
        if msg:
            return True, msg
    return False, "one-step lemmas and the autofix round trip hold on the bounded universe"


REPLAYERS["C16.bounded"] = r_c16_bounded

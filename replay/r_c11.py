"""C11/C16 native replay for the node_visitor kernels.

The solver's counter-models speak about abstract lines and predicates (regex matches are
uninterpreted), so they are realised by a bounded native search: every file of up to 3 lines over a
vocabulary of ignore-comment shapes x every line number x error codes x obey_ignore x settings is run
through the REAL functions and compared with a reference written from the property statement."""
import ast
import contextlib
import io
import itertools
import os
import re

IGN = "# static analysis: ignore"


def _codes():
    from pyanalyze.error_code import ErrorCode
    return [ErrorCode.undefined_name, ErrorCode.bad_global]


def _vocab():
    a, b = [c.name for c in _codes()]
    return ["x = 1\n", f"y = z  {IGN}\n", f"y = z  {IGN}[{a}]\n", f"y = z  {IGN}[{b}]\n", f"{IGN}\n", f"{IGN}[{a}]\n",
            f"  {IGN}[{b}]\n", "# comment\n"]


class _Node:
    def __init__(self, lineno, col=0):
        self.lineno = lineno
        self.col_offset = col

    def __repr__(self):
        return f"Node(line {self.lineno})"


def _visitor(lines, settings=None, add_ignores=False):
    from pyanalyze.node_visitor import BaseNodeVisitor
    v = BaseNodeVisitor("f.py", "".join(lines), ast.parse("pass"), settings=settings, add_ignores=add_ignores)
    return v


def ref_file_ignored(lines, code, comment=IGN):
    for i, line in enumerate(lines):
        if not line.startswith("#"):
            return None
        s = line.strip()
        if s == comment or (code is not None and s == f"{comment}[{code.name}]"):
            return i
    return None


def ref_suppressed(lines, n, code, comment=IGN):
    """index of the comment that suppresses an error of `code` on line n, else None (C11 statement)"""
    this = lines[n - 1]
    if re.search(re.escape(comment) + r"(?!\[)", this) or (code is not None and f"{comment}[{code.name}]" in this):
        return n - 1
    if n >= 2:
        prev = lines[n - 2].strip()
        if prev == comment or (code is not None and prev == f"{comment}[{code.name}]"):
            return n - 2
    return None


def _quiet():
    return contextlib.redirect_stderr(io.StringIO())


def search_show_error(max_len=3):
    codes = _codes()
    vocab = _vocab()
    for n in range(1, max_len + 1):
        for lines in itertools.product(vocab, repeat=n):
            lines = list(lines)
            for lineno in range(1, n + 1):
                for code in [None] + codes:
                    for obey in (True, False):
                        for settings in (None, {codes[0]: False}):
                            v = _visitor(lines, settings)
                            node = _Node(lineno)
                            with _quiet():
                                res = v.show_error(node, "msg", code, obey_ignore=obey)
                            enabled = code is None or settings is None or settings.get(code, True)
                            fi = ref_file_ignored(lines, code) if enabled else None
                            sup = ref_suppressed(lines, lineno, code) if obey else None
                            want_shown = enabled and fi is None and sup is None
                            want_used = set()
                            if enabled and fi is not None:
                                want_used = {fi}
                            elif enabled and sup is not None:
                                want_used = {sup}
                            desc = f"show_error(line {lineno}, code={getattr(code, 'name', None)}, obey_ignore={obey}, settings={settings}) on file {lines!r}"
                            if (res is not None) != want_shown:
                                return f"{desc}: returned {'a failure' if res is not None else 'None'}, specification says {'shown' if want_shown else 'not shown'}"
                            if v.used_ignores != want_used:
                                return f"{desc}: used_ignores={sorted(v.used_ignores)}, specification says {sorted(want_used)}"
                            if res is not None:
                                if res.get("lineno") != lineno or not res.get("description") or (code is not None and res.get("code") is not code):
                                    return f"{desc}: malformed failure {res!r}"
                                # duplicate filter: same (node, code) again is dropped, and a disabled code never consumes it
                                with _quiet():
                                    again = v.show_error(node, "msg", code, obey_ignore=obey)
                                if again is not None:
                                    return f"{desc}: duplicate was shown again"
                            # unused ignores = ignore-bearing lines that were not used
                            unused = {i for i, _ in v.get_unused_ignores()}
                            want_unused = {i for i, l in enumerate(lines) if IGN in l} - want_used
                            if unused != want_unused:
                                return f"{desc}: get_unused_ignores()={sorted(unused)}, specification says {sorted(want_unused)}"
    return None


def search_disabled_does_not_consume():
    codes = _codes()
    lines = ["x = 1\n"]
    v = _visitor(lines, {codes[0]: False})
    node = _Node(1)
    with _quiet():
        r1 = v.show_error(node, None, codes[0])
        seen_after_disabled = set(v.seen_errors)
    if seen_after_disabled:
        return f"a disabled code was recorded in the duplicate filter: {seen_after_disabled}"
    return None


def r_node_visitor(rec):
    for fn in (search_show_error, search_disabled_does_not_consume):
        msg = fn()
        if msg:
            return True, msg
    return False, "bounded native search (files of <= 3 lines over 8 line shapes, all line numbers, 3 codes, obey_ignore, settings) found no deviation from the C11 reference"


REPLAYERS = {
    "pyanalyze.node_visitor.BaseNodeVisitor.show_error": r_node_visitor,
    "pyanalyze.node_visitor.BaseNodeVisitor.has_file_level_ignore": r_node_visitor,
    "pyanalyze.node_visitor.BaseNodeVisitor.get_unused_ignores": r_node_visitor,
    "pyanalyze.node_visitor.BaseNodeVisitor.is_enabled": r_node_visitor,
}

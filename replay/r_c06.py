"""C06 native replay (bounded stand-in): annotated functions (plain, defaulted, *args/**kwargs-typed, methods, a dataclass
constructor, TypeVar-generic) called with literal argument tuples through the real checker.
  diagnosed(call)  <=>  some argument does not belong to the declared type of the parameter it binds to
  the runtime result of the call belongs to the type inferred for the call."""
import itertools
import re

PRELUDE = '''
from dataclasses import dataclass
from typing import Callable, Dict, List, Optional, Sequence, Tuple, Type, TypeVar, Union
T = TypeVar("T")
N = TypeVar("N", bound=float)
C = TypeVar("C", int, str)
def f_int(x: int) -> int:
    return x
def f_str(x: str) -> str:
    return x
def f_float(x: float) -> float:
    return x
def f_opt(x: Optional[int]) -> Optional[int]:
    return x
def f_union(x: Union[int, str]) -> Union[int, str]:
    return x
def f_list(x: List[int]) -> int:
    return len(x)
def f_tuple(x: Tuple[int, str]) -> str:
    return x[1]
def f_obj(x: object) -> bool:
    return x is None
def f_default(x: int, y: str = "d") -> str:
    return y
def f_star(*args: int) -> int:
    return len(args)
def f_kw(**kwargs: str) -> int:
    return len(kwargs)
def f_two(x: int, y: str) -> Tuple[int, str]:
    return (x, y)
class K:
    def m(self, x: int) -> int:
        return x
    @classmethod
    def cm(cls, x: str) -> str:
        return x
    @staticmethod
    def sm(x: float) -> float:
        return x
@dataclass
class D:
    a: int
    b: str = "b"
def f_baddef(x: int = None, y: str = 0) -> int:
    return 0
class NW:
    def __new__(cls: "Type[NW]", v: int) -> "NW":
        return object.__new__(cls)
TN = TypeVar("TN", bound="NW2")
class NW2:
    def __new__(cls: Type[TN], v: int) -> TN:
        return object.__new__(cls)
def takes_int(v: int) -> object:
    return v
def takes_str(v: str) -> object:
    return v
def apply2(x: T, cb1: Callable[[T], object], cb2: Callable[[T], object]) -> T:
    return x
def either(x: Union[T, List[T]], y: T) -> T:
    return y
def ident(x: T) -> T:
    return x
def first(xs: List[T]) -> T:
    return xs[0]
def num(x: N) -> N:
    return x
def con(x: C, y: C) -> C:
    return x
def pair(x: T, y: T) -> List[T]:
    return [x, y]
def f_kwx(x: int, **kwargs: str) -> int:
    return x
class Event:
    pass
class Click(Event):
    pass
E = TypeVar("E", bound=Event)
def register(handler: Callable[[E], None]) -> List[E]:
    return []
def both(h1: Callable[[E], None], h2: Callable[[E], None]) -> List[E]:
    return []
def on_click(e: Click) -> None:
    pass
def on_event(e: Event) -> None:
    pass
'''

LITS = ["1", "True", "'s'", "1.5", "None", "[1]", "['a']", "(1, 's')", "(1,)", "[]"]


def member(o, t):
    """reference membership (PEP 484: bool <= int <= float by promotion)"""
    if t == "int":
        return type(o) in (int, bool)
    if t == "str":
        return type(o) is str
    if t == "float":
        return type(o) in (int, bool, float)
    if t == "object":
        return True
    if t == "Optional[int]":
        return o is None or member(o, "int")
    if t == "Union[int, str]":
        return member(o, "int") or member(o, "str")
    if t == "List[int]":
        return type(o) is list and all(member(e, "int") for e in o)
    if t == "Tuple[int, str]":
        return type(o) is tuple and len(o) == 2 and member(o[0], "int") and member(o[1], "str")
    raise ValueError(t)


SINGLE = {"f_int": "int", "f_str": "str", "f_float": "float", "f_opt": "Optional[int]", "f_union": "Union[int, str]", "f_list": "List[int]", "f_tuple": "Tuple[int, str]",
          "f_obj": "object", "K().m": "int", "K.cm": "str", "K.sm": "float"}


def calls():
    """(call source, expected-ok or None when the generic reference does not decide)"""
    out = []
    for f, t in SINGLE.items():
        for a in LITS:
            out.append((f"{f}({a})", member(eval(a), t)))
    for a, b in itertools.product(LITS[:6], LITS[:6]):
        out.append((f"f_two({a}, {b})", member(eval(a), "int") and member(eval(b), "str")))
        out.append((f"f_default({a}, {b})", member(eval(a), "int") and member(eval(b), "str")))
        out.append((f"f_star({a}, {b})", member(eval(a), "int") and member(eval(b), "int")))
        out.append((f"f_kw(p={a}, q={b})", member(eval(a), "str") and member(eval(b), "str")))
        out.append((f"D({a}, {b})", member(eval(a), "int") and member(eval(b), "str")))
        out.append((f"D(a={a})", member(eval(a), "int")))
    for a in LITS[:6]:
        out.append((f"f_default({a})", member(eval(a), "int")))
        out.append((f"ident({a})", True))
        out.append((f"num({a})", member(eval(a), "float")))
    # an ill-typed default is exempt only when it IS the default (argument omitted), not when an equal literal is passed
    out += [("f_baddef()", True), ("f_baddef(1)", True), ("f_baddef(None)", False), ("f_baddef(x=None)", False), ("f_baddef(1, 0)", False), ("f_baddef(1, 's')", True)]
    # constructors through a Python-level __new__ with an annotated cls
    out += [("NW(1)", True), ("NW('a')", False), ("NW2(1)", True), ("NW2('a')", False), ("NW(v=True)", True), ("NW2(None)", False)]
    # several star-arguments of unknown length in one call (the argument lists are parameters of use())
    out += [("f_star(*ints, *ints)", True), ("f_star(*strs, *ints)", False), ("f_star(*ints, *strs)", False), ("f_star(*ints, 's', *ints)", False), ("f_star(*ints, 1, *ints)", True),
            ("f_star(*strs)", False), ("f_star(1, *strs, 2)", False)]
    # generic parameters are re-checked against the solved type variable (several upper bounds, union-typed parameters)
    out += [("apply2(1, takes_int, takes_int)", True), ("apply2(1, takes_int, takes_str)", False), ("apply2('s', takes_str, takes_str)", True), ("apply2('s', takes_str, takes_int)", False),
            ("either(ints, 1)", None), ("either(ints, 'a')", False), ("either(1, 2)", None)]   # None: a generic call may be rejected when no solution is found (the statement allows `or an error is reported`)
    # explicit keywords together with a **mapping of unknown keys: both feed the callee's **kwargs
    out += [("f_kw(**dstr)", True), ("f_kw(**dint)", False), ("f_kw(p='a', **dstr)", True), ("f_kw(p=1, **dstr)", False), ("f_kw(p='a', **dint)", False),
            ("f_kwx(1, extra='s', **dstr)", True), ("f_kwx(1, extra=1, **dstr)", False), ("f_kwx(1, extra=1)", False), ("f_kwx('s', **dstr)", False)]
    # a type variable that only receives upper bounds (callback parameters): the narrowest bound is the solution
    out += [("register(on_click)", True), ("register(on_event)", True), ("both(on_click, on_event)", True), ("both(on_event, on_click)", True), ("both(on_click, on_click)", True)]
    for a in ["[1]", "['a']", "[1.5, 2.5]"]:
        out.append((f"first({a})", True))
    for a, b in itertools.product(["1", "'s'", "1.5", "True"], repeat=2):
        va, vb = eval(a), eval(b)
        ok = (member(va, "int") and member(vb, "int")) or (member(va, "str") and member(vb, "str"))
        out.append((f"con({a}, {b})", ok))
        out.append((f"pair({a}, {b})", True))
    return out


def in_revealed(o, txt):
    """is the runtime object o a member of the revealed type text (small parser for the shapes produced here)"""
    parts = [p.strip() for p in re.split(r" \| (?![^\[]*\])", txt)]
    for p in parts:
        if p.startswith("Any") or p == "object":
            return True
        m = re.fullmatch(r"Literal\[(.*)\]", p)
        if m:
            try:
                lits = eval("[" + m.group(1) + "]")
            except Exception:
                return True
            if any(type(l) is type(o) and l == o for l in lits):
                return True
            continue
        if p == "None" and o is None:
            return True
        if p in ("int", "str", "float", "bool") and member(o, p if p != "bool" else "int") and (p != "bool" or type(o) is bool):
            return True
        if p.startswith("list[") and type(o) is list:
            inner = p[5:-1]
            if all(in_revealed(e, inner) for e in o):
                return True
        if p.startswith("tuple[") and type(o) is tuple:
            return True
        if p.startswith("<list containing") and type(o) is list:
            return True
        if re.fullmatch(r"[\w.]*\b(D|NW|NW2)", p) and type(o).__name__ == p.split(".")[-1]:
            return True
    return False


def search():
    from replay.checkcode import check_code
    cs = calls()
    lines = PRELUDE.strip("\n").split("\n") + ["def use(ints: List[int], strs: List[str], dstr: Dict[str, str], dint: Dict[str, int]) -> None:"]
    base = len(lines)
    for src, _ in cs:
        lines.append(f"    reveal_type({src})")
    res = check_code("\n".join(lines) + "\n")
    diag, rev = {}, {}
    for fl in res:
        if fl["code"].name in ("incompatible_argument", "incompatible_call"):
            diag.setdefault(fl["lineno"], []).append(fl["description"].split("\n")[0])
        elif fl["code"].name == "reveal_type":
            m = re.search(r"Revealed type is '(.*)'", fl["description"], re.S)
            rev[fl["lineno"]] = m.group(1) if m else fl["description"]
    env = {"ints": [1, 2], "strs": ["a"], "dstr": {"k": "v"}, "dint": {"k": 1}}
    exec(PRELUDE, env)
    for i, (src, ok) in enumerate(cs):
        ln = base + 1 + i
        if ok is not None and ok == (ln in diag):
            return (f"{src}: {'every argument belongs to its parameter type' if ok else 'an argument does not belong to the declared parameter type'}, "
                    f"pyanalyze {'reports ' + str(diag[ln]) if ln in diag else 'reports nothing'}")
        if ok and ln not in diag:
            try:
                val = eval(src, env)
            except Exception:
                continue
            if not in_revealed(val, rev.get(ln, "")):
                return f"{src} returns {val!r} at run time, which does not belong to the inferred type {rev.get(ln)!r}"
    return None


def r_c06(rec):
    msg = search()
    return (True, msg) if msg else (False, "diagnosed <=> some argument outside its parameter type, and runtime results inside the inferred types, on the generated calls")


REPLAYERS = {"C06.bounded": r_c06, "pyanalyze.signature.Signature._check_param_type_compatibility": r_c06, "pyanalyze.signature.Signature.check_call_with_bound_args": r_c06}

if __name__ == "__main__":
    print(len(calls()))
    print(search())

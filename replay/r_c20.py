"""C20 native replay: @evaluated functions generated from a restricted grammar, called with every argument kind and
type through the checker, against a reference denotation written from docs/type_evaluation.md."""
import itertools
import re
import sys

# conditions over parameters x (annotated int | str | bytes ...) and y (with default):
CONDS = [("oftype", "x", "int"), ("oftype", "x", "str"), ("provided", "y"), ("not", ("oftype", "x", "int")),
         ("and", ("oftype", "x", "int"), ("provided", "y")), ("or", ("oftype", "x", "str"), ("provided", "y"))]
RETS = ["int", "str", "bytes", "float"]


def cond_src(c):
    k = c[0]
    if k == "oftype":
        return f"is_of_type({c[1]}, {c[2]})"
    if k == "provided":
        return f"is_provided({c[1]})"
    if k == "not":
        return f"not {cond_src(c[1])}"
    return f"({cond_src(c[1])} {k} {cond_src(c[2])})"


def body_src(b, ind):
    pad = "    " * ind
    if b[0] == "ret":
        return f"{pad}return {b[1]}\n"
    if b[0] == "err":
        return f"{pad}show_error({b[1]!r})\n{pad}return {b[2]}\n"
    _, c, t, e = b
    return f"{pad}if {cond_src(c)}:\n{body_src(t, ind + 1)}{pad}else:\n{body_src(e, ind + 1)}"


def cond_val(c, env):
    """three-valued: True / False / None (undetermined) for ONE union member of x"""
    k = c[0]
    if k == "oftype":
        return env["xtype"] == c[2]
    if k == "provided":
        return env["y_provided"]
    if k == "not":
        v = cond_val(c[1], env)
        return None if v is None else not v
    a, b = cond_val(c[1], env), cond_val(c[2], env)
    return (a and b) if k == "and" else (a or b)


def run_ref(b, env):
    """-> (set of return type names, set of error messages) for one union member"""
    if b[0] == "ret":
        return {b[1]}, set()
    if b[0] == "err":
        return {b[2]}, {b[1]}
    _, c, t, e = b
    return run_ref(t if cond_val(c, env) else e, env)


def bodies():
    out = []
    for c in CONDS:
        out.append(("if", c, ("ret", "int"), ("ret", "str")))
    out.append(("if", CONDS[0], ("if", CONDS[2], ("ret", "bytes"), ("ret", "int")), ("err", "bad x", "float")))
    out.append(("if", CONDS[2], ("err", "no y please", "int"), ("if", CONDS[1], ("ret", "str"), ("ret", "bytes"))))
    return out


def search():
    from replay.checkcode import check_code
    args = {"1": ["int"], "'a'": ["str"], "u": ["int", "str"]}
    for bi, b in enumerate(bodies()):
        lines = ["from typing import Union", "from pyanalyze.extensions import evaluated, is_of_type, is_provided, show_error",
                 "@evaluated", "def ev(x: Union[int, str, bytes], y: int = 0):", body_src(b, 1).rstrip("\n"),
                 "def ev(x: object, y: int = 0) -> object:", "    return x", "def use(u: Union[int, str]) -> None:"]
        calls = []
        for a in args:
            for ypart, yprov in (("", False), (", 1", True), (", y=1", True)):
                calls.append((a, yprov, f"ev({a}{ypart})"))
        first = len("\n".join(lines).split("\n")) + 1
        for _, _, call in calls:
            lines.append(f"    reveal_type({call})")
        res = check_code("\n".join(lines) + "\n")
        revealed = {f["lineno"]: re.search(r"'(.*)'", f["description"]).group(1) for f in res if f["code"].name == "reveal_type"}
        errs = {}
        for f in res:
            if f["code"].name in ("incompatible_call", "incompatible_argument", "bad_evaluator"):
                errs.setdefault(f["lineno"], []).append(f["description"])
        for ci, (a, yprov, call) in enumerate(calls):
            ln = first + ci
            want_rets, want_errs = set(), set()
            for xt in args[a]:
                r, e = run_ref(b, {"xtype": xt, "y_provided": yprov})
                want_rets |= r
                want_errs |= e
            got = set(revealed.get(ln, "").replace(" ", "").split("|"))
            if got != want_rets:
                return f"evaluator body\n{body_src(b, 1)}call {call}: revealed {revealed.get(ln)!r}, the specification gives {' | '.join(sorted(want_rets))}"
            if bool(want_errs) != (ln in errs):
                return f"evaluator body\n{body_src(b, 1)}call {call}: show_error expected {sorted(want_errs)}, diagnostics {errs.get(ln)}"
    return None


def r_c20(rec):
    msg = search()
    if msg:
        return True, msg
    return False, "evaluated functions follow the reference denotation on the generated bodies and calls"


KERNELS = ["pyanalyze.type_evaluation.ConditionEvaluator.visit_Call", "pyanalyze.type_evaluation.EvaluateVisitor.visit_If", "pyanalyze.type_evaluation.EvaluateVisitor.visit_block",
           "pyanalyze.type_evaluation.decompose_union", "pyanalyze.type_evaluation.ConditionReturn.reverse", "pyanalyze.type_evaluation.can_assign_maybe_exclude_any"]
REPLAYERS = {k: r_c20 for k in KERNELS}
REPLAYERS["C20.bounded"] = r_c20

if __name__ == "__main__":
    print(search())

"""C20 native replay: @evaluated functions generated from a restricted grammar, called with every argument kind and
type through the checker, against a reference denotation written from docs/type_evaluation.md."""
import itertools
import re
import sys

# conditions over parameters x (annotated int | str | bytes ...) and y (with default):
CONDS = [("oftype", "x", "int"), ("oftype", "x", "str"), ("provided", "y"), ("not", ("oftype", "x", "int")),
         ("and", ("oftype", "x", "int"), ("provided", "y")), ("or", ("oftype", "x", "str"), ("provided", "y"))]
RETS = ["int", "str", "bytes", "float"]


def cond_src(c):
    k = c[0]
    if k == "oftype":
        return f"is_of_type({c[1]}, {c[2]})"
    if k == "provided":
        return f"is_provided({c[1]})"
    if k == "not":
        return f"not {cond_src(c[1])}"
    return f"({cond_src(c[1])} {k} {cond_src(c[2])})"


def body_src(b, ind):
    pad = "    " * ind
    if b[0] == "ret":
        return f"{pad}return {b[1]}\n"
    if b[0] == "err":
        return f"{pad}show_error({b[1]!r})\n{pad}return {b[2]}\n"
    _, c, t, e = b
    return f"{pad}if {cond_src(c)}:\n{body_src(t, ind + 1)}{pad}else:\n{body_src(e, ind + 1)}"


def cond_val(c, env):
    """three-valued: True / False / None (undetermined) for ONE union member of x"""
    k = c[0]
    if k == "oftype":
        return env["xtype"] == c[2]
    if k == "provided":
        return env["y_provided"]
    if k == "not":
        v = cond_val(c[1], env)
        return None if v is None else not v
    a, b = cond_val(c[1], env), cond_val(c[2], env)
    return (a and b) if k == "and" else (a or b)


def run_ref(b, env):
    """-> (set of return type names, set of error messages) for one union member"""
    if b[0] == "ret":
        return {b[1]}, set()
    if b[0] == "err":
        return {b[2]}, {b[1]}
    _, c, t, e = b
    return run_ref(t if cond_val(c, env) else e, env)


def bodies():
    out = []
    for c in CONDS:
        out.append(("if", c, ("ret", "int"), ("ret", "str")))
    out.append(("if", CONDS[0], ("if", CONDS[2], ("ret", "bytes"), ("ret", "int")), ("err", "bad x", "float")))
    out.append(("if", CONDS[2], ("err", "no y please", "int"), ("if", CONDS[1], ("ret", "str"), ("ret", "bytes"))))
    return out


def search():
    from replay.checkcode import check_code
    args = {"1": ["int"], "'a'": ["str"], "u": ["int", "str"]}
    for bi, b in enumerate(bodies()):
        lines = ["from typing import Union", "from pyanalyze.extensions import evaluated, is_of_type, is_provided, show_error",
                 "@evaluated", "def ev(x: Union[int, str, bytes], y: int = 0):", body_src(b, 1).rstrip("\n"),
                 "def ev(x: object, y: int = 0) -> object:", "    return x", "def use(u: Union[int, str]) -> None:"]
        calls = []
        for a in args:
            for ypart, yprov in (("", False), (", 1", True), (", y=1", True)):
                calls.append((a, yprov, f"ev({a}{ypart})"))
        first = len("\n".join(lines).split("\n")) + 1
        for _, _, call in calls:
            lines.append(f"    reveal_type({call})")
        res = check_code("\n".join(lines) + "\n")
        revealed = {f["lineno"]: re.search(r"'(.*)'", f["description"]).group(1) for f in res if f["code"].name == "reveal_type"}
        errs = {}
        for f in res:
            if f["code"].name in ("incompatible_call", "incompatible_argument", "bad_evaluator"):
                errs.setdefault(f["lineno"], []).append(f["description"])
        for ci, (a, yprov, call) in enumerate(calls):
            ln = first + ci
            want_rets, want_errs = set(), set()
            for xt in args[a]:
                r, e = run_ref(b, {"xtype": xt, "y_provided": yprov})
                want_rets |= r
                want_errs |= e
            got = set(revealed.get(ln, "").replace(" ", "").split("|"))
            if got != want_rets:
                return f"evaluator body\n{body_src(b, 1)}call {call}: revealed {revealed.get(ln)!r}, the specification gives {' | '.join(sorted(want_rets))}"
            if bool(want_errs) != (ln in errs):
                return f"evaluator body\n{body_src(b, 1)}call {call}: show_error expected {sorted(want_errs)}, diagnostics {errs.get(ln)}"
    return None


def search2(skip_known=True):
    """two union-typed parameters under and / or with a nested condition (the union of the per-member-pair results),
    and the UNKNOWN argument kind (docs: parameter with a default under *args / **kwargs of unknown size)"""
    from replay.checkcode import check_code
    A, B = ("oftype", "a", "int"), ("oftype", "b", "str")
    bods = [("if", ("and", A, B), ("ret", "str"), ("if", A, ("ret", "bytes"), ("ret", "int"))),
            ("if", ("or", A, B), ("if", A, ("ret", "bytes"), ("ret", "int")), ("ret", "str")),
            ("if", ("and", A, B), ("ret", "str"), ("if", B, ("ret", "bytes"), ("ret", "int"))),
            ("if", ("or", ("not", A), B), ("if", B, ("ret", "float"), ("ret", "int")), ("ret", "str")),
            # two operands of one `and` on the SAME parameter: the second is evaluated on what the first left, and the body sees only the members that passed both
            ("if", ("and", A, ("not", ("oftype", "a", "bytes"))), ("if", ("oftype", "a", "str"), ("ret", "bytes"), ("ret", "float")), ("ret", "int")),
            ("if", ("and", ("not", ("oftype", "b", "bytes")), B), ("if", ("oftype", "b", "int"), ("ret", "bytes"), ("ret", "float")), ("ret", "int")),
            ("if", ("and", A, ("not", A)), ("if", ("oftype", "a", "str"), ("ret", "bytes"), ("ret", "float")), ("ret", "int")),
            ("if", ("and", B, ("oftype", "b", "int")), ("ret", "bytes"), ("if", B, ("ret", "float"), ("ret", "int")))]

    def val(c, env):
        k = c[0]
        if k == "oftype":
            return env[c[1]] == c[2]
        if k == "not":
            return not val(c[1], env)
        x, y = val(c[1], env), val(c[2], env)
        return (x and y) if k == "and" else (x or y)

    def ref(b, env):
        if b[0] == "ret":
            return {b[1]}
        return ref(b[2] if val(b[1], env) else b[3], env)
    args = {"1": ["int"], "'s'": ["str"], "u": ["int", "str"]}
    for b in bods:
        lines = ["from typing import Union", "from pyanalyze.extensions import evaluated, is_of_type", "@evaluated",
                 "def ev(a: Union[int, str], b: Union[int, str]):", body_src(b, 1).rstrip("\n"),
                 "def ev(a: object, b: object) -> object:", "    return a", "def use(u: Union[int, str], v: Union[int, str]) -> None:"]
        first = len("\n".join(lines).split("\n")) + 1
        calls = [(x, y) for x in args for y in args]
        for x, y in calls:
            lines.append(f"    reveal_type(ev({x}, {'v' if y == 'u' else y}))")
        res = check_code("\n".join(lines) + "\n")
        revealed = {f["lineno"]: re.search(r"'(.*)'", f["description"]).group(1) for f in res if f["code"].name == "reveal_type"}
        for ci, (x, y) in enumerate(calls):
            want = set()
            for xt in args[x]:
                for yt in args[y]:
                    want |= ref(b, {"a": xt, "b": yt})
            got = set(revealed.get(first + ci, "").replace(" ", "").split("|"))
            if got != want:
                return f"evaluator body\n{body_src(b, 1)}call ev({x}, {y}): revealed {revealed.get(first + ci)!r}, the union of the per-member results is {' | '.join(sorted(want))}"
    # statements in sequence: returns collected from earlier, partially matching ifs are kept when a later if returns on every path
    seq_bodies = [
        ("    if is_of_type(a, int):\n        return str\n    if is_of_type(b, str):\n        return bytes\n    else:\n        return float\n",
         lambda e: "str" if e["a"] == "int" else ("bytes" if e["b"] == "str" else "float")),
        ("    if is_of_type(a, int):\n        return str\n    if is_of_type(b, str):\n        return bytes\n    return float\n",
         lambda e: "str" if e["a"] == "int" else ("bytes" if e["b"] == "str" else "float")),
    ]
    if not skip_known:
        # known finding D51: narrowing learnt in a nested if that does not return on every path is not carried to later statements
        seq_bodies = [("    if is_of_type(a, int):\n        if is_of_type(b, int):\n            return str\n    if is_of_type(b, str):\n        return bytes\n    else:\n        return float\n",
                       lambda e: "str" if (e["a"] == "int" and e["b"] == "int") else ("bytes" if e["b"] == "str" else "float"))]
    for src_body, fn in seq_bodies:
        lines = ["from typing import Union", "from pyanalyze.extensions import evaluated, is_of_type", "@evaluated",
                 "def ev(a: Union[int, str], b: Union[int, str]):", src_body.rstrip("\n"),
                 "def ev(a: object, b: object) -> object:", "    return a", "def use(u: Union[int, str], v: Union[int, str]) -> None:"]
        first = len("\n".join(lines).split("\n")) + 1
        calls = [(x, y) for x in args for y in args]
        for x, y in calls:
            lines.append(f"    reveal_type(ev({x}, {'v' if y == 'u' else y}))")
        res = check_code("\n".join(lines) + "\n")
        revealed = {f["lineno"]: re.search(r"'(.*)'", f["description"]).group(1) for f in res if f["code"].name == "reveal_type"}
        for ci, (x, y) in enumerate(calls):
            want = {fn({"a": xt, "b": yt}) for xt in args[x] for yt in args[y]}
            got = set(revealed.get(first + ci, "").replace(" ", "").split("|"))
            if got != want:
                return f"evaluator body\n{src_body}call ev({x}, {y}): revealed {revealed.get(first + ci)!r}, the union of the per-member results is {' | '.join(sorted(want))}"
    # a union with an Any member: under the default exclude_any, Any matches no tested type, so it takes the else branch only
    code_any = ("from typing import Any, Union\nfrom pyanalyze.extensions import evaluated, is_of_type\n@evaluated\ndef strict(x: object):\n    if is_of_type(x, str):\n        return str\n    else:\n        return int\n"
                "def strict(x: object) -> object:\n    return x\ndef use(ai: Union[Any, int], si: Union[str, int], a: Any) -> None:\n    reveal_type(strict(ai))\n    reveal_type(strict(si))\n    reveal_type(strict(a))\n")
    res = check_code(code_any)
    rv = [re.search(r"'(.*)'", f["description"]).group(1) for f in sorted(res, key=lambda f: f["lineno"]) if f["code"].name == "reveal_type"]
    code_any2 = ("from typing import Any, Union\nfrom typing_extensions import Literal\nfrom pyanalyze.extensions import evaluated, is_of_type\n@evaluated\ndef strict2(x: object):\n    if is_of_type(x, Literal['r', 'w']):\n        return str\n    else:\n        return int\n"
                 "def strict2(x: object) -> object:\n    return x\n@evaluated\ndef lax2(x: object):\n    if is_of_type(x, Literal['r', 'w'], exclude_any=False):\n        return str\n    else:\n        return int\n"
                 "def lax2(x: object) -> object:\n    return x\ndef use(a: Any) -> None:\n    reveal_type(strict2(a))\n    reveal_type(strict2('r'))\n    reveal_type(lax2(a))\n")
    rv2 = [re.search(r"'(.*)'", f["description"]).group(1) for f in sorted(check_code(code_any2), key=lambda f: f["lineno"]) if f["code"].name == "reveal_type"]
    if rv2 != ["int", "str", "str"]:
        return (f"is_of_type(x, Literal['r', 'w']) (a union as the tested type): strict2(Any), strict2('r'), lax2(Any) [exclude_any=False] reveal {rv2}; "
                f"under the default exclude_any an Any argument matches no tested type: expected ['int', 'str', 'str']")
    if rv != ["int", "str | int", "int"] and rv != ["int", "int | str", "int"]:
        return f"is_of_type under the default exclude_any: strict(Any | int), strict(str | int), strict(Any) reveal {rv}; Any only matches Any, so the expected results are int, str | int, int"
    # UNKNOWN kinds
    code = """from typing import Any, Dict, List
from pyanalyze.extensions import evaluated, is_provided, is_keyword, is_positional
@evaluated
def kwonly(x: int, *, k: int = 0):
    if is_provided(k):
        return int
    else:
        return str
def kwonly(x: int, *, k: int = 0) -> object:
    return x
@evaluated
def kwonly2(x: int, *, k: int = 0):
    if is_keyword(k):
        return int
    else:
        return str
def kwonly2(x: int, *, k: int = 0) -> object:
    return x
@evaluated
def pos(x: int, y: int = 0, /):
    if is_provided(y):
        return int
    else:
        return str
def pos(x: int, y: int = 0, /) -> object:
    return x
def use(kw: Dict[str, int], ar: List[int]) -> None:
    reveal_type(kwonly(1, **kw))
    reveal_type(kwonly(1, k=1))
    reveal_type(kwonly(1))
    reveal_type(kwonly2(1, **kw))
    reveal_type(kwonly2(1, k=2))
    reveal_type(pos(1, *ar))
    reveal_type(pos(1, 2))
    reveal_type(pos(1))
"""
    res = check_code(code)
    revealed = [re.search(r"'(.*)'", f["description"]).group(1) for f in sorted(res, key=lambda f: f["lineno"]) if f["code"].name == "reveal_type"]
    want = ["str", "int", "str", "str", "int", "str", "int", "str"]
    if revealed != want:
        return f"argument kinds (UNKNOWN under **kwargs / *args of unknown size must read as not provided): revealed {revealed}, the specification gives {want}"
    return None


def w_d51(rec):
    msg = search2(skip_known=False)
    return bool(msg), msg or "the nested-if narrowing case agrees with the per-member union now"


def r_c20(rec):
    msg = search() or search2()
    if msg:
        return True, msg
    return False, "evaluated functions follow the reference denotation on the generated bodies and calls"


KERNELS = ["pyanalyze.type_evaluation.ConditionEvaluator.visit_Call", "pyanalyze.type_evaluation.EvaluateVisitor.visit_If", "pyanalyze.type_evaluation.EvaluateVisitor.visit_block",
           "pyanalyze.type_evaluation.decompose_union", "pyanalyze.type_evaluation.ConditionReturn.reverse", "pyanalyze.type_evaluation.can_assign_maybe_exclude_any",
           "pyanalyze.type_evaluation.unite_varmaps"]
REPLAYERS = {k: r_c20 for k in KERNELS}
REPLAYERS["C20.bounded"] = r_c20
REPLAYERS["C20.D51"] = w_d51

if __name__ == "__main__":
    print(search()); print(search2())

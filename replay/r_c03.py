"""C03/C04 native replay: pyanalyze.runtime.is_assignable and Value.is_assignable against a reference
structural-membership function over a universe of objects and static types (depth <= 2)."""
import collections.abc
import enum
import itertools
import typing
from typing import Annotated, Dict, FrozenSet, Iterable, List, Literal, Mapping, NewType, Optional, Sequence, Set, Tuple, Type, Union


class A:
    pass


class B(A):
    pass


class Color(enum.Enum):
    RED = 1
    BLUE = 2


UserId = NewType("UserId", int)


def objects():
    return [0, 1, True, 1.5, 1j, "a", "", b"a", None, (1, "a"), (1, 2), (), [1, 2], ["a"], [], {"a": 1}, {1: "a"}, {}, {1}, frozenset({1}),
            Color.RED, A(), B(), int, A, B, str]


def types():
    return [int, bool, float, complex, str, bytes, object, type(None), Literal[1], Literal["a"], Literal[True], Optional[int], Union[int, str],
            List[int], List[str], Set[int], FrozenSet[int], Dict[str, int], Tuple[int, str], Tuple[int, ...], Tuple[()], Sequence[int], Mapping[str, int],
            Iterable[int], Type[A], Type[int], A, B, Color, Literal[Color.RED], Annotated[int, "x"], Optional[List[int]], List[Optional[int]],
            Dict[str, List[int]], Tuple[int, Tuple[str, int]], Sequence[Union[int, str]]]


def acc(T, c):
    """class c is accepted where class T is expected (subclassing + PEP 484 numeric promotion)"""
    if issubclass(c, T):
        return True
    if T is float and issubclass(c, int):
        return True
    if T is complex and (issubclass(c, int) or issubclass(c, float)):
        return True
    return False


def member(o, T):
    origin = typing.get_origin(T)
    args = typing.get_args(T)
    if T is typing.Any:
        return True
    if origin is Annotated:
        return member(o, args[0])
    if origin is Literal:
        return any(type(o) is type(a) and o == a for a in args)
    if origin is Union:
        return any(member(o, a) for a in args)
    if origin is type:
        return isinstance(o, type) and issubclass(o, args[0])
    if origin in (list, set, frozenset):
        return acc(origin, type(o)) and all(member(e, args[0]) for e in o)
    if origin is dict:
        return acc(dict, type(o)) and all(member(k, args[0]) and member(v, args[1]) for k, v in o.items())
    if origin is tuple:
        if not isinstance(o, tuple):
            return False
        if args == ((),) or args == ():
            return len(o) == 0
        if len(args) == 2 and args[1] is Ellipsis:
            return all(member(e, args[0]) for e in o)
        return len(o) == len(args) and all(member(e, a) for e, a in zip(o, args))
    if origin in (collections.abc.Sequence, collections.abc.Iterable):
        if isinstance(o, (str, bytes)):
            # nominal: str is Sequence[str], bytes is Sequence[int]
            elem = str if isinstance(o, str) else int
            return origin is not None and acc_type_arg(elem, args[0])
        if not isinstance(o, origin):
            return False
        if isinstance(o, dict):
            return all(member(k, args[0]) for k in o)
        return all(member(e, args[0]) for e in o)
    if origin is collections.abc.Mapping:
        return isinstance(o, dict) and all(member(k, args[0]) and member(v, args[1]) for k, v in o.items())
    if isinstance(T, type):
        return acc(T, type(o))
    raise NotImplementedError(T)


def acc_type_arg(elem_cls, T):
    try:
        return member(elem_cls(), T) if elem_cls is not int else member(0, T)
    except Exception:
        return False


def search_literals():
    from pyanalyze.runtime import is_assignable
    for T in types():
        for o in objects():
            try:
                want = member(o, T)
            except NotImplementedError:
                continue
            got = is_assignable(o, T)
            if got != want:
                return f"is_assignable({o!r}, {T}) = {got}, structural membership says {want}"
    return None


def search_types():
    """C04 soundness and laws on type pairs, through the public Value API"""
    from pyanalyze.annotations import type_from_runtime
    from pyanalyze.checker import Checker
    from pyanalyze.value import NO_RETURN_VALUE, TypedValue, unite_values
    ctx = Checker()
    ts = [t for t in types()]
    vals = [(t, type_from_runtime(t)) for t in ts]
    objs = objects()
    lenient = lambda a, b: False
    for (ta, va), (tb, vb) in itertools.product(vals, repeat=2):
        if va.is_assignable(vb, ctx):
            for o in objs:
                try:
                    if member(o, tb) and not member(o, ta):
                        # documented leniency L2: a fixed-length tuple type accepts a variadic tuple of compatible elements
                        if typing.get_origin(ta) is tuple and typing.get_origin(tb) is tuple and Ellipsis in typing.get_args(tb):
                            continue
                        return f"{ta} accepts {tb}, but {o!r} belongs to {tb} and not to {ta}"
                except NotImplementedError:
                    pass
    for t, v in vals:
        if not v.is_assignable(v, ctx):
            return f"{t} does not accept itself"
        if not v.is_assignable(NO_RETURN_VALUE, ctx):
            return f"{t} does not accept Never"
        if not TypedValue(object).is_assignable(v, ctx):
            return f"object does not accept {t}"
    for (ta, va), (tb, vb), (tc, vc) in itertools.product(vals[:14], repeat=3):
        u = unite_values(vb, vc)
        if va.is_assignable(u, ctx) != (va.is_assignable(vb, ctx) and va.is_assignable(vc, ctx)):
            return f"{ta} accepts {tb} | {tc}: {va.is_assignable(u, ctx)}, but accepts the members: {va.is_assignable(vb, ctx)}, {va.is_assignable(vc, ctx)}"
        if (vb.is_assignable(va, ctx) or vc.is_assignable(va, ctx)) and not u.is_assignable(va, ctx):
            return f"{tb} | {tc} rejects {ta} although a member accepts it"
    return None


def r_c03(rec):
    for fn in (search_literals, search_types):
        msg = fn()
        if msg:
            return True, msg
    return False, "is_assignable agrees with structural membership on 27 objects x 36 types; type-to-type laws hold on the type universe"


KERNELS = ["pyanalyze.value.Value.can_assign", "pyanalyze.value.MultiValuedValue.can_assign", "pyanalyze.value.AnyValue.can_assign",
           "pyanalyze.value.AnnotatedValue.can_assign", "pyanalyze.value.AnnotatedValue.can_be_assigned", "pyanalyze.value.TypeAliasValue.can_assign",
           "pyanalyze.value.TypeAliasValue.can_be_assigned", "pyanalyze.value.TypedValue.can_assign", "pyanalyze.value.KnownValue.can_assign",
           "pyanalyze.value.KnownValue.__eq__", "pyanalyze.type_object.TypeObject.can_assign", "pyanalyze.type_object.TypeObject.__post_init__",
           "pyanalyze.type_object.TypeObject.is_assignable_to_type", "pyanalyze.type_object.TypeObject.is_instance", "pyanalyze.value.Value.is_assignable",
           "pyanalyze.value.AnnotatedValue.get_metadata_of_type", "pyanalyze.value.unify_bounds_maps"]
REPLAYERS = {k: r_c03 for k in KERNELS}

if __name__ == "__main__":
    print(search_literals())
    print(search_types())

"""C03/C04 native replay: pyanalyze.runtime.is_assignable and Value.is_assignable against a reference
structural-membership function over a universe of objects and static types (depth <= 2)."""
import collections.abc
import enum
import itertools
import typing
from typing import Annotated, Dict, FrozenSet, Iterable, List, Literal, Mapping, NewType, Optional, Sequence, Set, Tuple, Type, Union


class A:
    pass


class B(A):
    pass


class Color(enum.Enum):
    RED = 1
    BLUE = 2


UserId = NewType("UserId", int)


class Point(typing.NamedTuple):
    x: int
    y: int


class Celsius(float):
    pass


from typing_extensions import NotRequired, ReadOnly, TypedDict


class TD1(TypedDict):
    a: int


class TD2(TypedDict):
    a: int
    b: NotRequired[str]


class TD3(TypedDict):
    a: int
    b: ReadOnly[NotRequired[str]]


class TD4(TypedDict):
    a: str
    k: ReadOnly[int]


class TD5(TypedDict):
    a: str
    k: NotRequired[int]


class TD6(TypedDict):
    a: Optional[int]
    b: NotRequired[int]


class ThriftE:
    """a Thrift-generated enum: pyanalyze treats the class as a type whose values are ints (hasattr _VALUES_TO_NAMES)"""
    _VALUES_TO_NAMES = {0: "A", 1: "B"}
    _NAMES_TO_VALUES = {"A": 0, "B": 1}


import abc

_T_contra = typing.TypeVar("_T_contra", contravariant=True)


class SinkP(typing.Protocol[_T_contra]):
    def put(self, x: _T_contra) -> None: ...


class IntBox:
    def put(self, x: int) -> None:
        pass


def objects():
    return [0, 1, True, 1.5, 1j, "a", "", b"a", None, (1, "a"), (1, 2), (), [1, 2], ["a"], [], {"a": 1}, {1: "a"}, {}, {1}, frozenset({1}),
            {"x"}, {1.5}, {1, "a"}, [{"x"}], frozenset({"x"}), range(3), Color.RED, A(), B(), int, A, B, str, (1, "s", 1.5), (1, 2.5), (1, "s", "t", 0.5), Point(1, 2), Celsius(36.6), {"a": 1, "b": "x"}, {"a": 1, "b": 5}, {"a": "x"}, {"a": "x", "k": 1},
            {"a": None}, {"a": 1, "b": None}, collections.abc.Sized, Color]


def types():
    return [int, bool, float, complex, str, bytes, object, type(None), Literal[1], Literal["a"], Literal[True], Optional[int], Union[int, str],
            List[int], List[str], Set[int], FrozenSet[int], Dict[str, int], Tuple[int, str], Tuple[int, ...], Tuple[()], Sequence[int], Mapping[str, int],
            Iterable[int], Iterable[str], typing.AbstractSet[str], Set[str], List[Set[int]], Sequence[str], Type[A], Type[int], A, B, Color, Literal[Color.RED], Annotated[int, "x"], Optional[List[int]], List[Optional[int]],
            Dict[str, List[int]], Tuple[int, Tuple[str, int]], Sequence[Union[int, str]], Tuple[int, int], TD1, TD2, TD3, TD4, TD5, Optional[complex], Tuple[int, typing_extensions.Unpack[Tuple[str, ...]], float],
            Union[Literal[0, 1, 2, 3, 4, 5, 6, 7, 8, 9], List[int]], Union[Literal["a", "b", "c", "d", "e", "f", "g", "h", "i", "j"], Dict[str, int], Set[int]], TD6,
            type, abc.ABCMeta, Type[Color], ThriftE]   # (Type[collections.abc.Sized]: virtual subclasses through __subclasshook__, known finding D58, has its own witness)


import typing_extensions


def typing_extensions_is_typeddict(T):
    return typing_extensions.is_typeddict(T)


def acc(T, c):
    """class c is accepted where class T is expected (subclassing + PEP 484 numeric promotion)"""
    if issubclass(c, T):
        return True
    if T is float and issubclass(c, int):
        return True
    if T is complex and (issubclass(c, int) or issubclass(c, float)):
        return True
    return False


def member(o, T):
    origin = typing.get_origin(T)
    args = typing.get_args(T)
    if T is typing.Any:
        return True
    if origin is Annotated:
        return member(o, args[0])
    if origin is Literal:
        return any(type(o) is type(a) and o == a for a in args)
    if origin is Union:
        return any(member(o, a) for a in args)
    if origin is type:
        return isinstance(o, type) and issubclass(o, args[0])
    if origin in (list, set, frozenset):
        return acc(origin, type(o)) and all(member(e, args[0]) for e in o)
    if origin is dict:
        return acc(dict, type(o)) and all(member(k, args[0]) and member(v, args[1]) for k, v in o.items())
    if origin is tuple:
        if not isinstance(o, tuple):
            return False
        if args == ((),) or args == ():
            return len(o) == 0
        if len(args) == 2 and args[1] is Ellipsis:
            return all(member(e, args[0]) for e in o)
        unpacked = [i for i, a in enumerate(args) if typing.get_origin(a) is typing_extensions.Unpack]
        if unpacked:
            i = unpacked[0]
            pre, post = args[:i], args[i + 1:]
            inner = typing.get_args(typing.get_args(args[i])[0])[0]
            if len(o) < len(pre) + len(post):
                return False
            mid = o[len(pre): len(o) - len(post)]
            return (all(member(e, a) for e, a in zip(o, pre)) and all(member(e, inner) for e in mid)
                    and all(member(e, a) for e, a in zip(o[len(o) - len(post):], post)))
        return len(o) == len(args) and all(member(e, a) for e, a in zip(o, args))
    if origin in (collections.abc.Sequence, collections.abc.Iterable):
        if isinstance(o, (str, bytes)):
            # nominal: str is Sequence[str], bytes is Sequence[int]
            elem = str if isinstance(o, str) else int
            return origin is not None and acc_type_arg(elem, args[0])
        if not isinstance(o, origin):
            return False
        if isinstance(o, dict):
            return all(member(k, args[0]) for k in o)
        return all(member(e, args[0]) for e in o)
    if origin is collections.abc.Mapping:
        return isinstance(o, dict) and all(member(k, args[0]) and member(v, args[1]) for k, v in o.items())
    if typing_extensions_is_typeddict(T):
        if not isinstance(o, dict):
            return False
        hints = typing.get_type_hints(T, include_extras=True)
        for k, ht in hints.items():
            required = k in T.__required_keys__
            if k not in o:
                if required:
                    return False
                continue
            inner = ht
            while typing.get_origin(inner) in (NotRequired, ReadOnly, typing_extensions.Required):
                inner = typing.get_args(inner)[0]
            if not member(o[k], inner):
                return False
        # open TypedDict: extra keys with arbitrary values are allowed structurally
        return all(isinstance(k, str) for k in o)
    if T is ThriftE:
        # the values of a Thrift enum are the ints it names (the class is a namespace of int constants, it has no instances of its own)
        return isinstance(o, int) and o in ThriftE._VALUES_TO_NAMES
    if isinstance(T, type):
        return acc(T, type(o))
    raise NotImplementedError(T)


def acc_type_arg(elem_cls, T):
    try:
        return member(elem_cls(), T) if elem_cls is not int else member(0, T)
    except Exception:
        return False


def search_literals(skip_known=True):
    from pyanalyze.runtime import is_assignable
    for T in types():
        for o in objects():
            try:
                want = member(o, T)
            except NotImplementedError:
                continue
            got = is_assignable(o, T)
            if got != want and skip_known and want and isinstance(o, tuple) and any(typing.get_origin(a) is typing_extensions.Unpack for a in typing.get_args(T)):
                continue  # known finding D25
            if got != want and skip_known and got and type(o) not in (tuple, list, set, frozenset, dict) and isinstance(o, (tuple, list, set, frozenset, dict)) \
                    and typing.get_origin(T) in (collections.abc.Iterable, collections.abc.Sequence, collections.abc.Collection, collections.abc.Set, collections.abc.Mapping):
                continue  # known finding D50: instance of a proper subclass of a builtin container against a generic ABC
            if got != want and skip_known and got and isinstance(o, enum.EnumMeta) and typing.get_origin(T) in (collections.abc.Iterable, collections.abc.Sequence, collections.abc.Collection):
                continue  # known finding D57: an Enum class (iterable through EnumMeta.__iter__, whose self-typed signature is not solved) against Iterable[X]
            if got != want and skip_known and want and typing.get_origin(T) is type and getattr(typing.get_args(T)[0], "_is_protocol", False) is False and typing.get_args(T)[0] is collections.abc.Sized:
                continue  # known finding D58: type[<ABC with a __subclasshook__>] rejects class objects, the ABC itself included
            if got != want:
                return f"is_assignable({o!r}, {T}) = {got}, structural membership says {want}"
    return None


def w_d57(rec):
    from pyanalyze.runtime import is_assignable
    got = is_assignable(Color, Iterable[int])
    return bool(got), f"is_assignable(<enum 'Color'>, Iterable[int]) = {got}: iterating the class yields its members, not ints (EnumMeta.__iter__'s self-typed signature is not solved and the element type degrades to Any)"


def w_d58(rec):
    from pyanalyze.runtime import is_assignable
    a, b = is_assignable(collections.abc.Sized, Type[collections.abc.Sized]), is_assignable(str, Type[collections.abc.Sized])
    return (not a and not b), f"is_assignable(Sized, Type[Sized]) = {a}, is_assignable(str, Type[Sized]) = {b}: both are class objects that are subclasses of Sized (issubclass is True)"


def w_d50(rec):
    from pyanalyze.runtime import is_assignable
    got = is_assignable(Point(1, 2), Iterable[str])
    return bool(got), f"is_assignable(Point(x=1, y=2), Iterable[str]) = {got} for class Point(NamedTuple) with int fields: the element type of a generic ABC is not compared for instances of tuple subclasses"


def search_types(skip_known=True):
    """C04 soundness and laws on type pairs, through the public Value API"""
    from pyanalyze.annotations import type_from_runtime
    from pyanalyze.checker import Checker
    from pyanalyze.value import NO_RETURN_VALUE, TypedValue, unite_values
    ctx = Checker()
    ts = [t for t in types()]
    vals = [(t, type_from_runtime(t)) for t in ts]
    objs = objects()
    lenient = lambda a, b: False
    for (ta, va), (tb, vb) in itertools.product(vals, repeat=2):
        if va.is_assignable(vb, ctx):
            for o in objs:
                try:
                    if member(o, tb) and not member(o, ta):
                        # documented leniency L2: a fixed-length tuple type accepts a variadic tuple of compatible elements
                        if typing.get_origin(ta) is tuple and typing.get_origin(tb) is tuple and Ellipsis in typing.get_args(tb):
                            continue
                        # documented leniency L3: the bare class `type` is read as type[Any] (gradual), so type[C] accepts it
                        if tb is type and typing.get_origin(ta) is type:
                            continue
                        # known finding D23: dict/Mapping types accept an open TypedDict whose declared values fit
                        if typing_extensions_is_typeddict(tb) and skip_known and any(typing.get_origin(arm) in (dict, collections.abc.Mapping) for arm in ((typing.get_args(ta) if typing.get_origin(ta) is Union else ()) + (ta,))):
                            continue
                        # known finding D24: a TypedDict accepts dict[str, X] through its dict[str, ...] generic base (keys may be missing)
                        if typing_extensions_is_typeddict(ta) and typing.get_origin(tb) is dict and skip_known:
                            continue
                        return f"{ta} accepts {tb}, but {o!r} belongs to {tb} and not to {ta}"
                except NotImplementedError:
                    pass
    for t, v in vals:
        if not v.is_assignable(v, ctx):
            return f"{t} does not accept itself"
        if not v.is_assignable(NO_RETURN_VALUE, ctx):
            return f"{t} does not accept Never"
        if not TypedValue(object).is_assignable(v, ctx):
            return f"object does not accept {t}"
    # one TypeObject serves every instantiation of a generic protocol: the verdict for one must not be reused for another
    sink_int, sink_str, box = type_from_runtime(SinkP[int]), type_from_runtime(SinkP[str]), TypedValue(IntBox)
    first = sink_str.is_assignable(box, ctx)
    accepted_int = sink_int.is_assignable(box, ctx)
    again = sink_str.is_assignable(box, ctx)
    if first or again or not accepted_int:
        return (f"SinkP[str] accepts IntBox (put(self, x: int)): {first} before and {again} after SinkP[int] was asked (SinkP[int] accepts it: {accepted_int}); "
                f"'x' belongs to what SinkP[str].put accepts and not to what IntBox.put accepts")
    for (ta, va), (tb, vb), (tc, vc) in itertools.product(vals[:14], repeat=3):
        u = unite_values(vb, vc)
        if va.is_assignable(u, ctx) != (va.is_assignable(vb, ctx) and va.is_assignable(vc, ctx)):
            return f"{ta} accepts {tb} | {tc}: {va.is_assignable(u, ctx)}, but accepts the members: {va.is_assignable(vb, ctx)}, {va.is_assignable(vc, ctx)}"
        if (vb.is_assignable(va, ctx) or vc.is_assignable(va, ctx)) and not u.is_assignable(va, ctx):
            return f"{tb} | {tc} rejects {ta} although a member accepts it"
    return None


def search_total():
    """the value API returns for every pair of a generated value universe (shared with C12), including unhashable literals
    against large literal unions (the _known_subvals fast path)"""
    from replay.r_c12 import search_values
    return search_values()


def r_c03(rec):
    for fn in (search_literals, search_types, search_total):
        msg = fn()
        if msg:
            return True, msg
    return False, "is_assignable agrees with structural membership on 27 objects x 36 types; type-to-type laws hold on the type universe"


KERNELS = ["pyanalyze.value.Value.can_assign", "pyanalyze.value.MultiValuedValue.can_assign", "pyanalyze.value.AnyValue.can_assign",
           "pyanalyze.value.AnnotatedValue.can_assign", "pyanalyze.value.AnnotatedValue.can_be_assigned", "pyanalyze.value.TypeAliasValue.can_assign",
           "pyanalyze.value.TypeAliasValue.can_be_assigned", "pyanalyze.value.TypedValue.can_assign", "pyanalyze.value.KnownValue.can_assign",
           "pyanalyze.value.KnownValue.__eq__", "pyanalyze.type_object.TypeObject.can_assign", "pyanalyze.type_object.TypeObject.__post_init__",
           "pyanalyze.type_object.TypeObject.is_assignable_to_type", "pyanalyze.type_object.TypeObject.is_instance", "pyanalyze.value.Value.is_assignable",
           "pyanalyze.value.AnnotatedValue.get_metadata_of_type", "pyanalyze.value.unify_bounds_maps"]
REPLAYERS = {k: r_c03 for k in KERNELS}
def w_d23(rec):
    from pyanalyze.annotations import type_from_runtime
    from pyanalyze.checker import Checker
    ctx = Checker()
    a, b = type_from_runtime(Dict[str, int]), type_from_runtime(TD1)
    ok = a.is_assignable(b, ctx)
    o = {"a": 1, "b": "x"}
    return (ok and member(o, TD1) and not member(o, Dict[str, int])), f"dict[str, int] accepts TypedDict TD1{{a: int}}: {ok}; {o!r} is a TD1 (open TypedDict, extra key) but not a dict[str, int]"


def w_d24(rec):
    from pyanalyze.annotations import type_from_runtime
    from pyanalyze.checker import Checker
    ctx = Checker()
    a, b = type_from_runtime(TD1), type_from_runtime(Dict[str, int])
    ok = a.is_assignable(b, ctx)
    return (ok and member({}, Dict[str, int]) and not member({}, TD1)), f"TypedDict TD1{{a: int}} accepts dict[str, int]: {ok}; {{}} is a dict[str, int] but lacks the required key 'a'"


def w_d25(rec):
    from pyanalyze.runtime import is_assignable
    T = Tuple[int, typing_extensions.Unpack[Tuple[str, ...]], float]
    o = (1, "s", 1.5)
    got = is_assignable(o, T)
    return (member(o, T) and not got), f"is_assignable({o!r}, tuple[int, *tuple[str, ...], float]) = {got}: SequenceValue.can_assign compares members position by position and rejects every concrete tuple for a type with an unpacked member"


REPLAYERS["C03.D25"] = w_d25
REPLAYERS["C03.D50"] = w_d50
REPLAYERS["C03.D57"] = w_d57
REPLAYERS["C03.D58"] = w_d58
REPLAYERS["C04.D23"] = w_d23
REPLAYERS["C04.D24"] = w_d24
REPLAYERS["C03.bounded"] = lambda rec: (lambda m: (bool(m), m or "is_assignable(o, T) == member(o, T) on the object x type universe"))(search_literals())
REPLAYERS["C04.bounded"] = lambda rec: (lambda m: (bool(m), m or "accepted type pairs are membership-sound; reflexivity, Never, object and union laws hold on the type universe"))(search_types())

if __name__ == "__main__":
    print(search_literals())
    print(search_types())

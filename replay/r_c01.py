"""C01 native replay: instrumented execution.  Every evaluated Name / Subscript / Call / BinOp / IfExp node of a small
corpus of programs is executed under CPython with arguments drawn from the declared parameter types, and its runtime
value must belong to the type pyanalyze inferred for that node (pyanalyze.ast_annotator.annotate_code)."""
import ast
import contextlib
import io
import itertools

PROGRAMS = [
    # (source, [argument tuples])
    ("def f(a: int, rest: list, fl: float, by: bytes, s: str):\n    t = (a, *rest, fl, by, s)\n    return [t[0], t[-1], t[-2], t[-3], t[1] if len(t) > 4 else None, t[-4]]\n",
     [(1, [], 1.5, b"b", "x"), (1, ["s"], 1.5, b"b", "y"), (1, ["s", "t"], 2.5, b"", "z")]),
    ("def f(t: tuple):\n    a, *mid, z = t\n    return (a, mid, z)\n", [((1, "x", 2.5),), ((1, 2),), ((1, "a", "b", None),)]),
    ("def f(x: int):\n    if x > 1:\n        y = 'big'\n    elif x == 1:\n        y = None\n    else:\n        y = 0\n    return y\n", [(0,), (1,), (5,)]),
    ("from typing import Optional\ndef f(x: Optional[int]):\n    if x is None:\n        return 'none'\n    return x + 1\n", [(None,), (3,)]),
    ("from typing import Union\ndef f(x: Union[int, str, bytes]):\n    if isinstance(x, int):\n        return x\n    elif isinstance(x, str):\n        return x.upper()\n    return x\n",
     [(1,), ("a",), (b"b",), (True,)]),
    ("def f(xs: list):\n    total = 0\n    last = None\n    for i, x in enumerate(xs):\n        if x == 2:\n            continue\n        if x == 5:\n            break\n        total = total + x\n        last = i\n    else:\n        last = 'done'\n    return (total, last)\n",
     [([],), ([1, 2, 3],), ([1, 5, 2],)]),
    ("def f(d: dict, k: str):\n    try:\n        v = d[k]\n    except KeyError:\n        v = 'missing'\n    else:\n        v = (v,)\n    finally:\n        w = 1\n    return (v, w)\n", [({"a": 1}, "a"), ({}, "a")]),
    ("def f(x: float):\n    if not isinstance(x, int):\n        return x\n    return x\n", [(1.5,), (3,)]),
    ("def f(x: int, y: str):\n    z = (x, y) if x else [y]\n    return z[0]\n", [(0, "a"), (2, "b")]),
    ("def g(a: int, b: str = 'd', *rest: float, k: bool = False) -> tuple:\n    return (a, b, rest, k)\ndef f(x: int):\n    return [g(x), g(x, 's'), g(x, 's', 1.5, 2.5), g(x, k=True)]\n", [(1,)]),
    ("from typing import TypeVar, List\nT = TypeVar('T')\ndef first(xs: List[T]) -> T:\n    return xs[0]\ndef f(n: int):\n    a = first([n, n])\n    b = first(['s'])\n    return (a, b)\n", [(3,)]),
    ("def f(x: object):\n    match x:\n        case int():\n            r = x\n        case [a, b]:\n            r = (a, b)\n        case {'k': v}:\n            r = v\n        case _:\n            r = None\n    return r\n",
     [(1,), ([1, 2],), ({"k": "v"},), ("s",)]),
    ("def f(x: int):\n    while True:\n        x = x - 1\n        if x < 0:\n            break\n    return x\n", [(0,), (3,)]),
    ("def f(s: str, n: int):\n    return (s and n, s or n, not s, len(s) == n, s in ('a', 'b'))\n", [("", 0), ("a", 1), ("zz", 0)]),
    # a literal index at the position of an unpacked member, and past it
    ("def f(a: int, rest: list, fl: float):\n    t = (a, *rest, fl)\n    return (t[1], t[-1], t[0])\n", [(1, [], 1.5), (1, ["s"], 2.5), (1, ["s", "t"], 0.5)]),
    # match: an opaque guard that fails must not remove the pattern's values from later cases
    ("from typing import Optional\ndef g() -> bool:\n    return False\ndef f(x: Optional[int]):\n    match x:\n        case None if g():\n            r = x\n        case 1 if g():\n            r = x\n        case _:\n            r = x\n    return r\n",
     [(None,), (1,), (2,)]),
    # a narrowing condition saved in a variable, with the narrowed variable reassigned on some paths only
    ("from typing import Union\ndef f(x: Union[int, str], flag: bool):\n    is_int = isinstance(x, int)\n    if flag:\n        x = 're'\n    if is_int:\n        return x\n    return x\n",
     [(1, True), (1, False), ("s", True), ("s", False)]),
    # star patterns against tuples of statically known length (minimal length included)
    ("from typing import Tuple, Union\ndef f(x: Union[Tuple[int], Tuple[int, int], Tuple[int, int, int], Tuple[()]]):\n    match x:\n        case [first, *rest]:\n            return (x, first, rest)\n        case _:\n            return x\n",
     [((1,),), ((1, 2),), ((1, 2, 3),), ((),)]),
    ("from typing import Tuple, Union\ndef f(x: Union[Tuple[int], Tuple[int, int], Tuple[()]]):\n    match x:\n        case [a, b]:\n            return (x, a, b)\n        case [a]:\n            return (x, a)\n    return x\n",
     [((1,),), ((1, 2),), ((),)]),
    # loop else clauses, jumps inside try blocks
    ("def f(xs: list):\n    x = 1\n    for v in xs:\n        x = 'in'\n        if v:\n            x = None\n            break\n    else:\n        y = x\n        return (x, y)\n    return x\n", [([],), ([0],), ([0, 1],)]),
    ("def f(xs: list):\n    x = 1\n    try:\n        x = 'a'\n        for v in xs:\n            if v:\n                break\n        xs[0]\n    except IndexError:\n        return x\n    return x\n", [([],), ([0],), ([1],)]),
    ("def f(n: int):\n    while n:\n        n = n - 1\n        y = n\n    else:\n        return n\n    return y\n", [(0,), (2,)]),
    ("from typing import Union, Optional\ndef g() -> bool:\n    return False\ndef f(x: Union[int, str, None]):\n    if (isinstance(x, int) or g()) and g():\n        return x\n    else:\n        return x\n", [(1,), ("s",), (None,)]),
]

# programs about narrowing (C02 runs these too): a string argument starting with "=" is evaluated in the program's own namespace
NARROWING_PROGRAMS = [
    # comparisons with an enum member when the declared type is wider than that enum
    # (stdlib enums: the checker imports the program as its own module, so classes defined in the program would be different objects at run time)
    ("import enum\nfrom uuid import SafeUUID\nfrom py_compile import PycInvalidationMode\n"
     "def f(x: enum.Enum, y: object, z: SafeUUID):\n    if x != SafeUUID.safe:\n        a = x\n    else:\n        a = x\n    if y != SafeUUID.safe:\n        b = y\n    else:\n        b = y\n"
     "    if z is not SafeUUID.safe:\n        c = z\n    else:\n        c = z\n    if x == SafeUUID.unsafe:\n        d = x\n    else:\n        d = x\n    return (a, b, c, d)\n",
     [("=SafeUUID.safe", "=SafeUUID.safe", "=SafeUUID.safe"), ("=SafeUUID.unsafe", "=SafeUUID.unsafe", "=SafeUUID.unsafe"), ("=PycInvalidationMode.TIMESTAMP", "a string", "=SafeUUID.unknown"),
      ("=PycInvalidationMode.CHECKED_HASH", 42, "=SafeUUID.safe")]),
    ("def f(p: bool, q: object):\n    if p != True:\n        a = p\n    else:\n        a = p\n    if q != True:\n        b = q\n    else:\n        b = q\n    if q is not None:\n        c = q\n    else:\n        c = q\n    return (a, b, c)\n",
     [(True, True), (False, False), (True, 2), (False, None), (True, "s")]),   # (q = 1 would be known finding D54: 1 == True)
    # len() comparisons on a tuple with an unpacked part
    ("def f(a: int, rest: list):\n    t = (a, *rest)\n    if len(t) == 2:\n        r = t\n    else:\n        r = t\n    if len(t) > 2:\n        s = t\n    else:\n        s = t\n    if len(t) != 2:\n        u = t\n    else:\n        u = t\n"
     "    if 1 < len(t):\n        v = t\n    else:\n        v = t\n    return (r, s, u, v)\n",
     [(1, []), (1, ["a"]), (1, ["a", "b"])]),
    # narrowing of nested composites is reset by an assignment to an ancestor composite
    ("from typing import List, Optional\ndef f(x: List[List[Optional[int]]], y: List[Optional[int]]):\n    if x[0][0] is None:\n        x[0] = y\n        return x[0][0]\n    return x[0][0]\n",
     [([[None]], [3]), ([[None]], [None]), ([[1]], [2])]),
    # unpacking a tuple with an unpacked part into plain and starred targets
    ("def f(a: int, rest: list, fl: float, by: bytes):\n    t = (a, *rest, fl, by)\n    if len(t) == 3:\n        p, q, r = t\n        return (p, q, r)\n    h, *m, z = t\n    return (h, m, z)\n",
     [(1, [], 1.5, b"b"), (1, ["s"], 2.5, b"c"), (1, ["s", "t"], 0.5, b"")]),
    ("def f(rest: list, s: str, by: bytes):\n    t = (*rest, s, by)\n    if len(t) == 2:\n        p, q = t\n        return (p, q)\n    *m, y, z = t\n    return (m, y, z)\n",
     [([], "s", b"b"), ([1], "s", b"b"), ([1, 2], "s", b"b")]),
]

KINDS = (ast.Name, ast.Subscript, ast.Call, ast.BinOp, ast.IfExp, ast.BoolOp, ast.Compare)


class _Instrument(ast.NodeTransformer):
    def __init__(self):
        self.nodes = {}

    def generic_visit(self, node):
        node = super().generic_visit(node)
        if isinstance(node, KINDS) and isinstance(getattr(node, "ctx", ast.Load()), ast.Load) and hasattr(node, "inferred_value"):
            idx = len(self.nodes)
            self.nodes[idx] = node
            call = ast.Call(func=ast.Name(id="__rec", ctx=ast.Load()), args=[ast.Constant(idx), node], keywords=[])
            return ast.copy_location(call, node)
        return node

    def visit_Call(self, node):
        # do not wrap the callee expression itself (functions are not the interesting values)
        node.args = [self.visit(a) for a in node.args]
        node.keywords = [ast.keyword(arg=k.arg, value=self.visit(k.value)) for k in node.keywords]
        if isinstance(node.func, ast.Attribute):
            node.func.value = self.visit(node.func.value)
        if hasattr(node, "inferred_value"):
            idx = len(self.nodes)
            self.nodes[idx] = node
            call = ast.Call(func=ast.Name(id="__rec", ctx=ast.Load()), args=[ast.Constant(idx), node], keywords=[])
            return ast.copy_location(call, node)
        return node

    def visit_match_case(self, node):
        node.body = [self.visit(s) for s in node.body]
        if node.guard is not None:
            node.guard = self.visit(node.guard)
        return node


def in_gamma(o, v, ctx):
    """reference membership of a runtime object in an inferred Value: structural for unions, Annotated and
    sequence values with unpacked members (SequenceValue.can_assign itself rejects every concrete tuple for those:
    known finding D25 of C03), pyanalyze's own literal check otherwise"""
    from pyanalyze.value import AnnotatedValue, KnownValue, MultiValuedValue, SequenceValue
    if isinstance(v, MultiValuedValue):
        return any(in_gamma(o, m, ctx) for m in v.vals)
    if isinstance(v, AnnotatedValue):
        return in_gamma(o, v.value, ctx)
    if isinstance(v, SequenceValue) and isinstance(v.typ, type) and any(many for many, _ in v.members):
        if not isinstance(o, v.typ):
            return False
        xs = list(o)
        members = list(v.members)

        def match(i, j):
            if j == len(members):
                return i == len(xs)
            many, m = members[j]
            if many:
                k = i
                while True:
                    if match(k, j + 1):
                        return True
                    if k < len(xs) and in_gamma(xs[k], m, ctx):
                        k += 1
                    else:
                        return False
            return i < len(xs) and in_gamma(xs[i], m, ctx) and match(i + 1, j + 1)
        return match(0, 0)
    return v.is_assignable(KnownValue(o), ctx)


def search(programs=None):
    from pyanalyze.ast_annotator import annotate_code
    from pyanalyze.checker import Checker
    from pyanalyze.value import KnownValue
    ctx = Checker()
    for src, arglists in (PROGRAMS + NARROWING_PROGRAMS if programs is None else programs):
        with contextlib.redirect_stderr(io.StringIO()), contextlib.redirect_stdout(io.StringIO()):
            tree = annotate_code(src)
        ins = _Instrument()
        tree2 = ins.visit(tree)
        ast.fix_missing_locations(tree2)
        seen = []
        ns = {"__rec": lambda i, v: (seen.append((i, v)), v)[1]}
        exec(compile(tree2, "<instrumented>", "exec"), ns)
        for args in arglists:
            del seen[:]
            args = tuple(eval(a[1:], ns) if isinstance(a, str) and a.startswith("=") else a for a in args)
            ns["f"](*args)
            from replay.util import count, sample
            count(evaluations=len(seen), distinct=1)
            if src is PROGRAMS[0][0] and args is arglists[0]:
                sample({"program": src, "arguments": repr(args), "evaluated_nodes_checked": len(seen), "rule": "runtime value of every evaluated node belongs to its inferred type"})
            for i, v in seen:
                node = ins.nodes[i]
                inferred = node.inferred_value
                if inferred is None:
                    continue
                try:
                    ok = in_gamma(v, inferred, ctx)
                except Exception as e:
                    return f"is_assignable raised {type(e).__name__} for node `{ast.unparse(_strip(node))}` value {v!r}"
                if not ok:
                    return (f"program\n{src}called as f{args!r}: the expression `{ast.unparse(_strip(node))}` (line {node.lineno}) evaluated to {v!r}, "
                            f"which does not belong to the inferred type {inferred}")
    return None


def _strip(node):
    class S(ast.NodeTransformer):
        def visit_Call(self, n):
            n = self.generic_visit(n)
            if isinstance(n.func, ast.Name) and n.func.id == "__rec":
                return n.args[1]
            return n
    import copy
    return S().visit(copy.deepcopy(node))


def search_unpack():
    """_unpack_sequence_value against the segmentation meaning of a SequenceValue: every concrete sequence the value admits (each unpacked
    member repeated 0..k times) that has the length the targets demand puts, at every target, an element whose member type the answer contains"""
    import itertools
    from pyanalyze.value import (_unpack_sequence_value, SequenceValue, TypedValue, CanAssignError, GenericValue, flatten_values)
    from replay.util import count, sample
    tys = [int, str, bytes, list, dict]

    def contains(r, v):
        return r == v or v in list(flatten_values(r))

    for n in range(0, 5):
        for flags in itertools.product([False, True], repeat=n):
            members = [(flags[k], TypedValue(tys[k])) for k in range(n)]
            sv = SequenceValue(tuple, members)
            for T in range(0, 6):
                for P in (None, 0, 1, 2):
                    r = _unpack_sequence_value(sv, T, P)
                    count(1, 0 if isinstance(r, CanAssignError) else 1)
                    if isinstance(r, CanAssignError):
                        continue
                    sample(f"_unpack_sequence_value({sv}, {T}, {P}) -> {[str(x) for x in r]}")
                    want = T if P is None else T + 1 + P
                    if len(r) != want:
                        return f"_unpack_sequence_value({sv}, {T}, {P}) returns {len(r)} values for {want} targets"
                    need = T + (P or 0)
                    reps = [range(0, need + 2) if f else (1,) for f in flags]
                    for rep in itertools.product(*reps):
                        shape = [k for k in range(n) for _ in range(rep[k])]
                        if (P is None and len(shape) != T) or (P is not None and len(shape) < T + P):
                            continue
                        for pos, src in enumerate(shape):
                            v = members[src][1]
                            if P is None or pos < T:
                                got = r[pos]
                                ok = contains(got, v)
                            elif pos >= len(shape) - P:
                                got = r[len(r) - (len(shape) - pos)]
                                ok = contains(got, v)
                            else:
                                got = r[T]
                                if isinstance(got, SequenceValue):
                                    ok = any(contains(m, v) for _, m in got.members)
                                elif isinstance(got, GenericValue):
                                    ok = contains(got.args[0], v)
                                else:
                                    ok = False
                            if not ok:
                                conc = [tys[k].__name__ for k in shape]
                                return (f"_unpack_sequence_value({sv}, target_length={T}, post_starred_length={P}) -> {[str(x) for x in r]}: a concrete sequence with element types {conc} "
                                        f"is admitted by the value, but its element {pos} ({tys[src].__name__}) does not belong to the value inferred for its target ({got})")
    return None


def r_unpack(rec):
    msg = search_unpack()
    if msg:
        return True, msg
    return False, "every admitted concrete sequence is unpacked soundly (members <= 4, targets <= 5 + 1 + 2)"


def r_c01(rec):
    msg = search()
    if msg:
        return True, msg
    return False, "every recorded runtime value belongs to its inferred type on the program corpus"


def r_narrowing_programs(rec):
    msg = search(NARROWING_PROGRAMS)
    if msg:
        return True, msg
    return False, "in every narrowed branch of the narrowing programs the runtime value belongs to the narrowed type"


REPLAYERS = {"C02.programs": r_narrowing_programs, "C01.unpack": r_unpack, "pyanalyze.value._unpack_sequence_value": r_unpack, "C01.bounded": r_c01, "pyanalyze.implementation._sequence_common_getitem_impl.inner": r_c01}

if __name__ == "__main__":
    print(search())

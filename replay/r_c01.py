"""C01 native replay: instrumented execution.  Every evaluated Name / Subscript / Call / BinOp / IfExp node of a small
corpus of programs is executed under CPython with arguments drawn from the declared parameter types, and its runtime
value must belong to the type pyanalyze inferred for that node (pyanalyze.ast_annotator.annotate_code)."""
import ast
import contextlib
import io
import itertools

PROGRAMS = [
    # (source, [argument tuples])
    ("def f(a: int, rest: list, fl: float, by: bytes, s: str):\n    t = (a, *rest, fl, by, s)\n    return [t[0], t[-1], t[-2], t[-3], t[1] if len(t) > 4 else None, t[-4]]\n",
     [(1, [], 1.5, b"b", "x"), (1, ["s"], 1.5, b"b", "y"), (1, ["s", "t"], 2.5, b"", "z")]),
    ("def f(t: tuple):\n    a, *mid, z = t\n    return (a, mid, z)\n", [((1, "x", 2.5),), ((1, 2),), ((1, "a", "b", None),)]),
    ("def f(x: int):\n    if x > 1:\n        y = 'big'\n    elif x == 1:\n        y = None\n    else:\n        y = 0\n    return y\n", [(0,), (1,), (5,)]),
    ("from typing import Optional\ndef f(x: Optional[int]):\n    if x is None:\n        return 'none'\n    return x + 1\n", [(None,), (3,)]),
    ("from typing import Union\ndef f(x: Union[int, str, bytes]):\n    if isinstance(x, int):\n        return x\n    elif isinstance(x, str):\n        return x.upper()\n    return x\n",
     [(1,), ("a",), (b"b",), (True,)]),
    ("def f(xs: list):\n    total = 0\n    last = None\n    for i, x in enumerate(xs):\n        if x == 2:\n            continue\n        if x == 5:\n            break\n        total = total + x\n        last = i\n    else:\n        last = 'done'\n    return (total, last)\n",
     [([],), ([1, 2, 3],), ([1, 5, 2],)]),
    ("def f(d: dict, k: str):\n    try:\n        v = d[k]\n    except KeyError:\n        v = 'missing'\n    else:\n        v = (v,)\n    finally:\n        w = 1\n    return (v, w)\n", [({"a": 1}, "a"), ({}, "a")]),
    ("def f(x: float):\n    if not isinstance(x, int):\n        return x\n    return x\n", [(1.5,), (3,)]),
    ("def f(x: int, y: str):\n    z = (x, y) if x else [y]\n    return z[0]\n", [(0, "a"), (2, "b")]),
    ("def g(a: int, b: str = 'd', *rest: float, k: bool = False) -> tuple:\n    return (a, b, rest, k)\ndef f(x: int):\n    return [g(x), g(x, 's'), g(x, 's', 1.5, 2.5), g(x, k=True)]\n", [(1,)]),
    ("from typing import TypeVar, List\nT = TypeVar('T')\ndef first(xs: List[T]) -> T:\n    return xs[0]\ndef f(n: int):\n    a = first([n, n])\n    b = first(['s'])\n    return (a, b)\n", [(3,)]),
    ("def f(x: object):\n    match x:\n        case int():\n            r = x\n        case [a, b]:\n            r = (a, b)\n        case {'k': v}:\n            r = v\n        case _:\n            r = None\n    return r\n",
     [(1,), ([1, 2],), ({"k": "v"},), ("s",)]),
    ("def f(x: int):\n    while True:\n        x = x - 1\n        if x < 0:\n            break\n    return x\n", [(0,), (3,)]),
    ("def f(s: str, n: int):\n    return (s and n, s or n, not s, len(s) == n, s in ('a', 'b'))\n", [("", 0), ("a", 1), ("zz", 0)]),
    # a literal index at the position of an unpacked member, and past it
    ("def f(a: int, rest: list, fl: float):\n    t = (a, *rest, fl)\n    return (t[1], t[-1], t[0])\n", [(1, [], 1.5), (1, ["s"], 2.5), (1, ["s", "t"], 0.5)]),
    # match: an opaque guard that fails must not remove the pattern's values from later cases
    ("from typing import Optional\ndef g() -> bool:\n    return False\ndef f(x: Optional[int]):\n    match x:\n        case None if g():\n            r = x\n        case 1 if g():\n            r = x\n        case _:\n            r = x\n    return r\n",
     [(None,), (1,), (2,)]),
    # a narrowing condition saved in a variable, with the narrowed variable reassigned on some paths only
    ("from typing import Union\ndef f(x: Union[int, str], flag: bool):\n    is_int = isinstance(x, int)\n    if flag:\n        x = 're'\n    if is_int:\n        return x\n    return x\n",
     [(1, True), (1, False), ("s", True), ("s", False)]),
    # star patterns against tuples of statically known length (minimal length included)
    ("from typing import Tuple, Union\ndef f(x: Union[Tuple[int], Tuple[int, int], Tuple[int, int, int], Tuple[()]]):\n    match x:\n        case [first, *rest]:\n            return (x, first, rest)\n        case _:\n            return x\n",
     [((1,),), ((1, 2),), ((1, 2, 3),), ((),)]),
    ("from typing import Tuple, Union\ndef f(x: Union[Tuple[int], Tuple[int, int], Tuple[()]]):\n    match x:\n        case [a, b]:\n            return (x, a, b)\n        case [a]:\n            return (x, a)\n    return x\n",
     [((1,),), ((1, 2),), ((),)]),
    # loop else clauses, jumps inside try blocks
    ("def f(xs: list):\n    x = 1\n    for v in xs:\n        x = 'in'\n        if v:\n            x = None\n            break\n    else:\n        y = x\n        return (x, y)\n    return x\n", [([],), ([0],), ([0, 1],)]),
    ("def f(xs: list):\n    x = 1\n    try:\n        x = 'a'\n        for v in xs:\n            if v:\n                break\n        xs[0]\n    except IndexError:\n        return x\n    return x\n", [([],), ([0],), ([1],)]),
    ("def f(n: int):\n    while n:\n        n = n - 1\n        y = n\n    else:\n        return n\n    return y\n", [(0,), (2,)]),
    ("from typing import Union, Optional\ndef g() -> bool:\n    return False\ndef f(x: Union[int, str, None]):\n    if (isinstance(x, int) or g()) and g():\n        return x\n    else:\n        return x\n", [(1,), ("s",), (None,)]),
]

KINDS = (ast.Name, ast.Subscript, ast.Call, ast.BinOp, ast.IfExp, ast.BoolOp, ast.Compare)


class _Instrument(ast.NodeTransformer):
    def __init__(self):
        self.nodes = {}

    def generic_visit(self, node):
        node = super().generic_visit(node)
        if isinstance(node, KINDS) and isinstance(getattr(node, "ctx", ast.Load()), ast.Load) and hasattr(node, "inferred_value"):
            idx = len(self.nodes)
            self.nodes[idx] = node
            call = ast.Call(func=ast.Name(id="__rec", ctx=ast.Load()), args=[ast.Constant(idx), node], keywords=[])
            return ast.copy_location(call, node)
        return node

    def visit_Call(self, node):
        # do not wrap the callee expression itself (functions are not the interesting values)
        node.args = [self.visit(a) for a in node.args]
        node.keywords = [ast.keyword(arg=k.arg, value=self.visit(k.value)) for k in node.keywords]
        if isinstance(node.func, ast.Attribute):
            node.func.value = self.visit(node.func.value)
        if hasattr(node, "inferred_value"):
            idx = len(self.nodes)
            self.nodes[idx] = node
            call = ast.Call(func=ast.Name(id="__rec", ctx=ast.Load()), args=[ast.Constant(idx), node], keywords=[])
            return ast.copy_location(call, node)
        return node

    def visit_match_case(self, node):
        node.body = [self.visit(s) for s in node.body]
        if node.guard is not None:
            node.guard = self.visit(node.guard)
        return node


def in_gamma(o, v, ctx):
    """reference membership of a runtime object in an inferred Value: structural for unions, Annotated and
    sequence values with unpacked members (SequenceValue.can_assign itself rejects every concrete tuple for those:
    known finding D25 of C03), pyanalyze's own literal check otherwise"""
    from pyanalyze.value import AnnotatedValue, KnownValue, MultiValuedValue, SequenceValue
    if isinstance(v, MultiValuedValue):
        return any(in_gamma(o, m, ctx) for m in v.vals)
    if isinstance(v, AnnotatedValue):
        return in_gamma(o, v.value, ctx)
    if isinstance(v, SequenceValue) and isinstance(v.typ, type) and any(many for many, _ in v.members):
        if not isinstance(o, v.typ):
            return False
        xs = list(o)
        members = list(v.members)

        def match(i, j):
            if j == len(members):
                return i == len(xs)
            many, m = members[j]
            if many:
                k = i
                while True:
                    if match(k, j + 1):
                        return True
                    if k < len(xs) and in_gamma(xs[k], m, ctx):
                        k += 1
                    else:
                        return False
            return i < len(xs) and in_gamma(xs[i], m, ctx) and match(i + 1, j + 1)
        return match(0, 0)
    return v.is_assignable(KnownValue(o), ctx)


def search():
    from pyanalyze.ast_annotator import annotate_code
    from pyanalyze.checker import Checker
    from pyanalyze.value import KnownValue
    ctx = Checker()
    for src, arglists in PROGRAMS:
        with contextlib.redirect_stderr(io.StringIO()), contextlib.redirect_stdout(io.StringIO()):
            tree = annotate_code(src)
        ins = _Instrument()
        tree2 = ins.visit(tree)
        ast.fix_missing_locations(tree2)
        seen = []
        ns = {"__rec": lambda i, v: (seen.append((i, v)), v)[1]}
        exec(compile(tree2, "<instrumented>", "exec"), ns)
        for args in arglists:
            del seen[:]
            ns["f"](*args)
            from replay.util import count, sample
            count(evaluations=len(seen), distinct=1)
            if src is PROGRAMS[0][0] and args is arglists[0]:
                sample({"program": src, "arguments": repr(args), "evaluated_nodes_checked": len(seen), "rule": "runtime value of every evaluated node belongs to its inferred type"})
            for i, v in seen:
                node = ins.nodes[i]
                inferred = node.inferred_value
                if inferred is None:
                    continue
                try:
                    ok = in_gamma(v, inferred, ctx)
                except Exception as e:
                    return f"is_assignable raised {type(e).__name__} for node `{ast.unparse(_strip(node))}` value {v!r}"
                if not ok:
                    return (f"program\n{src}called as f{args!r}: the expression `{ast.unparse(_strip(node))}` (line {node.lineno}) evaluated to {v!r}, "
                            f"which does not belong to the inferred type {inferred}")
    return None


def _strip(node):
    class S(ast.NodeTransformer):
        def visit_Call(self, n):
            n = self.generic_visit(n)
            if isinstance(n.func, ast.Name) and n.func.id == "__rec":
                return n.args[1]
            return n
    import copy
    return S().visit(copy.deepcopy(node))


def r_c01(rec):
    msg = search()
    if msg:
        return True, msg
    return False, "every recorded runtime value belongs to its inferred type on the program corpus"


REPLAYERS = {"C01.bounded": r_c01, "pyanalyze.implementation._sequence_common_getitem_impl.inner": r_c01}

if __name__ == "__main__":
    print(search())

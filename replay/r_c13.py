"""C13 native replay: compute_parameters(def node) against inspect.signature(function object) for every def
header with <= 2 positional-only, <= 2 positional-or-keyword, all default suffixes, optional *args, <= 2
keyword-only (each with/without default), optional **kwargs."""
import ast
import inspect
import itertools


class _Ctx:
    def __init__(self):
        from pyanalyze.checker import Checker
        self._c = Checker()

    def visit_expression(self, node):
        from pyanalyze.value import KnownValue
        return KnownValue(1)

    def value_of_annotation(self, node, **kw):
        from pyanalyze.value import TypedValue
        return TypedValue(int)

    def show_error(self, *a, **k):
        return None

    def __getattr__(self, name):
        return getattr(self._c, name)


def headers():
    for p, q in itertools.product(range(3), range(3)):
        for d in range(p + q + 1):
            for va in (False, True):
                for k in range(3):
                    for kwd in itertools.product((False, True), repeat=k):
                        for kw in (False, True):
                            names = [f"a{i}" for i in range(p + q)]
                            parts = []
                            for i, n in enumerate(names):
                                parts.append(n + ("=1" if i >= p + q - d else ""))
                                if p and i == p - 1:
                                    parts.append("/")
                            if va:
                                parts.append("*args")
                            elif k:
                                parts.append("*")
                            for j in range(k):
                                parts.append(f"k{j}" + ("=1" if kwd[j] else ""))
                            if kw:
                                parts.append("**kwargs")
                            yield ", ".join(parts)


def search():
    from pyanalyze.functions import compute_parameters
    ctx = _Ctx()
    n = 0
    for h in headers():
        src = f"def f({h}): pass"
        tree = ast.parse(src)
        ns = {}
        exec(src, ns)
        want = [(n_, int(p_.kind), p_.default is not inspect.Parameter.empty) for n_, p_ in inspect.signature(ns["f"]).parameters.items()]
        infos = compute_parameters(tree.body[0], None, ctx)
        got = [(i.param.name, i.param.kind.value, i.param.default is not None) for i in infos]
        n += 1
        if got != want:
            return f"`{src}`: def-node route gives (name, kind, has_default) = {got}, inspect.signature gives {want}"
    return None


def r_c13(rec):
    msg = search()
    if msg:
        return True, msg
    return False, "compute_parameters agrees with inspect.signature on every generated def header"


REPLAYERS = {"pyanalyze.functions.compute_parameters": r_c13}

if __name__ == "__main__":
    print(search())

"""C13 native replay: compute_parameters(def node) against inspect.signature(function object) for every def
header with <= 2 positional-only, <= 2 positional-or-keyword, all default suffixes, optional *args, <= 2
keyword-only (each with/without default), optional **kwargs."""
import ast
import inspect
import itertools


class _Ctx:
    def __init__(self):
        from pyanalyze.checker import Checker
        self._c = Checker()

    def visit_expression(self, node):
        from pyanalyze.value import KnownValue
        return KnownValue(1)

    def value_of_annotation(self, node, **kw):
        from pyanalyze.value import TypedValue
        return TypedValue(int)

    def show_error(self, *a, **k):
        return None

    def __getattr__(self, name):
        return getattr(self._c, name)


def headers():
    for p, q in itertools.product(range(3), range(3)):
        for d in range(p + q + 1):
            for va in (False, True):
                for k in range(3):
                    for kwd in itertools.product((False, True), repeat=k):
                        for kw in (False, True):
                            names = [f"a{i}" for i in range(p + q)]
                            parts = []
                            for i, n in enumerate(names):
                                parts.append(n + ("=1" if i >= p + q - d else ""))
                                if p and i == p - 1:
                                    parts.append("/")
                            if va:
                                parts.append("*args")
                            elif k:
                                parts.append("*")
                            for j in range(k):
                                parts.append(f"k{j}" + ("=1" if kwd[j] else ""))
                            if kw:
                                parts.append("**kwargs")
                            yield ", ".join(parts)


def search():
    from pyanalyze.functions import compute_parameters
    ctx = _Ctx()
    n = 0
    for h in headers():
        src = f"def f({h}): pass"
        tree = ast.parse(src)
        ns = {}
        exec(src, ns)
        want = [(n_, int(p_.kind), p_.default is not inspect.Parameter.empty) for n_, p_ in inspect.signature(ns["f"]).parameters.items()]
        infos = compute_parameters(tree.body[0], None, ctx)
        got = [(i.param.name, i.param.kind.value, i.param.default is not None) for i in infos]
        n += 1
        if got != want:
            return f"`{src}`: def-node route gives (name, kind, has_default) = {got}, inspect.signature gives {want}"
    return None


def r_c13(rec):
    msg = search()
    if msg:
        return True, msg
    return False, "compute_parameters agrees with inspect.signature on every generated def header"


REPLAYERS = {"pyanalyze.functions.compute_parameters": r_c13}

if __name__ == "__main__":
    print(search())


def _install_module(name, code):
    import sys
    import types
    m = types.ModuleType(name)
    m.__file__ = f"/tmp/{name}.py"
    exec(compile(code, m.__file__, "exec"), m.__dict__)
    sys.modules[name] = m
    return m


def search_two_routes():
    """the same call judged through the def-statement route (nested def in the checked module) and the
    runtime-object route (function imported from another module)"""
    import sys
    from replay.checkcode import check_code
    headers = ["x: int", "x: int = 1", "x: int, /, y: str", "*args: int", "**kw: str", "x: int, *, k: int = 0", "x: int, *args: str, k: int, **kw: int",
               "x: 'int'", "x: 'int' = 1"]
    calls = ["1", "'a'", "", "1, 2", "x=1", "k='a'", "1, 'a'", "1, k=2", "1, 'b', k=3, z=4", "*[1, 2]", "**{'x': 1}"]
    for prefix in ("", "async "):
        for hi, h in enumerate(headers):
            name = f"verif_c13_lib_{'a' if prefix else 's'}{hi}"
            _install_module(name, f"{prefix}def top({h}) -> int:\n    return 0\n")
            try:
                lines = [f"from {name} import top", "def use_top() -> None:"]
                for c in calls:
                    lines.append(f"    top({c})")
                lines += ["def outer() -> None:", f"    {prefix}def nested({h}) -> int:", "        return 0"]
                for c in calls:
                    lines.append(f"    nested({c})")
                res = check_code("\n".join(lines) + "\n")
            finally:
                sys.modules.pop(name, None)
            by_line = {}
            for f in res:
                if f.get("code") is not None and f["code"].name in ("incompatible_call", "incompatible_argument"):
                    by_line.setdefault(f["lineno"], set()).add(f["code"].name)
            for ci, c in enumerate(calls):
                l_top = 3 + ci
                l_nested = 3 + len(calls) + 3 + ci
                if by_line.get(l_top, set()) != by_line.get(l_nested, set()):
                    return f"`{prefix}def f({h})` called as f({c}): runtime-object route reports {sorted(by_line.get(l_top, set()))}, def-statement route reports {sorted(by_line.get(l_nested, set()))}"
    # return type of an un-annotated async def, and Unpack[...] annotations written as strings
    name = "verif_c13_lib_async"
    _install_module(name, "async def top(k):\n    return k\n")
    try:
        code = (f"from {name} import top\n"
                "def use_top() -> int:\n    return top('k')\n"
                "def outer() -> int:\n    async def nested(k):\n        return k\n    return nested('k')\n")
        res = check_code(code)
    finally:
        sys.modules.pop(name, None)
    lines = sorted(f["lineno"] for f in res if f.get("code") is not None and f["code"].name == "incompatible_return_value")
    if lines not in ([3, 7], []):
        return f"un-annotated async def: incompatible_return_value reported on lines {lines}; the two routes (line 3 runtime object, line 7 def statement) disagree"
    name = "verif_c13_lib_unpack"
    lib = ("from typing_extensions import Unpack, TypedDict\nfrom typing import Tuple\n"
           "class Opts(TypedDict):\n    a: int\n"
           "def top(*args: 'Unpack[Tuple[int, str]]', **kw: 'Unpack[Opts]') -> int:\n    return 0\n")
    _install_module(name, lib)
    calls = ["1, 'a', a=1", "'x', 2, a=1", "1, 'a', a='no'"]
    try:
        lines = [f"from {name} import top, Opts", "from typing_extensions import Unpack", "from typing import Tuple", "def outer() -> None:",
                 "    def quoted(*args: 'Unpack[Tuple[int, str]]', **kw: 'Unpack[Opts]') -> int:", "        return 0",
                 "    def plain(*args: Unpack[Tuple[int, str]], **kw: Unpack[Opts]) -> int:", "        return 0"]
        first = len(lines) + 1
        for fn in ("top", "quoted", "plain"):
            for c in calls:
                lines.append(f"    {fn}({c})")
        res = check_code("\n".join(lines) + "\n")
    finally:
        sys.modules.pop(name, None)
    if any(f.get("code") is not None and f["code"].name == "invalid_annotation" for f in res):
        return "Unpack[...] written as a string annotation on *args/**kwargs is reported as invalid_annotation, the same annotation written plainly is accepted"
    flagged = {f["lineno"] for f in res if f.get("code") is not None and f["code"].name in ("incompatible_call", "incompatible_argument")}
    verdicts = {fn: [first + k * len(calls) + i in flagged for i in range(len(calls))] for k, fn in enumerate(("top", "quoted", "plain"))}
    if not (verdicts["top"] == verdicts["quoted"] == verdicts["plain"]):
        return f"Unpack[...] annotations on *args/**kwargs: calls {calls} are flagged {verdicts} (imported function with string annotations / nested def with string annotations / nested def with plain annotations)"
    # a module-level class shadowing a builtin name, used in quoted annotations: both routes must resolve it to the module's class
    name = "verif_c13_lib_shadow"
    lib = ("class ConnectionError:\n    def __init__(self, code: int) -> None:\n        self.code = code\n"
           "def top(e: 'ConnectionError', n: 'int' = 0) -> 'ConnectionError':\n    return e\n")
    _install_module(name, lib)
    try:
        code = (f"from {name} import top, ConnectionError\nimport builtins\n"
                "def use() -> None:\n    top(ConnectionError(1))\n    top(builtins.ConnectionError())\n    reveal_type(top(ConnectionError(1)))\n"
                "def outer() -> None:\n    def nested(e: 'ConnectionError', n: 'int' = 0) -> 'ConnectionError':\n        return e\n"
                "    nested(ConnectionError(1))\n    nested(builtins.ConnectionError())\n    reveal_type(nested(ConnectionError(1)))\n")
        res = check_code(code)
    finally:
        sys.modules.pop(name, None)
    flagged = {f["lineno"] for f in res if f.get("code") is not None and f["code"].name in ("incompatible_call", "incompatible_argument")}
    rev = {f["lineno"]: f["description"] for f in res if f.get("code") is not None and f["code"].name == "reveal_type"}
    if (4 in flagged, 5 in flagged) != (10 in flagged, 11 in flagged) or (4 in flagged) or (5 not in flagged):
        return (f"quoted annotation 'ConnectionError' where the module defines its own class of that name: runtime-object route flags lines {sorted(flagged & {4, 5})}, "
                f"def-statement route flags {sorted(flagged & {10, 11})} (expected: only the builtins.ConnectionError() argument, on both routes)")
    if ("builtins" in rev.get(6, "")) != ("builtins" in rev.get(12, "")):
        return f"return annotation 'ConnectionError': runtime-object route reveals {rev.get(6)!r}, def-statement route {rev.get(12)!r}"
    # an async def containing a nested *sync* generator helper is a coroutine function on both routes, not an async generator
    name = "verif_c13_lib_agen"
    body = "    def helper():\n        yield 1\n    return sum(helper()) + n\n"
    _install_module(name, "async def top(n: int) -> int:\n" + body)
    try:
        code = (f"from {name} import top\n"
                "async def use_top() -> int:\n    return await top(1)\n"
                "async def outer() -> int:\n    async def nested(n: int) -> int:\n" + body.replace("    ", "        ") + "    return await nested(1)\n"
                "def kinds() -> None:\n    reveal_type(top(1))\n")
        res = check_code(code)
    finally:
        sys.modules.pop(name, None)
    bad = sorted((f["lineno"], f["code"].name) for f in res if f.get("code") is not None and f["code"].name in ("unsupported_operation", "incompatible_return_value", "incompatible_call"))
    if bad:
        return f"async def with a nested sync generator helper: awaiting it is diagnosed {bad} (line 3: runtime-object route, line 9: def-statement route); it is a coroutine function on both"
    # collections.abc.Callable in quoted and plain annotations, on both routes; methods of nested classes (unannotated self)
    name = "verif_c13_lib_cb"
    lib = ("from collections.abc import Callable\nimport typing\n"
           "def q(cb: 'Callable[[int], str]') -> None: ...\ndef p(cb: Callable[[int], str]) -> None: ...\ndef tq(cb: 'typing.Callable[[int], str]') -> None: ...\n"
           "def good(x: int) -> str:\n    return ''\ndef bad(x: str, y: int) -> str:\n    return ''\n"
           "class Outer:\n    class Inner:\n        def meth(self, x: int) -> int:\n            return x\n    def meth(self, x: int) -> int:\n        return x\n")
    _install_module(name, lib)
    try:
        code = (f"from {name} import q, p, tq, good, bad, Outer\nfrom collections.abc import Callable\n"
                "def use() -> None:\n    q(good)\n    q(bad)\n    p(good)\n    p(bad)\n    tq(good)\n    tq(bad)\n"
                "def outer() -> None:\n    def nq(cb: 'Callable[[int], str]') -> None: ...\n    def np(cb: Callable[[int], str]) -> None: ...\n"
                "    nq(good)\n    nq(bad)\n    np(good)\n    np(bad)\n"
                "def methods() -> None:\n    Outer.Inner.meth(Outer.Inner(), 1)\n    Outer.Inner.meth('not an Inner', 1)\n    Outer.meth(Outer(), 1)\n    Outer.meth('not an Outer', 1)\n")
        res = check_code(code)
    finally:
        sys.modules.pop(name, None)
    flagged = {f["lineno"] for f in res if f.get("code") is not None and f["code"].name in ("incompatible_call", "incompatible_argument")}
    other = sorted((f["lineno"], f["code"].name) for f in res if f.get("code") is not None and f["code"].name in ("invalid_annotation", "undefined_name"))
    want = {5, 7, 9, 14, 16, 19, 21}
    if flagged != want or other:
        return (f"collections.abc.Callable[[int], str] quoted / plain / typing.Callable on the runtime-object route (lines 4-9) and the def-statement route (13-16), and methods of a nested class (18-21): "
                f"flagged lines {sorted(flagged)}, expected {sorted(want)} (the call with the wrong callback / the wrong self, each time); other diagnostics {other}")
    return None


def r_c13_bounded(rec):
    for fn in (search, search_two_routes):
        msg = fn()
        if msg:
            return True, msg
    return False, "def-statement and runtime-object routes agree on the generated headers and calls"


REPLAYERS["C13.bounded"] = r_c13_bounded

"""helpers to turn concretised model values (pyvc/model.py) into real Python objects"""
import re


def s(v, default="x"):
    """$str element -> a distinct real string"""
    if isinstance(v, dict) and "$str" in v:
        return "s" + re.sub(r"[^0-9A-Za-z]", "", v["$str"])
    if isinstance(v, dict) and "$const" in v and v["$const"].startswith("str:"):
        return v["$const"][4:]
    if isinstance(v, str):
        return v
    return default


def strs(seq):
    return tuple(s(x) for x in (seq or []))

"""helpers to turn concretised model values (pyvc/model.py) into real Python objects"""
import re


def s(v, default="x"):
    """$str element -> a distinct real string"""
    if isinstance(v, dict) and "$str" in v:
        return "s" + re.sub(r"[^0-9A-Za-z]", "", v["$str"])
    if isinstance(v, dict) and "$const" in v and v["$const"].startswith("str:"):
        return v["$const"][4:]
    if isinstance(v, str):
        return v
    return default


def strs(seq):
    return tuple(s(x) for x in (seq or []))


# ---- exploration statistics of the bounded native checks (reported in the evidence file) -----------------------
STATS = {"evaluations": 0, "distinct": 0, "samples": []}


def count(evaluations=0, distinct=0):
    """evaluations: comparisons of the real code's answer with the reference; distinct: distinct non-trivial inputs"""
    STATS["evaluations"] += evaluations
    STATS["distinct"] += distinct


def sample(obj):
    if len(STATS["samples"]) < 4:
        STATS["samples"].append(obj)

"""C09 native replay.
(a) the scope primitives (get_combined_scope, set / get_local, subscope) against their contracts on enumerated inputs;
(b) bounded stand-in for the property's own statement: statement skeletons checked by the real visitor, compared with an
    independent reaching-definitions analysis (strict  <=  reported  <=  liberal)."""
import itertools
import random
import re

U = "U"   # the unbound state


# ----------------------------------------------------------------------------------------------- (a) primitives
def prim_search():
    from replay.util import count
    count(evaluations=0, distinct=0)
    from pyanalyze.stacked_scopes import FunctionScope, Scope, ScopeType, LEAVES_LOOP, LEAVES_SCOPE, _UNINITIALIZED, VisitorState
    from pyanalyze.value import KnownValue
    n1, n2 = object(), object()
    vals = [[n1], [n2], [n1, n2], [_UNINITIALIZED, n1]]
    dicts = [{}]
    for x in [None] + vals:
        for y in [None, [n2]]:
            for mark in (None, LEAVES_SCOPE, LEAVES_LOOP):
                d = {}
                if x is not None:
                    d["x"] = x
                if y is not None:
                    d["y"] = y
                if mark is not None:
                    d[mark] = []
                dicts.append(d)

    def mk():
        return FunctionScope(Scope(ScopeType.module_scope, {}, None))
    for n in (1, 2, 3):
        pool = dicts if n < 3 else dicts[::3]
        for scopes in itertools.product(pool, repeat=n):
            for ign in (False, True):
                fs = mk()
                before = list(fs.current_loop_scopes)
                res = fs.get_combined_scope([dict(s) for s in scopes], ignore_leaves_scope=ign)
                count(evaluations=1, distinct=1)
                kept = [s for s in scopes if LEAVES_LOOP not in s and (LEAVES_SCOPE not in s or ign)]
                handed = fs.current_loop_scopes[len(before):]
                if [h for h in handed] != [s for s in scopes if LEAVES_LOOP in s]:
                    return f"get_combined_scope({scopes}, ignore_leaves_scope={ign}): loop-leaving branches handed to the loop: {handed}"
                if not kept:
                    if res != {LEAVES_SCOPE: []}:
                        return f"get_combined_scope({scopes}, ignore_leaves_scope={ign}) = {res}, expected the leaves-scope marker"
                    continue
                names = set().union(*[set(s) for s in kept])
                if set(res) != names:
                    return f"get_combined_scope({scopes}, ignore_leaves_scope={ign}): names {set(res)} != {names}"
                for v in names:
                    want = set()
                    for s in kept:
                        want |= {id(x) for x in s.get(v, [_UNINITIALIZED])}
                    if {id(x) for x in res[v]} != want or len(res[v]) != len(want):
                        return f"get_combined_scope({scopes}, ignore_leaves_scope={ign}): definitions of {v!r} are {res[v]}"
    # kill / use recording / isolation
    fs = mk()
    a, b, use1, use2 = object(), object(), object(), object()
    fs.set("x", KnownValue(1), a, VisitorState.collect_names)
    with fs.subscope() as inner:
        fs.set("x", KnownValue(2), b, VisitorState.collect_names)
        if fs.name_to_current_definition_nodes["x"] != [b]:
            return "FunctionScope.set does not kill the previous definition inside a subscope"
        fs.get_local("x", use1, VisitorState.collect_names)
    if fs.name_to_current_definition_nodes["x"] != [a]:
        return "a write inside subscope() reached the parent map without combine_subscopes"
    fs.get_local("x", use2, VisitorState.collect_names)
    if fs.usage_to_definition_nodes[(use1, "x")] != [b] or fs.usage_to_definition_nodes[(use2, "x")] != [a]:
        return f"get_local records {dict(fs.usage_to_definition_nodes)}"
    return None


# ----------------------------------------------------------------------------------------------- (b) skeletons
def render(stmts, ind, out, uses):
    pad = "    " * ind
    if not stmts:
        out.append(pad + "pass")
    for s in stmts:
        k = s[0]
        if k == "asg":
            out.append(f"{pad}x = {s[1]}")
        elif k == "use":
            out.append(f"{pad}reveal_type(x)")
            uses[s[1]] = len(out)
        elif k == "if":
            out.append(f"{pad}if cond():")
            render(s[1], ind + 1, out, uses)
            if s[2] is not None:
                out.append(f"{pad}else:")
                render(s[2], ind + 1, out, uses)
        elif k in ("while", "whiletrue", "for"):
            out.append(pad + {"while": "while cond():", "whiletrue": "while True:", "for": "for _ in it():"}[k])
            render(s[1], ind + 1, out, uses)
            if k != "whiletrue" and s[2] is not None:
                out.append(f"{pad}else:")
                render(s[2], ind + 1, out, uses)
        elif k in ("break", "continue", "return", "pass"):
            out.append(pad + k)
        elif k == "raise":
            out.append(pad + "raise Exception")
        elif k == "try":
            out.append(f"{pad}try:")
            render(s[1], ind + 1, out, uses)
            for hk, hb in s[2]:
                out.append(pad + ("except:" if hk == "bare" else "except Exception:"))
                render(hb, ind + 1, out, uses)
            if s[3] is not None:
                out.append(f"{pad}else:")
                render(s[3], ind + 1, out, uses)
            if s[4] is not None:
                out.append(f"{pad}finally:")
                render(s[4], ind + 1, out, uses)
        elif k == "with":
            out.append(f"{pad}with {st_items(s)}:")
            render(s[1], ind + 1, out, uses)
        else:
            raise ValueError(k)


def st_items(st):
    """the context managers of a with skeleton: cm() suppresses exceptions (its __exit__ returns True), plain() does not"""
    return st[2] if len(st) > 2 else "cm()"


def j(a, b):
    if a is None:
        return b
    if b is None:
        return a
    return a | b


class Out:
    __slots__ = ("n", "b", "c", "r", "e")

    def __init__(self, n=None, b=None, c=None, r=None, e=None):
        self.n, self.b, self.c, self.r, self.e = n, b, c, r, e


def _L(lib):
    return lib is True or lib == "kf"


def block(stmts, s, lib, res):
    o = Out(n=s)
    dead = False
    for st in stmts:
        if o.n is None:
            # dead code: still walk it so that its uses are recorded as unreachable
            stmt(st, None, lib, res)
            continue
        prev = o.n
        r = stmt(st, o.n, lib, res)
        o.n = r.n
        if lib == "kf" and r.n is None:
            # D39: the rest of the block is dead, but the visitor still analyses it from the definitions it had before
            # the jump; its jumps (break / continue) hand their scopes to the loop.  The block itself does not fall through.
            o.n = j(prev, defs_in(st))
            dead = True
        o.b, o.c, o.r, o.e = j(o.b, r.b), j(o.c, r.c), j(o.r, r.r), j(o.e, r.e)
    if dead:
        o.n = None
    return o


def defs_in(x):
    """all assigned literals syntactically inside a statement list / statement (flow-insensitive)"""
    out = set()
    if isinstance(x, tuple) and x and x[0] == "asg":
        out.add(x[1])
    elif isinstance(x, (list, tuple)):
        for y in x:
            out |= defs_in(y)
    return frozenset(out)


def loop(body, orelse, s, lib, res, has_test):
    """has_test: the loop can leave through its test (while cond / for); `while True` in strict mode cannot.
    lib == "kf": additionally the edges of the known findings (second visit of the body from the state after the loop;
    break and continue not distinguished around an else clause)"""
    kf = lib == "kf"
    if s is None:
        block(body, None, lib, res)
        if orelse is not None:
            block(orelse, None, lib, res)
        return Out()
    head = s
    while True:
        r = block(body, head, lib, {})
        new = j(head, j(r.n, r.c))
        if kf:
            exit_ = j(new, r.b)
            after = exit_
            if orelse is not None:
                e = block(orelse, exit_, lib, {})
                after = j(j(e.n, r.b), exit_)
            new = j(new, after)
        if new == head:
            break
        head = new
    r = block(body, head, lib, res)
    o = Out(r=r.r, e=j(r.e, head if has_test else None))
    exit_ = head if has_test else None
    if kf:
        exit_ = j(exit_, r.b)
    if orelse is not None and exit_ is not None:
        e = block(orelse, exit_, lib, res)
        o.n = j(e.n, r.b)
        if kf:
            o.n = j(o.n, exit_)
        o.b, o.c, o.r, o.e = e.b, e.c, j(o.r, e.r), j(o.e, e.e)   # break/continue in a loop-else belong to the outer loop
    else:
        if orelse is not None:
            block(orelse, None, lib, res)
        o.n = j(exit_, r.b)
    return o


def stmt(st, s, lib, res):
    k = st[0]
    if s is None:
        # unreachable: record uses as unreachable, walk children
        if k == "use":
            res.setdefault(st[1], None)
        for ch in st[1:]:
            if isinstance(ch, list):
                for x in ch:
                    if isinstance(x, tuple) and x and isinstance(x[0], str) and x[0] in ("bare", "exc") and len(x) == 2 and isinstance(x[1], list):
                        block(x[1], None, lib, res)
                    elif isinstance(x, tuple):
                        stmt(x, None, lib, res)
        return Out()
    if k == "asg":
        after = frozenset([st[1]])
        return Out(n=after, e=(s | after) if _L(lib) else None)
    if k == "use":
        res[st[1]] = j(res.get(st[1]), s)
        return Out(n=s, e=s)
    if k == "pass":
        return Out(n=s, e=s if _L(lib) else None)
    if k == "if":
        a = block(st[1], s, lib, res)
        b = block(st[2], s, lib, res) if st[2] is not None else Out(n=s)
        return Out(j(a.n, b.n), j(a.b, b.b), j(a.c, b.c), j(a.r, b.r), j(s, j(a.e, b.e)))
    if k in ("while", "for"):
        return loop(st[1], st[2], s, lib, res, True)
    if k == "whiletrue":
        return loop(st[1], None, s, lib, res, _L(lib))
    if k == "break":
        return Out(b=s)
    if k == "continue":
        return Out(c=s)
    if k == "return":
        return Out(r=s)
    if k == "raise":
        return Out(e=s)
    if k == "with":
        a = block(st[1], s, lib, res)
        n = a.n
        if "cm()" not in st_items(st):
            return Out(n, a.b, a.c, a.r, a.e)   # no item suppresses: the body is a plain block
        if not _L(lib):
            n = j(n, a.e)    # CM.__exit__ returns True unconditionally: an explicit raise in the body certainly continues after the statement
        if _L(lib):
            n = j(n, j(a.e, s))    # the context manager may suppress an exception raised anywhere in the body
        if lib == "kf":
            n = j(n, defs_in(st[1]))   # suppressing_subscope: every definition created inside is live afterwards
        return Out(n, a.b, a.c, a.r, j(s, a.e))
    if k == "try":
        body = block(st[1], s, lib, res)
        e_in = body.e
        if _L(lib):
            e_in = j(e_in, s)
        if lib == "kf":
            e_in = j(e_in, defs_in(st[1]))   # suppressing_subscope (flow-insensitive inside the try body)
        o = Out(b=body.b, c=body.c, r=body.r)
        caught_all = False
        hn = None
        for hk, hb in st[2]:
            h = block(hb, e_in, lib, res)
            hn = j(hn, h.n)
            o.b, o.c, o.r, o.e = j(o.b, h.b), j(o.c, h.c), j(o.r, h.r), j(o.e, h.e)
            if hk == "bare":
                caught_all = True
        if not caught_all:
            o.e = j(o.e, e_in)
        if st[3] is not None:
            el = block(st[3], body.n, lib, res)
            o.n = j(el.n, hn)
            o.b, o.c, o.r, o.e = j(o.b, el.b), j(o.c, el.c), j(o.r, el.r), j(o.e, el.e)
        else:
            o.n = j(body.n, hn)
        if st[4] is not None:
            # finally runs on every way out (the grammar keeps finally bodies free of jumps)
            def fin(x):
                return block(st[4], x, lib, res).n if x is not None else None
            allin = None
            for x in (o.n, o.b, o.c, o.r, o.e):
                allin = j(allin, x)
            if lib == "kf":
                # visit_Try wraps try/except/else in a suppressing subscope: all definitions inside reach the *uses in the finally
                # body* (its visit for the failure path); the state after the statement is the success path's (precise)
                extra = defs_in([st[1], [hb for _, hb in st[2]], st[3] or []])
                block(st[4], j(j(allin, s), extra), lib, res)
                o.e = j(j(o.e, s), extra)
            block(st[4], allin, lib, res) if allin is None else None
            pre_b, pre_c = o.b, o.c
            o = Out(fin(o.n), fin(o.b), fin(o.c), fin(o.r), fin(o.e))
            if lib == "kf":
                # a break / continue scope is handed to the loop directly: it bypasses the finally body; a jump sitting in a dead
                # part of the statement (D39) hands over whatever definitions the visitor had there
                o.b, o.c = j(o.b, pre_b), j(o.c, pre_c)
                inner = repr([st[1], [hb for _, hb in st[2]], st[3] or []])
                if "('break',)" in inner:
                    o.b = j(o.b, j(s, extra))
                if "('continue',)" in inner:
                    o.c = j(o.c, j(s, extra))
            elif lib == "strict-kf":
                o.b, o.c = pre_b, pre_c
        return o
    raise ValueError(k)


def analyse(body, lib):
    res = {}
    block(body, frozenset([U]), lib, res)
    return res


# ---- generator -------------------------------------------------------------------------------------------
class Gen:
    def __init__(self, rnd):
        self.rnd = rnd
        self.lit = 0
        self.use = 0

    def asg(self):
        self.lit += 1
        return ("asg", self.lit)

    def mkuse(self):
        self.use += 1
        return ("use", self.use)

    def simple(self, in_loop):
        r = self.rnd.random()
        if r < 0.45:
            return self.asg()
        if r < 0.8:
            return self.mkuse()
        if r < 0.86 and in_loop:
            return ("break",)
        if r < 0.91 and in_loop:
            return ("continue",)
        if r < 0.95:
            return ("return",)
        if r < 0.98:
            return ("raise",)
        return ("pass",)

    def stmts(self, depth, in_loop, n=None, jumps=True):
        n = n if n is not None else self.rnd.choice([1, 1, 2, 2, 3])
        out = []
        for i in range(n):
            # a jump is generated only as the last statement of a block (no syntactically dead statements)
            out.append(self.stmt(depth, in_loop, jumps and i == n - 1))
        return out

    def stmt(self, depth, in_loop, jumps=True):
        if depth <= 0 or self.rnd.random() < 0.45:
            s = self.simple(in_loop)
            if not jumps and s[0] in ("break", "continue", "return", "raise"):
                return self.asg()
            return s
        k = self.rnd.choice(["if", "if", "while", "whiletrue", "for", "try", "try", "with"])
        if k == "if":
            return ("if", self.stmts(depth - 1, in_loop, jumps=jumps), self.stmts(depth - 1, in_loop, jumps=jumps) if self.rnd.random() < 0.6 else None)
        if k in ("while", "for"):
            return (k, self.stmts(depth - 1, True, jumps=jumps), self.stmts(depth - 1, in_loop, jumps=jumps) if self.rnd.random() < 0.3 else None)
        if k == "whiletrue":
            return ("whiletrue", self.stmts(depth - 1, True, jumps=jumps), None)
        if k == "with":
            return ("with", self.stmts(depth - 1, in_loop, jumps=jumps), self.rnd.choice(["cm()", "cm()", "plain(), cm()", "cm(), plain()", "plain()"]))
        handlers = []
        fin = None
        r = self.rnd.random()
        if r < 0.75:
            handlers.append((self.rnd.choice(["exc", "exc", "bare"]), self.stmts(depth - 1, in_loop, jumps=jumps)))
        if r >= 0.6:
            fin = self.stmts(0, False, n=self.rnd.choice([1, 2]), jumps=False)
        orelse = self.stmts(depth - 1, in_loop, jumps=jumps) if handlers and self.rnd.random() < 0.3 else None
        return ("try", self.stmts(depth - 1, in_loop, jumps=jumps), handlers, orelse, fin)


PRELUDE = ["def cond() -> bool:", "    return True", "def it() -> list[int]:", "    return []",
           "class CM:", "    def __enter__(self) -> None: pass", "    def __exit__(self, *a: object) -> bool: return True",
           "def cm() -> CM:", "    return CM()",
           "class PL:", "    def __enter__(self) -> None: pass", "    def __exit__(self, *a: object) -> None: pass",
           "def plain() -> PL:", "    return PL()"]


def has_asg(body):
    return "('asg'" in repr(body)


def programs(seed, count, depth):
    rnd = random.Random(seed)
    out = []
    while len(out) < count:
        g = Gen(rnd)
        body = g.stmts(depth, False, n=rnd.choice([2, 3, 4]))
        if g.use == 0 or not has_asg(body):
            continue
        out.append(body)
    return out


def structured():
    """a systematic family next to the random one: an assignment guarded by `if` and followed by a jump, inside every block
    context, with uses inside the handlers / finally body and after the statement, with and without an earlier definition"""
    out = []
    uid = [0]

    def use():
        uid[0] += 1
        return ("use", uid[0])
    for pre in (False, True):
        for jump in ("return", "raise", "break", "continue", None):
            for ctx in ("try_finally", "try_except", "try_except_finally", "try_bare", "with", "with_plain_first", "with_plain_last", "with_plain_only", "if_else", "while", "for_else", "while_true"):
                uid[0] = 0
                inner = [("if", [("asg", 1)] + ([(jump,)] if jump else []), None), use()]
                in_loop = ctx in ("while", "for_else", "while_true")
                if jump in ("break", "continue") and not in_loop:
                    # the jump needs an enclosing loop: put the whole statement into one
                    wrap_loop = True
                else:
                    wrap_loop = False
                if ctx == "try_finally":
                    st = ("try", inner, [], None, [use()])
                elif ctx == "try_except":
                    st = ("try", inner, [("exc", [use(), ("asg", 2)])], None, None)
                elif ctx == "try_except_finally":
                    st = ("try", inner, [("exc", [use()])], [("asg", 3)], [use()])
                elif ctx == "try_bare":
                    st = ("try", inner, [("bare", [use()])], None, None)
                elif ctx == "with":
                    st = ("with", inner)
                elif ctx.startswith("with_"):
                    st = ("with", inner, {"with_plain_first": "plain(), cm()", "with_plain_last": "cm(), plain()", "with_plain_only": "plain()"}[ctx])
                elif ctx == "if_else":
                    st = ("if", inner, [("asg", 4)])
                elif ctx == "while":
                    st = ("while", inner, None)
                elif ctx == "for_else":
                    st = ("for", inner, [use(), ("asg", 5)])
                else:
                    if jump != "break":
                        continue
                    st = ("whiletrue", inner, None)
                body = ([("asg", 9)] if pre else []) + ([("while", [st, use()], None)] if wrap_loop else [st]) + [use()]
                out.append(body)
    return out


def reported(progs):
    """-> per program: {use id: set of literals / U} from the real visitor"""
    from replay.checkcode import check_code
    lines = list(PRELUDE)
    where = []
    for i, body in enumerate(progs):
        lines.append(f"def f{i}() -> None:")
        uses = {}
        render(body, 1, lines, uses)
        where.append(uses)
    src = "\n".join(lines) + "\n"
    res = check_code(src)
    by_line = {}
    for fl in res:
        by_line.setdefault(fl["lineno"], []).append(fl)
    out = []
    for uses in where:
        d = {}
        for uid, ln in uses.items():
            got = None
            for fl in by_line.get(ln, []):
                name = fl["code"].name
                if name == "reveal_type":
                    m = re.search(r"Revealed type is '(.*)'", fl["description"], re.S)
                    txt = m.group(1) if m else fl["description"]
                    got = got or set()
                    for part in txt.split(" | "):
                        lits = re.fullmatch(r"Literal\[(.*)\]", part)
                        if lits:
                            got |= {int(t) for t in lits.group(1).split(",")}
                        elif part not in ("Never", "Any[error]", "NoReturn"):   # Any[error] stands for the unbound state (reported separately)
                            got.add("?" + part)
                elif name in ("undefined_name", "possibly_undefined_name"):
                    got = (got or set()) | {U}
            d[uid] = got
        out.append(d)
    return out, src


def sandwich(seed, count, depth, batch=150, collect=None):
    progs = programs(seed, count, depth) if seed != "structured" else structured()
    for off in range(0, len(progs), batch):
        chunk = progs[off:off + batch]
        rep, src = reported(chunk)
        for body, got in zip(chunk, rep):
            from replay.util import count, sample
            count(evaluations=len(got), distinct=1)
            strict = analyse(body, False)
            liberal = analyse(body, True)
            liberal_kf = analyse(body, "kf")
            strict_kf = analyse(body, "strict-kf")
            if off == 0 and body is chunk[0]:
                _l, _u = ["def f() -> None:"], {}
                render(body, 1, _l, _u)
                sample({"program": "\n".join(_l), "strict": {k: sorted(map(str, v)) if v is not None else None for k, v in strict.items()},
                        "reported": {k: sorted(map(str, v)) if v is not None else None for k, v in got.items()},
                        "liberal": {k: sorted(map(str, v)) if v is not None else None for k, v in liberal.items()}})
            for uid in sorted(liberal):
                lo, hi, r = strict.get(uid), liberal.get(uid), got.get(uid)
                if hi is None:
                    continue    # unreachable even liberally: no claim
                if r is None:
                    if lo:
                        m = _fmt(body, uid, lo, hi, r, "the use is reachable but the visitor produced no value for it")
                        if m:
                            return m
                    continue
                if any(isinstance(x, str) and x.startswith("?") for x in r):
                    m = _fmt(body, uid, lo, hi, r, "the inferred value is not a union of the assigned literals")
                    if m:
                        return m
                    continue
                if lo is not None and not lo <= r and strict_kf.get(uid) is not None and strict_kf[uid] <= r:
                    KNOWN["lower-D38"] = KNOWN.get("lower-D38", 0) + 1
                    lo = strict_kf[uid]
                if lo is not None and not lo <= r:
                    m = _fmt(body, uid, lo, hi, r, "a definition that reaches the use on a feasible path is missing")
                    if m:
                        return m
                    continue
                if not r <= hi and lo is not None and r <= (liberal_kf.get(uid) or frozenset()):
                    KNOWN["upper"] = KNOWN.get("upper", 0) + 1
                    continue
                if not r <= hi and lo is None:
                    KNOWN["dead"] = KNOWN.get("dead", 0) + 1
                    continue
                if not r <= hi:
                    m = _fmt(body, uid, lo, liberal_kf.get(uid), r, "a definition is reported that reaches the use on no path")
                    if m:
                        return m
                    continue
    return None


_COLLECT = None
KNOWN = {}


def _fmt(body, uid, lo, hi, r, why):
    if _COLLECT is not None:
        lines, uses = ["def f() -> None:"], {}
        render(body, 1, lines, uses)
        _COLLECT.append((why, lo, hi, r, uid, uses[uid], "\n".join(lines)))
        return None
    lines, uses = ["def f() -> None:"], {}
    render(body, 1, lines, uses)
    srt = lambda s: sorted(s, key=str) if s is not None else None
    return f"{why}: use #{uid} (line {uses[uid]}) strict={srt(lo)} reported={srt(r)} liberal={srt(hi)} in\n" + "\n".join(lines)


def r_prims(rec):
    msg = prim_search()
    return (True, msg) if msg else (False, "scope primitives satisfy their contracts on the enumerated inputs")


def r_sandwich(rec):
    thorough = bool(rec and rec.get("tier") == "thorough")
    for seed, count, depth in ([("structured", 0, 0), (1, 600, 2), (2, 600, 3)] if not thorough else [("structured", 0, 0), (1, 3000, 2), (2, 3000, 3), (3, 1500, 4)]):
        msg = sandwich(seed, count, depth)
        if msg:
            return True, msg
    return False, "strict <= reported <= liberal on every generated skeleton"


REPLAYERS = {"C09.bounded": r_sandwich, "C09.prims": r_prims,
             "pyanalyze.stacked_scopes.FunctionScope.get_combined_scope": r_prims, "pyanalyze.stacked_scopes.uniq_chain": r_prims}



# ---- witnesses of the known findings (upper bound only: imprecision by design) ---------------------------
WITNESS = {
    "D36": [("try", [("try", [("asg", 3)], [], None, [("asg", 2)])], [], None, [("use", 1)])],
    "D37": [("while", [("use", 1)], [("asg", 1)])],
    "D38": [("asg", 1), ("while", [("use", 1), ("asg", 5), ("try", [("continue",)], [], None, [("asg", 6)])], None)],
    "D39": [("whiletrue", [("asg", 1)], None), ("use", 1)],
}


def _witness(tag):
    def w(rec):
        body = WITNESS[tag]
        rep, src = reported([body])
        got = rep[0].get(1)
        lo, hi = analyse(body, False).get(1), analyse(body, True).get(1)
        lines, uses = ["def f() -> None:"], {}
        render(body, 1, lines, uses)
        bad = got is not None and (hi is None or not got <= hi or (lo is not None and not lo <= got)) if tag != "D39" else (lo is None and bool(got))
        srt = lambda s: sorted(s, key=str) if s is not None else None
        return bad, f"reported={srt(got)} strict={srt(lo)} liberal={srt(hi)} at the use in\n" + "\n".join(lines)
    return w


for _t in WITNESS:
    REPLAYERS["C09." + _t] = _witness(_t)


if __name__ == "__main__":
    import sys
    print(prim_search())
    if len(sys.argv) > 4:
        _COLLECT = []
        sandwich(int(sys.argv[1]), int(sys.argv[2]), int(sys.argv[3]))
        import collections
        print(len(_COLLECT), "mismatches", KNOWN)
        print(collections.Counter((w, lo is None) for w, lo, *_ in _COLLECT))
        shown = 0
        for w, lo, hi, r, uid, ln, src in sorted(_COLLECT, key=lambda t: len(t[6])):
            if lo is not None and shown < int(sys.argv[4]) and (len(sys.argv) < 6 or sys.argv[5] in w) and (len(sys.argv) < 7 or not any(t in src for t in sys.argv[6].split(','))):
                shown += 1
                print("----", w, "use", uid, "line", ln, "strict", lo, "reported", r, "liberal", hi); print(src)
        sys.exit(0)
    print(sandwich(int(sys.argv[1]) if len(sys.argv) > 1 else 1, int(sys.argv[2]) if len(sys.argv) > 2 else 300, int(sys.argv[3]) if len(sys.argv) > 3 else 2))


def r_add_composite(rec):
    """FunctionScope._add_composite on the real class: a composite of depth n must be indexed under its root name and under each of its n-1 proper prefixes"""
    from collections import defaultdict
    from pyanalyze.stacked_scopes import CompositeVariable, FunctionScope
    from pyanalyze.value import KnownValue
    for attrs in [("a",), ("a", "b"), ("a", "b", "c"), (KnownValue(0), KnownValue(0)), ("p", KnownValue(1), "v", "w")]:
        scope = FunctionScope.__new__(FunctionScope)
        scope.name_to_composites = defaultdict(set)
        var = CompositeVariable("x", attrs)
        scope._add_composite(var)
        if var not in scope.name_to_composites["x"]:
            return True, f"_add_composite({var}): the composite is not indexed under its root name 'x'"
        for i in range(1, len(attrs)):
            parent = CompositeVariable("x", attrs[:i])
            if var not in scope.name_to_composites.get(parent, ()):
                return True, (f"_add_composite({var}): not indexed under its ancestor {parent}; an assignment to that ancestor (FunctionScope.set walks name_to_composites[ancestor]) "
                              f"will not reset what was narrowed about the composite")
    return False, "every composite of depth <= 4 is indexed under its root and every proper prefix"


REPLAYERS["pyanalyze.stacked_scopes.FunctionScope._add_composite"] = r_add_composite

from replay.util import s, strs


def _mk_instances(items, cls=None):
    from pyanalyze.options import ConfigOption, StringSequenceOption
    out = []
    for it in items or []:
        if not isinstance(it, dict):
            continue
        val = it.get("value")
        if cls is not None:
            val = [f"v{len(out)}_{j}" for j in range(len(val) if isinstance(val, list) else 1)]
            inst = cls(val, strs(it.get("applicable_to")), bool(it.get("from_command_line")), int(it.get("priority") or 0))
        else:
            inst = ConfigOption(("value", len(out)), strs(it.get("applicable_to")), bool(it.get("from_command_line")), int(it.get("priority") or 0))
        out.append(inst)
    return out


def r_is_applicable_to(rec):
    from pyanalyze.options import ConfigOption
    i = rec["inputs"]
    inst = ConfigOption(0, strs(i["self"].get("applicable_to")))
    mp = strs(i["module_path"])
    got = inst.is_applicable_to(mp)
    want = mp[: len(inst.applicable_to)] == inst.applicable_to and len(inst.applicable_to) <= len(mp)
    return got != want, f"is_applicable_to({inst.applicable_to!r}, {mp!r}) = {got}, prefix spec says {want}"


def r_sort_key(rec):
    from pyanalyze.options import ConfigOption
    i = rec["inputs"]["self"]
    inst = ConfigOption(0, strs(i.get("applicable_to")), bool(i.get("from_command_line")), int(i.get("priority") or 0))
    got = inst.sort_key()
    want = (not inst.from_command_line, inst.priority, -len(inst.applicable_to))
    return tuple(got) != want, f"sort_key() = {got!r}, documented key {want!r}"


def r_get_value(rec):
    from pyanalyze.options import ConfigOption, NotFound
    i = rec["inputs"]
    insts = _mk_instances(i["instances"])
    mp = strs(i["module_path"])
    def app(x):
        return len(x.applicable_to) <= len(mp) and mp[: len(x.applicable_to)] == x.applicable_to
    want = next((x.value for x in insts if app(x)), NotFound)
    try:
        got = ConfigOption.get_value_from_instances(insts, mp)
    except NotFound:
        got = NotFound
    return got != want, f"get_value_from_instances({insts!r}, {mp!r}) = {got!r}; first applicable instance gives {want!r}"


def r_concat(rec):
    from pyanalyze.options import StringSequenceOption
    i = rec["inputs"]
    insts = _mk_instances(i["instances"], StringSequenceOption)
    mp = strs(i["module_path"])
    def app(x):
        return len(x.applicable_to) <= len(mp) and mp[: len(x.applicable_to)] == x.applicable_to
    want = [v for x in insts if app(x) for v in x.value] + list(StringSequenceOption.default_value)
    got = list(StringSequenceOption.get_value_from_instances(insts, mp))
    return got != want, f"ConcatenatedOption.get_value_from_instances -> {got!r}; spec (applicable values in order, then default) {want!r}"


REPLAYERS = {
    "pyanalyze.options.ConfigOption.is_applicable_to": r_is_applicable_to,
    "pyanalyze.options.ConfigOption.sort_key": r_sort_key,
    "pyanalyze.options.ConfigOption.get_value_from_instances": r_get_value,
    "pyanalyze.options.ConcatenatedOption.get_value_from_instances": r_concat,
}


def _realise_value(v):
    if v is None:
        return None
    if isinstance(v, (int, bool, str)):
        return v
    if isinstance(v, list):
        return [_realise_value(x) for x in v]
    if isinstance(v, dict):
        if "$const" in v or "$str" in v:
            return s(v)
        if "$dict" in v:
            return {_realise_value(k): _realise_value(x) for k, x in v["$dict"]}
        cls = v.get("$class")
        return {"str": "s", "bool": True, "int": 1, "list": [], "tuple": (), "dict": {}, "NoneType": None}.get(cls, 1.5)
    return 1.5


def r_parse_section(rec):
    """Replays the model's section natively; then checks the contract's postconditions on the real
    result: priority floor and the 'rejected rather than ignored' rules."""
    from pathlib import Path
    from pyanalyze.options import ConfigOption, InvalidConfigOption, _parse_config_section
    i = rec.get("inputs") or {}
    section = _realise_value(i["section"]) if isinstance(i.get("section"), dict) else {}
    mp = strs(i.get("module_path"))
    prio = i.get("priority") if isinstance(i.get("priority"), int) else 0
    # A counter-model of an inductive step names abstract keys "in the registry"; realise them as one
    # real registered option (unknown keys would be rejected up front and mask what the model shows).
    special = ("module", "extend_config", "overrides", "disable_all")
    if rec.get("kind", "").startswith("inv") or rec.get("kind") == "safety":
        section = {k: v for k, v in section.items() if k in special or k in ConfigOption.registry}
        section.setdefault("undefined_name", True)
        if "module" in section and not isinstance(section["module"], str):
            section["module"] = "m"
        if mp == () and "module" in section:
            mp = ("m",)
    try:
        out = list(_parse_config_section(section, mp, path=Path("/nonexistent/pyproject.toml"), priority=prio, seen_paths=frozenset()))
    except InvalidConfigOption as e:
        return False, f"_parse_config_section({section!r}, {mp!r}, priority={prio}) raised InvalidConfigOption({e}) - rejected, as specified"
    problems = []
    if any(o.priority < prio for o in out):
        problems.append(f"instances below the file's priority {prio}: {[ (o.name, o.priority) for o in out if o.priority < prio][:3]}")
    if "disable_all" in section and not isinstance(section["disable_all"], bool):
        problems.append(f"non-bool disable_all={section['disable_all']!r} accepted")
    if "module" in section and mp == ():
        problems.append("top-level 'module' accepted")
    if "extend_config" in section and not isinstance(section["extend_config"], str):
        problems.append("non-string extend_config accepted")
    if "overrides" in section and (mp != () or not isinstance(section["overrides"], (list, tuple))):
        problems.append("nested / non-list overrides accepted")
    for k in section:
        if k not in ("module", "extend_config", "overrides", "disable_all") and k not in ConfigOption.registry:
            problems.append(f"unknown key {k!r} accepted")
    return bool(problems), f"_parse_config_section({section!r}, {mp!r}, priority={prio}) returned {len(out)} instances; " + ("; ".join(problems) or "postconditions hold")


REPLAYERS["pyanalyze.options._parse_config_section"] = r_parse_section


def search_cmdline():
    """a command-line value (also a falsy one) wins over the configuration file"""
    import os
    import tempfile
    from pyanalyze.name_check_visitor import NameCheckVisitor
    from pyanalyze.shared_options import EnforceNoUnused
    from pyanalyze.signature import MaximumPositionalArgs
    d = tempfile.mkdtemp()
    path = os.path.join(d, "pyproject.toml")
    try:
        for opt, file_val, cmd_vals in ((EnforceNoUnused, "true", [False, True]), (MaximumPositionalArgs, "3", [0, 5])):
            with open(path, "w") as f:
                f.write(f"[tool.pyanalyze]\n{opt.name} = {file_val}\n")
            from pathlib import Path
            for cv in cmd_vals:
                kw = NameCheckVisitor.prepare_constructor_kwargs({opt.name: cv, "config_file": Path(path)})
                got = kw["checker"].options.get_value_for(opt)
                if got != cv:
                    return f"command line {opt.name}={cv!r} with {opt.name} = {file_val} in the config file: effective value {got!r}"
    finally:
        try:
            os.unlink(path)
            os.rmdir(d)
        except OSError:
            pass
    return None


def search_layering():
    """stacks of two chained config files with top-level values and overrides for nested prefixes x command line x module paths"""
    import itertools
    import os
    import tempfile
    from pathlib import Path
    from pyanalyze.options import ConfigOption, Options
    from pyanalyze.name_check_visitor import ExtraBuiltins
    from pyanalyze.signature import MaximumPositionalArgs
    intopt = MaximumPositionalArgs
    d = tempfile.mkdtemp()
    main, base = os.path.join(d, "pyproject.toml"), os.path.join(d, "base.toml")
    layers = ["cmd", "main_ab", "main_a", "main_top", "base_ab", "base_a", "base_top"]
    vals = {l: i + 1 for i, l in enumerate(layers)}

    def write(present, extend_first):
        def section(prefix):
            top = [f"{intopt.name} = {vals[prefix + '_top']}"] if prefix + "_top" in present else []
            top += [f"{ExtraBuiltins.name} = ['{prefix}_top']"] if prefix + "_top" in present else []
            ov = []
            for m, key in (("a", prefix + "_a"), ("a.b", prefix + "_ab")):
                if key in present:
                    ov.append(f"[[tool.pyanalyze.overrides]]\nmodule = '{m}'\n{intopt.name} = {vals[key]}\n{ExtraBuiltins.name} = ['{key}']\n")
            return top, ov
        mt, mo = section("main")
        ext = ["extend_config = 'base.toml'"]
        body = (ext + mt) if extend_first else (mt + ext)
        with open(main, "w") as f:
            f.write("[tool.pyanalyze]\n" + "\n".join(body) + "\n" + "\n".join(mo))
        bt, bo = section("base")
        with open(base, "w") as f:
            f.write("[tool.pyanalyze]\n" + "\n".join(bt) + "\n" + "\n".join(bo))

    applicable = {"main_ab": ("a", "b"), "main_a": ("a",), "main_top": (), "base_ab": ("a", "b"), "base_a": ("a",), "base_top": (), "cmd": ()}
    try:
        for r in range(0, 4):
            for present in itertools.combinations(layers, r):
                for extend_first in (True, False):
                    write(set(present), extend_first)
                    cmd = [intopt(vals["cmd"], from_command_line=True), ExtraBuiltins(["cmd"], from_command_line=True)] if "cmd" in present else []
                    opts = Options.from_option_list(cmd, Path(main))
                    for mp in [(), ("a",), ("a", "b"), ("a", "b", "c"), ("c",)]:
                        app = [l for l in layers if l in present and mp[: len(applicable[l])] == applicable[l]]
                        want_int = vals[app[0]] if app else intopt.default_value
                        got_int = opts.for_module(mp).get_value_for(intopt)
                        if got_int != want_int:
                            return f"layers {present} (extend_config {'first' if extend_first else 'last'}), module {'.'.join(mp) or '<top>'}: {intopt.name} = {got_int}, documented precedence gives {want_int} ({app[0] if app else 'default'})"
                        want_list = [l for l in app] + list(ExtraBuiltins.default_value)
                        got_list = list(opts.for_module(mp).get_value_for(ExtraBuiltins))
                        if got_list != want_list:
                            return f"layers {present} (extend_config {'first' if extend_first else 'last'}), module {'.'.join(mp) or '<top>'}: {ExtraBuiltins.name} = {got_list}, documented concatenation gives {want_list}"
    finally:
        for p in (main, base):
            try:
                os.unlink(p)
            except OSError:
                pass
        os.rmdir(d)
    return None


def search_error_code_layers():
    """error-code options: command-line -e/-d settings x a top-level value x per-module overrides (one with disable_all) x module paths;
    inclusion cycles through several files are configuration errors"""
    import os
    import tempfile
    from pathlib import Path
    from pyanalyze.error_code import ErrorCode
    from pyanalyze.name_check_visitor import NameCheckVisitor
    from pyanalyze.options import ConfigOption, InvalidConfigOption, parse_config_file
    d = tempfile.mkdtemp()
    path = os.path.join(d, "pyproject.toml")
    code, other = ErrorCode.undefined_name, ErrorCode.incompatible_call
    paths = [path]
    try:
        for top in (True, False):
            for ov in (True, False):
                with open(path, "w") as f:
                    f.write(f"[tool.pyanalyze]\n{code.name} = {str(top).lower()}\n"
                            f"[[tool.pyanalyze.overrides]]\nmodule = 'a'\n{code.name} = {str(ov).lower()}\n"
                            f"[[tool.pyanalyze.overrides]]\nmodule = 'b'\ndisable_all = true\n")
                for settings in ({}, {code: False}, {code: True}, {other: False}):
                    kw = NameCheckVisitor.prepare_constructor_kwargs({"settings": dict(settings), "config_file": Path(path)})
                    opts = kw["checker"].options
                    for mp in [(), ("a",), ("a", "x"), ("b",), ("c",)]:
                        for c in (code, other):
                            if c in settings:
                                want, why = settings[c], "the command-line setting"
                            elif mp[:1] == ("b",):
                                want, why = False, "disable_all in the override for module b"
                            elif c is code and mp[:1] == ("a",):
                                want, why = ov, "the override for module a"
                            elif c is code:
                                want, why = top, "the top-level value"
                            else:
                                want, why = ConfigOption.registry[c.name].default_value, "the default"
                            got = opts.for_module(mp).is_error_code_enabled(c)
                            if got != want:
                                return (f"config: {code.name} = {top} at top level, = {ov} in the override for module a, disable_all in the override for module b; command line {settings}: "
                                        f"{c.name} in module {'.'.join(mp) or '<top>'} is enabled={got}, {why} says {want}")
        # inclusion cycles of length 2 and 3
        for n in (2, 3):
            names = [os.path.join(d, f"c{n}_{i}.toml") for i in range(n)]
            paths += names
            for i, nm in enumerate(names):
                with open(nm, "w") as f:
                    f.write(f"[tool.pyanalyze]\nextend_config = '{os.path.basename(names[(i + 1) % n])}'\n")
            try:
                list(parse_config_file(Path(names[0])))
                return f"an extend_config cycle through {n} files was accepted"
            except InvalidConfigOption:
                pass
            except RecursionError:
                return f"an extend_config cycle through {n} files is not rejected as a configuration error: parsing recurses until RecursionError"
    finally:
        for p_ in paths:
            try:
                os.unlink(p_)
            except OSError:
                pass
        os.rmdir(d)
    return None


def r_c18_bounded(rec):
    for fn in (search_cmdline, search_layering, search_error_code_layers):
        msg = fn()
        if msg:
            return True, msg
    return False, "effective option values follow the documented precedence on the generated configuration stacks"


REPLAYERS["C18.bounded"] = r_c18_bounded
REPLAYERS["pyanalyze.name_check_visitor.NameCheckVisitor.prepare_constructor_kwargs"] = lambda rec: (lambda m: (bool(m), m or "command-line values win"))(search_cmdline())

REPLAYERS["C11.layers"] = lambda rec: (lambda m: (bool(m), m or "error-code enablement follows command line > override > top level > default on the generated configurations"))(search_error_code_layers())


def r_options_lookup(rec):
    """Options._get_value_for_no_default / get_value_for / is_error_code_enabled on real option lists: configured instances are
    consulted in their (sorted) order before the built-in default, for this module's path"""
    import itertools
    from pyanalyze.error_code import ErrorCode
    from pyanalyze.options import ConfigOption, Options
    from pyanalyze.signature import MaximumPositionalArgs
    code = ErrorCode.undefined_name
    code_opt = ConfigOption.registry[code.name]
    for opt, vals, dflt in ((MaximumPositionalArgs, [3, 5], MaximumPositionalArgs.default_value), (code_opt, [True, False], code_opt.default_value)):
        layers = [((), False), (("a",), False), (("a", "b"), False), ((), True)]
        for r in range(0, 3):
            for chosen in itertools.combinations(range(len(layers)), r):
                insts = [opt(vals[k % 2], layers[i][0], from_command_line=layers[i][1]) for k, i in enumerate(chosen)]
                opts = Options.from_option_list(insts)
                for mp in [(), ("a",), ("a", "b"), ("c",)]:
                    ordered = sorted(insts, key=lambda i: (not i.from_command_line, i.priority, -len(i.applicable_to)))
                    app = [i for i in ordered if mp[: len(i.applicable_to)] == i.applicable_to]
                    want = app[0].value if app else dflt
                    m = opts.for_module(mp)
                    got = [m._get_value_for_no_default(opt), m.get_value_for(opt)] + ([m.is_error_code_enabled(code)] if opt is code_opt else [])
                    if any(g != want for g in got):
                        return True, (f"{opt.name}: instances {[(i.value, i.applicable_to, i.from_command_line) for i in insts]}, module {'.'.join(mp) or '<top>'}: "
                                      f"_get_value_for_no_default / get_value_for / is_error_code_enabled = {got}, the first applicable instance (else the default) gives {want!r}")
    return False, "option look-up returns the first applicable configured instance, else the default, on the generated option lists"


for _q in ("Options._get_value_for_no_default", "Options.get_value_for", "Options.is_error_code_enabled"):
    REPLAYERS["pyanalyze.options." + _q] = r_options_lookup

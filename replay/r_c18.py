from replay.util import s, strs


def _mk_instances(items, cls=None):
    from pyanalyze.options import ConfigOption, StringSequenceOption
    out = []
    for it in items or []:
        if not isinstance(it, dict):
            continue
        val = it.get("value")
        if cls is not None:
            val = [f"v{len(out)}_{j}" for j in range(len(val) if isinstance(val, list) else 1)]
            inst = cls(val, strs(it.get("applicable_to")), bool(it.get("from_command_line")), int(it.get("priority") or 0))
        else:
            inst = ConfigOption(("value", len(out)), strs(it.get("applicable_to")), bool(it.get("from_command_line")), int(it.get("priority") or 0))
        out.append(inst)
    return out


def r_is_applicable_to(rec):
    from pyanalyze.options import ConfigOption
    i = rec["inputs"]
    inst = ConfigOption(0, strs(i["self"].get("applicable_to")))
    mp = strs(i["module_path"])
    got = inst.is_applicable_to(mp)
    want = mp[: len(inst.applicable_to)] == inst.applicable_to and len(inst.applicable_to) <= len(mp)
    return got != want, f"is_applicable_to({inst.applicable_to!r}, {mp!r}) = {got}, prefix spec says {want}"


def r_sort_key(rec):
    from pyanalyze.options import ConfigOption
    i = rec["inputs"]["self"]
    inst = ConfigOption(0, strs(i.get("applicable_to")), bool(i.get("from_command_line")), int(i.get("priority") or 0))
    got = inst.sort_key()
    want = (not inst.from_command_line, inst.priority, -len(inst.applicable_to))
    return tuple(got) != want, f"sort_key() = {got!r}, documented key {want!r}"


def r_get_value(rec):
    from pyanalyze.options import ConfigOption, NotFound
    i = rec["inputs"]
    insts = _mk_instances(i["instances"])
    mp = strs(i["module_path"])
    def app(x):
        return len(x.applicable_to) <= len(mp) and mp[: len(x.applicable_to)] == x.applicable_to
    want = next((x.value for x in insts if app(x)), NotFound)
    try:
        got = ConfigOption.get_value_from_instances(insts, mp)
    except NotFound:
        got = NotFound
    return got != want, f"get_value_from_instances({insts!r}, {mp!r}) = {got!r}; first applicable instance gives {want!r}"


def r_concat(rec):
    from pyanalyze.options import StringSequenceOption
    i = rec["inputs"]
    insts = _mk_instances(i["instances"], StringSequenceOption)
    mp = strs(i["module_path"])
    def app(x):
        return len(x.applicable_to) <= len(mp) and mp[: len(x.applicable_to)] == x.applicable_to
    want = [v for x in insts if app(x) for v in x.value] + list(StringSequenceOption.default_value)
    got = list(StringSequenceOption.get_value_from_instances(insts, mp))
    return got != want, f"ConcatenatedOption.get_value_from_instances -> {got!r}; spec (applicable values in order, then default) {want!r}"


REPLAYERS = {
    "pyanalyze.options.ConfigOption.is_applicable_to": r_is_applicable_to,
    "pyanalyze.options.ConfigOption.sort_key": r_sort_key,
    "pyanalyze.options.ConfigOption.get_value_from_instances": r_get_value,
    "pyanalyze.options.ConcatenatedOption.get_value_from_instances": r_concat,
}


def _realise_value(v):
    if v is None:
        return None
    if isinstance(v, (int, bool, str)):
        return v
    if isinstance(v, list):
        return [_realise_value(x) for x in v]
    if isinstance(v, dict):
        if "$const" in v or "$str" in v:
            return s(v)
        if "$dict" in v:
            return {_realise_value(k): _realise_value(x) for k, x in v["$dict"]}
        cls = v.get("$class")
        return {"str": "s", "bool": True, "int": 1, "list": [], "tuple": (), "dict": {}, "NoneType": None}.get(cls, 1.5)
    return 1.5


def r_parse_section(rec):
    """Replays the model's section natively; then checks the contract's postconditions on the real
    result: priority floor and the 'rejected rather than ignored' rules."""
    from pathlib import Path
    from pyanalyze.options import ConfigOption, InvalidConfigOption, _parse_config_section
    i = rec.get("inputs") or {}
    section = _realise_value(i["section"]) if isinstance(i.get("section"), dict) else {}
    mp = strs(i.get("module_path"))
    prio = i.get("priority") if isinstance(i.get("priority"), int) else 0
    # A counter-model of an inductive step names abstract keys "in the registry"; realise them as one
    # real registered option (unknown keys would be rejected up front and mask what the model shows).
    special = ("module", "extend_config", "overrides", "disable_all")
    if rec.get("kind", "").startswith("inv") or rec.get("kind") == "safety":
        section = {k: v for k, v in section.items() if k in special or k in ConfigOption.registry}
        section.setdefault("undefined_name", True)
        if "module" in section and not isinstance(section["module"], str):
            section["module"] = "m"
        if mp == () and "module" in section:
            mp = ("m",)
    try:
        out = list(_parse_config_section(section, mp, path=Path("/nonexistent/pyproject.toml"), priority=prio, seen_paths=frozenset()))
    except InvalidConfigOption as e:
        return False, f"_parse_config_section({section!r}, {mp!r}, priority={prio}) raised InvalidConfigOption({e}) - rejected, as specified"
    problems = []
    if any(o.priority < prio for o in out):
        problems.append(f"instances below the file's priority {prio}: {[ (o.name, o.priority) for o in out if o.priority < prio][:3]}")
    if "disable_all" in section and not isinstance(section["disable_all"], bool):
        problems.append(f"non-bool disable_all={section['disable_all']!r} accepted")
    if "module" in section and mp == ():
        problems.append("top-level 'module' accepted")
    if "extend_config" in section and not isinstance(section["extend_config"], str):
        problems.append("non-string extend_config accepted")
    if "overrides" in section and (mp != () or not isinstance(section["overrides"], (list, tuple))):
        problems.append("nested / non-list overrides accepted")
    for k in section:
        if k not in ("module", "extend_config", "overrides", "disable_all") and k not in ConfigOption.registry:
            problems.append(f"unknown key {k!r} accepted")
    return bool(problems), f"_parse_config_section({section!r}, {mp!r}, priority={prio}) returned {len(out)} instances; " + ("; ".join(problems) or "postconditions hold")


REPLAYERS["pyanalyze.options._parse_config_section"] = r_parse_section

from replay.util import s, strs


def _mk_instances(items, cls=None):
    from pyanalyze.options import ConfigOption, StringSequenceOption
    out = []
    for it in items or []:
        if not isinstance(it, dict):
            continue
        val = it.get("value")
        if cls is not None:
            val = [f"v{len(out)}_{j}" for j in range(len(val) if isinstance(val, list) else 1)]
            inst = cls(val, strs(it.get("applicable_to")), bool(it.get("from_command_line")), int(it.get("priority") or 0))
        else:
            inst = ConfigOption(("value", len(out)), strs(it.get("applicable_to")), bool(it.get("from_command_line")), int(it.get("priority") or 0))
        out.append(inst)
    return out


def r_is_applicable_to(rec):
    from pyanalyze.options import ConfigOption
    i = rec["inputs"]
    inst = ConfigOption(0, strs(i["self"].get("applicable_to")))
    mp = strs(i["module_path"])
    got = inst.is_applicable_to(mp)
    want = mp[: len(inst.applicable_to)] == inst.applicable_to and len(inst.applicable_to) <= len(mp)
    return got != want, f"is_applicable_to({inst.applicable_to!r}, {mp!r}) = {got}, prefix spec says {want}"


def r_sort_key(rec):
    from pyanalyze.options import ConfigOption
    i = rec["inputs"]["self"]
    inst = ConfigOption(0, strs(i.get("applicable_to")), bool(i.get("from_command_line")), int(i.get("priority") or 0))
    got = inst.sort_key()
    want = (not inst.from_command_line, inst.priority, -len(inst.applicable_to))
    return tuple(got) != want, f"sort_key() = {got!r}, documented key {want!r}"


def r_get_value(rec):
    from pyanalyze.options import ConfigOption, NotFound
    i = rec["inputs"]
    insts = _mk_instances(i["instances"])
    mp = strs(i["module_path"])
    def app(x):
        return len(x.applicable_to) <= len(mp) and mp[: len(x.applicable_to)] == x.applicable_to
    want = next((x.value for x in insts if app(x)), NotFound)
    try:
        got = ConfigOption.get_value_from_instances(insts, mp)
    except NotFound:
        got = NotFound
    return got != want, f"get_value_from_instances({insts!r}, {mp!r}) = {got!r}; first applicable instance gives {want!r}"


def r_concat(rec):
    from pyanalyze.options import StringSequenceOption
    i = rec["inputs"]
    insts = _mk_instances(i["instances"], StringSequenceOption)
    mp = strs(i["module_path"])
    def app(x):
        return len(x.applicable_to) <= len(mp) and mp[: len(x.applicable_to)] == x.applicable_to
    want = [v for x in insts if app(x) for v in x.value] + list(StringSequenceOption.default_value)
    got = list(StringSequenceOption.get_value_from_instances(insts, mp))
    return got != want, f"ConcatenatedOption.get_value_from_instances -> {got!r}; spec (applicable values in order, then default) {want!r}"


REPLAYERS = {
    "pyanalyze.options.ConfigOption.is_applicable_to": r_is_applicable_to,
    "pyanalyze.options.ConfigOption.sort_key": r_sort_key,
    "pyanalyze.options.ConfigOption.get_value_from_instances": r_get_value,
    "pyanalyze.options.ConcatenatedOption.get_value_from_instances": r_concat,
}

"""C07 native replay (bounded stand-in): pairs of def signatures (expected, actual); whenever Signature.can_assign accepts
`actual` where `expected` is wanted, every concrete call shape that binds to `expected` must bind to `actual` (both decided by
calling the real functions); typed variant: parameter contravariance / return covariance on a small type lattice."""
import itertools


def _sigs():
    from replay.r_c05 import signatures
    return signatures(3)


def _shapes():
    out = []
    for npos in range(0, 4):
        for kws in [(), ("a",), ("b",), ("c",), ("a", "b"), ("b", "c"), ("a", "c"), ("a", "b", "c"), ("z",), ("a", "z")]:
            out.append(", ".join(["1"] * npos + [f"{k}=1" for k in kws]))
    return out


def _binds(f, shape):
    try:
        eval(f"f({shape})", {"f": f})
        return True
    except TypeError:
        return False


def is_d5(exp_src, f_act, shape):
    """known finding D5: the expected signature has a variadic parameter (*args / **kwargs) and the call fills one positional-or-keyword
    parameter of `actual` both positionally and by keyword (TypeError: got multiple values for argument)"""
    if "**kwargs" not in exp_src and "*args" not in exp_src:
        return False
    try:
        eval(f"f({shape})", {"f": f_act})
    except TypeError as e:
        return "multiple values for argument" in str(e)
    return False


def search(skip_known=True, limit=None):
    from pyanalyze.checker import Checker
    from pyanalyze.value import CanAssignError
    ctx = Checker()
    srcs = _sigs()
    funcs, sigs = [], []
    for i, s in enumerate(srcs):
        env = {}
        exec(f"def f({s}):\n    pass\n", env)
        funcs.append(env["f"])
        sigs.append(ctx.arg_spec_cache.get_argspec(env["f"]))
    shapes = _shapes()
    table = [[_binds(f, sh) for sh in shapes] for f in funcs]
    n = 0
    for i, j in itertools.product(range(len(srcs)), repeat=2):
        res = sigs[i].can_assign(sigs[j], ctx)
        if isinstance(res, CanAssignError):
            continue
        n += 1
        for k, sh in enumerate(shapes):
            if table[i][k] and not table[j][k]:
                if skip_known and is_d5(srcs[i], funcs[j], sh):
                    continue
                return (f"def g({srcs[j]}) is accepted where the signature ({srcs[i]}) is expected, but the call ({sh}) binds to the expected signature "
                        f"and raises TypeError for g")
    return None


def search_typed():
    """variance on int <: float(promotion) / bool <: int <: object: accepted pairs have contravariant parameters and covariant returns"""
    from pyanalyze.checker import Checker
    from pyanalyze.value import CanAssignError
    ctx = Checker()
    types = ["bool", "int", "object", "str"]
    sub = {("bool", "int"), ("bool", "object"), ("int", "object"), ("str", "object")} | {(t, t) for t in types}
    fs = {}
    for p, r in itertools.product(types, repeat=2):
        env = {}
        exec(f"def f(x: {p}) -> {r}:\n    raise NotImplementedError\n", env)
        fs[(p, r)] = ctx.arg_spec_cache.get_argspec(env["f"])
    for (p1, r1), (p2, r2) in itertools.product(fs, repeat=2):
        ok = not isinstance(fs[(p1, r1)].can_assign(fs[(p2, r2)], ctx), CanAssignError)
        want = (p1, p2) in sub and (r2, r1) in sub   # expected param type <= actual param type; actual return <= expected return
        if ok != want:
            return (f"(x: {p2}) -> {r2} {'accepted' if ok else 'rejected'} where (x: {p1}) -> {r1} is expected; "
                    f"parameter contravariance / return covariance says it should be {'accepted' if want else 'rejected'}")
    return None


def r_c07(rec):
    msg = search() or search_typed()
    return (True, msg) if msg else (False, "accepted signature pairs preserve every call shape; variance holds on the typed pairs")


def w_d5(rec):
    msg = search(skip_known=False)
    return bool(msg), msg or "no accepted pair loses a call shape"


REPLAYERS = {"C07.bounded": r_c07, "C07.D5": w_d5}

if __name__ == "__main__":
    print(search(skip_known=False))
    print(search())
    print(search_typed())

"""C07 native replay (bounded stand-in): pairs of def signatures (expected, actual); whenever Signature.can_assign accepts
`actual` where `expected` is wanted, every concrete call shape that binds to `expected` must bind to `actual` (both decided by
calling the real functions); typed variant: parameter contravariance / return covariance on a small type lattice."""
import itertools


def _sigs():
    from replay.r_c05 import signatures
    return signatures(3)


def _shapes():
    out = []
    for npos in range(0, 4):
        for kws in [(), ("a",), ("b",), ("c",), ("a", "b"), ("b", "c"), ("a", "c"), ("a", "b", "c"), ("z",), ("a", "z")]:
            out.append(", ".join(["1"] * npos + [f"{k}=1" for k in kws]))
    return out


def _binds(f, shape):
    try:
        eval(f"f({shape})", {"f": f})
        return True
    except TypeError:
        return False


def is_d5(exp_src, f_act, shape):
    """known finding D5: the expected signature has a variadic parameter (*args / **kwargs) and the call fills one positional-or-keyword
    parameter of `actual` both positionally and by keyword (TypeError: got multiple values for argument)"""
    if "**kwargs" not in exp_src and "*args" not in exp_src:
        return False
    try:
        eval(f"f({shape})", {"f": f_act})
    except TypeError as e:
        return "multiple values for argument" in str(e)
    return False


def search(skip_known=True, limit=None, thorough=False):
    from pyanalyze.checker import Checker
    from pyanalyze.value import CanAssignError
    ctx = Checker()
    srcs = _sigs()
    if thorough:
        from replay.r_c05 import signatures
        srcs = signatures(4)   # 180 signatures of up to four parameters
    funcs, sigs = [], []
    for i, s in enumerate(srcs):
        env = {}
        exec(f"def f({s}):\n    pass\n", env)
        funcs.append(env["f"])
        sigs.append(ctx.arg_spec_cache.get_argspec(env["f"]))
    shapes = _shapes()
    table = [[_binds(f, sh) for sh in shapes] for f in funcs]
    n = 0
    for i, j in itertools.product(range(len(srcs)), repeat=2):
        res = sigs[i].can_assign(sigs[j], ctx)
        from replay.util import count, sample
        count(evaluations=1, distinct=1)
        if isinstance(res, CanAssignError):
            continue
        n += 1
        if n == 1:
            sample({"expected": srcs[i], "actual": srcs[j], "accepted": True, "shapes_checked": len(shapes)})
        for k, sh in enumerate(shapes):
            if table[i][k] and not table[j][k]:
                if skip_known and is_d5(srcs[i], funcs[j], sh):
                    continue
                return (f"def g({srcs[j]}) is accepted where the signature ({srcs[i]}) is expected, but the call ({sh}) binds to the expected signature "
                        f"and raises TypeError for g")
    return None


def search_typed():
    """variance on int <: float(promotion) / bool <: int <: object: accepted pairs have contravariant parameters and covariant returns"""
    from pyanalyze.checker import Checker
    from pyanalyze.value import CanAssignError
    ctx = Checker()
    types = ["bool", "int", "object", "str"]
    sub = {("bool", "int"), ("bool", "object"), ("int", "object"), ("str", "object")} | {(t, t) for t in types}
    fs = {}
    for p, r in itertools.product(types, repeat=2):
        env = {}
        exec(f"def f(x: {p}) -> {r}:\n    raise NotImplementedError\n", env)
        fs[(p, r)] = ctx.arg_spec_cache.get_argspec(env["f"])
    for (p1, r1), (p2, r2) in itertools.product(fs, repeat=2):
        ok = not isinstance(fs[(p1, r1)].can_assign(fs[(p2, r2)], ctx), CanAssignError)
        from replay.util import count
        count(evaluations=1, distinct=1)
        want = (p1, p2) in sub and (r2, r1) in sub   # expected param type <= actual param type; actual return <= expected return
        if ok != want:
            return (f"(x: {p2}) -> {r2} {'accepted' if ok else 'rejected'} where (x: {p1}) -> {r1} is expected; "
                    f"parameter contravariance / return covariance says it should be {'accepted' if want else 'rejected'}")
    return None


def r_c07(rec):
    msg = search() or search_typed()
    return (True, msg) if msg else (False, "accepted signature pairs preserve every call shape; variance holds on the typed pairs")


def w_d5(rec):
    msg = search(skip_known=False)
    return bool(msg), msg or "no accepted pair loses a call shape"


REPLAYERS = {"C07.bounded": r_c07, "C07.D5": w_d5}

if __name__ == "__main__":
    print(search(skip_known=False))
    print(search())
    print(search_typed())


# ---- method overrides (NameCheckVisitor._check_for_incompatible_overrides / _can_assign_to_base_callable) -------------
OV_SIGS = ["", "x", "x, y=0", "x, y", "*args", "x, *args", "x, **kw", "*, x", "x=0", "x, /", "y", "x, *, k=0", "**kw"]


def search_overrides(skip_known=True):
    """incompatible_override is reported for class C(Base...) exactly when some call shape that binds to a base's method
    fails on the overriding method (real calls on instances); single and double inheritance, functions assigned in the body"""
    from replay.checkcode import check_code
    from replay.util import count, sample
    shapes = []
    for npos in range(0, 4):
        for kws in [(), ("x",), ("y",), ("k",), ("x", "y"), ("x", "k"), ("y", "k"), ("z",)]:
            shapes.append(", ".join(["1"] * npos + [f"{k}=1" for k in kws]))
    lines = []
    plan = []   # (class name, line of the override, [base sig sources], child sig source, kind)
    n = 0

    def meth(sig):
        return f"    def m(self{', ' + sig if sig else ''}): return 0"
    for b in OV_SIGS:
        lines += [f"class B{n}:", meth(b)]
        bn = n
        n += 1
        for c in OV_SIGS:
            lines += [f"class C{n}(B{bn}):", meth(c)]
            plan.append((f"C{n}", len(lines), [b], c, "def"))
            n += 1
    # double inheritance: compatible with the first base, maybe not with the second
    for b1, b2, c in [("x", "x, y=0", "x"), ("x, y=0", "x", "x"), ("x", "x, y=0", "x, y=0"), ("*args", "x", "*args"), ("x", "*, k=0", "x, *, k=0"), ("x", "x, *, k=0", "x")]:
        lines += [f"class P{n}:", meth(b1), f"class Q{n}:", meth(b2), f"class C{n}(P{n}, Q{n}):", meth(c)]
        plan.append((f"C{n}", len(lines), [b1, b2], c, "def"))
        n += 1
    # a plain function assigned in the class body
    for hsig, kind in [("*, x=0", "nofirst"), ("self, x", "ok"), ("*args", "ok"), ("self", "short")]:
        lines += [f"def helper{n}({hsig}): return 0", f"class B{n}:", meth("x"), f"class C{n}(B{n}):", f"    m = helper{n}"]
        plan.append((f"C{n}", len(lines), ["x"], hsig, "assigned"))
        n += 1
    src = "\n".join(lines) + "\n"
    env = {}
    exec(src, env)
    res = check_code(src)
    flagged = {fl["lineno"] for fl in res if fl["code"].name == "incompatible_override"}
    count(evaluations=len(plan), distinct=len(plan))
    for cname, ln, bases, csig, kind in plan:
        child = env[cname]()
        loses = None
        for bsig in bases:
            benv = {}
            exec(f"class B:\n{meth(bsig)}\n", benv)
            bobj = benv["B"]()
            for sh in shapes:
                try:
                    eval(f"o.m({sh})", {"o": bobj})
                except TypeError:
                    continue
                try:
                    eval(f"o.m({sh})", {"o": child})
                except TypeError as e:
                    if skip_known and "multiple values for argument" in str(e) and ("*" in bsig):
                        continue   # D5 class
                    loses = (bsig, sh)
                    break
            if loses:
                break
        if loses and ln not in flagged:
            return (f"class {cname} overrides m({', '.join(bases)}) by m({csig}) [{kind}]: the call m({loses[1]}) binds to the base method m({loses[0]}) and raises TypeError "
                    f"on the overriding one, but no incompatible_override is reported")
        if not loses and ln in flagged:
            return f"class {cname} overrides m({', '.join(bases)}) by m({csig}) [{kind}]: every call shape that binds to the base method binds to the override, but incompatible_override is reported"
    return None


_old_r_c07 = r_c07


def r_c07(rec):
    msg = search(thorough=bool(rec and rec.get("tier") == "thorough")) or search_typed() or search_overrides()
    return (True, msg) if msg else (False, "accepted signature pairs preserve every call shape; variance holds on the typed pairs; overrides are flagged exactly when a call shape is lost")


REPLAYERS["C07.bounded"] = r_c07
REPLAYERS["pyanalyze.signature.can_assign_var_positional"] = r_c07
REPLAYERS["pyanalyze.signature.can_assign_var_keyword"] = r_c07


PROTO_SRC = '''
from typing import Callable
from typing_extensions import Protocol, Literal
class P(Protocol):
    def feed(self, x: int) -> None: ...
class Q(P, Protocol):
    def more(self) -> None: ...
class Good:
    def feed(self, x: int) -> None: ...
    def more(self) -> None: ...
class BadInherited:
    def feed(self, x: str, times: int) -> None: ...
    def more(self) -> None: ...
class BadOwn:
    def feed(self, x: int) -> None: ...
    def more(self, n: int) -> None: ...
class CB(Protocol):
    def __call__(self, x: int) -> None: ...
def want_p(p: P) -> None: ...
def want_q(q: Q) -> None: ...
def want_cb(cb: CB) -> None: ...
def want_fn(cb: Callable[[int], None]) -> None: ...
def mod_pos(x: int, /) -> None: ...
def mod_kw(x: int) -> None: ...
def use() -> None:
    def nested_pos(x: int, /) -> None: ...
    def nested_kw(x: int) -> None: ...
    def nested_two(x: int, y: int) -> None: ...
[CALLS]
'''
# (call, accepted?)  -- a callback protocol __call__(self, x: int) may be called as cb(x=1): a positional-only x loses that shape
PROTO_CALLS = [("want_q(Good())", True), ("want_q(BadInherited())", False), ("want_q(BadOwn())", False), ("want_p(Good())", True), ("want_p(BadInherited())", False), ("want_p(BadOwn())", True),
               ("want_cb(mod_kw)", True), ("want_cb(mod_pos)", False), ("want_cb(nested_kw)", True), ("want_cb(nested_pos)", False), ("want_cb(nested_two)", False),
               ("want_cb(lambda x: None)", True), ("want_cb(lambda x, /: None)", False),
               ("want_fn(mod_pos)", True), ("want_fn(nested_pos)", True), ("want_fn(nested_kw)", True), ("want_fn(nested_two)", False)]


def search_protocols():
    """structural acceptance through the checker: members inherited by a protocol from another protocol are required too; signatures taken from
    the AST (nested defs, lambdas) keep their parameter kinds"""
    from replay.checkcode import check_code
    from replay.util import count
    body = "\n".join(f"    {c}" for c, _ in PROTO_CALLS)
    src = PROTO_SRC.strip("\n").replace("[CALLS]", body) + "\n"
    first = src.split("\n").index("    " + PROTO_CALLS[0][0]) + 1
    res = check_code(src)
    bad = {}
    for fl in res:
        if fl["code"].name in ("incompatible_argument", "incompatible_call"):
            bad.setdefault(fl["lineno"], []).append(fl["description"].split("\n")[0])
    for i, (c, ok) in enumerate(PROTO_CALLS):
        count(1, 1)
        ln = first + i
        if ok == (ln in bad):
            return (f"{c}: {'every call the expected type allows is allowed by the argument' if ok else 'a call the expected type allows fails on the argument (or a required member is missing / incompatible)'}, "
                    f"pyanalyze {'reports ' + str(bad[ln]) if ln in bad else 'accepts it'}  [P: feed(self, x: int); Q(P): more(self); CB: __call__(self, x: int)]")
    return None


_r_c07_before_protocols = r_c07


def r_c07(rec):
    reproduced, msg = _r_c07_before_protocols(rec)
    if reproduced:
        return reproduced, msg
    m = search_protocols()
    return (True, m) if m else (False, msg + "; protocol members (inherited ones included) and AST-derived parameter kinds are honoured")


REPLAYERS["C07.bounded"] = r_c07
REPLAYERS["pyanalyze.signature.can_assign_var_positional"] = r_c07
REPLAYERS["pyanalyze.signature.can_assign_var_keyword"] = r_c07

"""C17 native replay: ConversionSpecifier.accept_no_mvv against the REAL % operator, exhaustively over a
literal universe (this also validates the specification table of contracts/c17_format.py)."""
import warnings

UNIVERSE = [0, 1, -1, 65, 255, 256, 300, 0x10FFFF, 0x110000, True, 1.5, 2.0, 1 + 2j, "", "a", "ab", b"", b"a", b"ab", None, (1,), [1], {"a": 1}, object]
CONVS = "diouxXeEfFgGcrsab"


def _cpython_ok(conv, is_bytes, o):
    pat = (b"%" + conv.encode()) if is_bytes else ("%" + conv)
    try:
        with warnings.catch_warnings():
            warnings.simplefilter("ignore")
            pat % (o,)
        return True
    except (TypeError, ValueError, OverflowError):
        return False


def deviations():
    from pyanalyze.checker import Checker
    from pyanalyze.format_strings import ConversionSpecifier
    from pyanalyze.value import KnownValue
    ctx = Checker()
    out = []
    for is_bytes in (False, True):
        for conv in CONVS:
            if conv == "a" and is_bytes is False:
                pass
            cs = ConversionSpecifier(conv, is_bytes=is_bytes)
            for o in UNIVERSE:
                errs = list(cs.accept_no_mvv(KnownValue(o), ctx))
                ok = _cpython_ok(conv, is_bytes, o)
                if bool(errs) == ok:
                    out.append((is_bytes, conv, o, ok, errs))
    return out


def classify(dev):
    is_bytes, conv, o, ok, errs = dev
    if conv == "c" and not is_bytes and isinstance(o, int) and 256 <= o < 0x110000 and ok:
        return "D14"
    if not ok and not errs:
        return "missed"        # CPython raises, pyanalyze silent
    return "stricter"          # pyanalyze reports, CPython formats (documented stricter lint or defect)


def r_accept(rec):
    devs = [d for d in deviations() if classify(d) != "D14"]
    # '%b' in a text pattern is reported by ConversionSpecifier.lint(), not by accept
    devs = [d for d in devs if (d[0], d[1]) != (False, "b")]
    if devs:
        d = devs[0]
        return True, f"{len(devs)} deviations from CPython's % operator beyond the known finding; first: pattern {'b' if d[0] else ''}'%{d[1]}' % ({d[2]!r},): CPython {'formats' if d[3] else 'raises'}, pyanalyze errors={d[4]}"
    return False, "accept_no_mvv agrees with the real % operator on the literal universe (outside known finding D14)"


def w_d14(rec):
    devs = [d for d in deviations() if classify(d) == "D14"]
    if devs:
        d = devs[0]
        return True, f"'%c' % {d[2]} formats under CPython ({'%c' % d[2]!r}) but pyanalyze reports {d[4]}"
    return False, "text-pattern %c accepts code points >= 256"


def search_counts():
    """argument-count rule against the real % operator: templates with stars and %% x integer tuples"""
    from pyanalyze.checker import Checker
    from pyanalyze.format_strings import PercentFormatString
    from pyanalyze.value import KnownValue
    ctx = Checker()
    templates = ["%d", "%*d", "%.*f", "%*.*f", "%d %s", "%*d %s", "%d%%", "%%%d", "%s %*.*f %d", "%r", "%5d", "%.2f"]
    for t in templates:
        fs = PercentFormatString.from_pattern(t)
        for n in range(0, 6):
            args = tuple(range(1, n + 1))
            try:
                t % args
                ok = True
            except (TypeError, ValueError):
                ok = False
            errs = list(fs.accept(KnownValue(args), ctx))
            if bool(errs) == ok:
                return f"{t!r} % {args!r}: CPython {'formats' if ok else 'raises'}, pyanalyze errors={errs}"
        # scalar (non-tuple) argument
        try:
            t % 7
            ok = True
        except (TypeError, ValueError):
            ok = False
        errs = list(fs.accept(KnownValue(7), ctx))
        if bool(errs) == ok:
            return f"{t!r} % 7: CPython {'formats' if ok else 'raises'}, pyanalyze errors={errs}"
    return None


def r_counts(rec):
    msg = search_counts()
    if msg:
        return True, msg
    return False, "argument-count rule agrees with the real % operator on 12 templates x tuples of length 0..5"


def _all_args_used(template, arglist):
    """unused arguments are reported by a documented stricter lint: only exact uses are compared both ways"""
    import string
    npos = len([a for a in arglist.split(",") if a.strip() and "=" not in a])
    kws = {a.split("=")[0].strip() for a in arglist.split(",") if "=" in a}
    used_pos, used_kw, auto = set(), set(), 0
    def walk(t):
        nonlocal auto
        for _, field, spec, _ in string.Formatter().parse(t):
            if field is None:
                continue
            name = field.split(".")[0].split("[")[0]
            if name == "":
                used_pos.add(auto)
                auto += 1
            elif name.isdigit():
                used_pos.add(int(name))
            else:
                used_kw.add(name)
            if spec:
                walk(spec)
    try:
        walk(template)
    except ValueError:
        return False
    return used_pos >= set(range(npos)) and used_kw >= kws


def search_str_format():
    """str.format templates x argument lists against the real formatter, through the checker"""
    from replay.checkcode import check_code
    templates = ["{}", "{} {}", "{0} {0}", "{0} {1}", "{1} {0}", "{x}", "{0.real}", "{0.real} {0.imag}", "{} {x}", "{{}}", "{0} {x} {0}",
                 "{!r}", "{:>4}", "{0:>{1}}", "{} {} {}", "{2}", "{x} {y}", "{+0}", "{ 0}", "{0}{-1}", "{1_0}", "{0x0}", "{00}"]
    arglists = ["", "1", "1, 2", "1, 2, 3", "1, x=2", "x=2", "x=2, y=3", "**{'+0': 1}", "1, **{'-1': 2}"]
    lines = ["def f() -> None:"]
    cases = []
    for t in templates:
        for a in arglists:
            expr = f"{t!r}.format({a})"
            try:
                eval(expr)
                ok = True
            except (IndexError, KeyError, ValueError, AttributeError, TypeError):
                ok = False
            cases.append((expr, ok, _all_args_used(t, a)))
            lines.append(f"    print({expr})")
    res = check_code("\n".join(lines) + "\n")
    flagged = {f["lineno"] for f in res if f.get("code") is not None and f["code"].name in ("incompatible_call", "bad_format_string", "incompatible_argument")}
    for i, (expr, ok, exact) in enumerate(cases):
        lineno = i + 2
        if ok and exact and lineno in flagged:
            return f"{expr} formats under CPython but is diagnosed"
        if not ok and lineno not in flagged:
            return f"{expr} raises under CPython but is not diagnosed"
    return None


def search_percent_forms():
    """the % operator through the checker, as a binary expression and as the augmented assignment `s %= args` on a literal template"""
    from replay.checkcode import check_code
    cases = [("'%d items'", "'many'"), ("'%d items'", "3"), ("'%s and %s'", "('a',)"), ("'%s and %s'", "('a', 'b')"), ("'%(k)s'", "{'k': 1}"), ("'%(k)s'", "{'j': 1}"), ("b'%d'", "b'x'"), ("b'%d'", "1"),
             ("'%*d'", "(1, 2)"), ("'%*d'", "('w', 2)")]
    lines, plan = [], []
    for i, (t, a) in enumerate(cases):
        try:
            eval(f"{t} % {a}")
            ok = True
        except (TypeError, ValueError, KeyError):
            ok = False
        lines += [f"def b{i}() -> object:", f"    return {t} % {a}"]
        plan.append((len(lines), f"{t} % {a}", ok))
        lines += [f"def a{i}() -> object:", f"    s = {t}", f"    s %= {a}", "    return s"]
        plan.append((len(lines) - 1, f"s = {t}; s %= {a}", ok))
    res = check_code("\n".join(lines) + "\n")
    bad = {}
    for fl in res:
        if fl["code"].name in ("bad_format_string", "incompatible_call", "incompatible_argument", "unsupported_operation"):
            bad.setdefault(fl["lineno"], []).append(fl["description"].split("\n")[0])
    for ln, what, ok in plan:
        if ok == (ln in bad):
            return f"{what}: CPython {'formats' if ok else 'raises'}, pyanalyze {'reports ' + str(bad[ln]) if ln in bad else 'reports nothing'}"
    return None


def r_bounded(rec):
    devs = [d for d in deviations() if classify(d) != "D14" and (d[0], d[1]) != (False, "b")]
    if devs:
        d = devs[0]
        return True, f"pattern {'b' if d[0] else ''}'%{d[1]}' % ({d[2]!r},): CPython {'formats' if d[3] else 'raises'}, pyanalyze errors={d[4]}"
    for fn in (search_counts, search_str_format, search_percent_forms):
        msg = fn()
        if msg:
            return True, msg
    return False, "%-format and str.format diagnostics agree with CPython on the bounded universe"


REPLAYERS = {"C17.bounded": r_bounded, "pyanalyze.format_strings.ConversionSpecifier.accept_no_mvv": r_accept, "C17.D14": w_d14,
             "pyanalyze.format_strings.PercentFormatString.accept_tuple_args_no_mvv": r_counts,
             "pyanalyze.format_strings.PercentFormatString.get_serial_specifiers": r_counts,
             "pyanalyze.format_strings.StarConversionSpecifier.accept": r_counts}

if __name__ == "__main__":
    for d in deviations():
        print(classify(d), d)

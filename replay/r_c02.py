"""C02 native replay: Constraint.apply_to_value against runtime objects (keep / no-widen), and the witnesses
of the known narrowing defects D2 (numeric promotion) and D3 (unrelated classes with a common subclass)."""
import enum
import itertools


class A:
    pass


class B:
    pass


class C(A, B):
    pass


class D(A):
    pass


class Color(enum.Enum):
    RED = 1
    BLUE = 2


def _ctx():
    from pyanalyze.checker import Checker
    return Checker()


def _member(o, v, ctx):
    from pyanalyze.value import KnownValue
    return v.is_assignable(KnownValue(o), ctx)


def _apply(kind, positive, tested, value):
    from pyanalyze.stacked_scopes import Constraint, ConstraintType, VarnameWithOrigin
    c = Constraint(VarnameWithOrigin("x"), getattr(ConstraintType, kind), positive, tested)
    return list(c.apply_to_value(value))


def search(skip_known=True):
    """every object of the universe that belongs to the value and for which the condition evaluates to the
    polarity must belong to some yielded value; yielded values contain nothing outside value U tested"""
    from pyanalyze.value import AnyValue, AnySource, KnownValue, TypedValue
    ctx = _ctx()
    objs = [0, 1, True, 1.5, "a", None, A(), C(), D(), B(), Color.RED, Color.BLUE]
    values = [TypedValue(int), TypedValue(float), TypedValue(object), TypedValue(A), TypedValue(B), TypedValue(D), TypedValue(str), TypedValue(bool),
              TypedValue(Color), KnownValue(1), KnownValue(None), KnownValue(Color.RED), KnownValue(True), AnyValue(AnySource.explicit)]
    classes = [int, float, bool, str, object, A, B, C, D, Color, type(None)]
    for v in values:
        for cls in classes:
            for pos in (True, False):
                out = _apply("is_instance", pos, cls, v)
                for o in objs:
                    if isinstance(v, AnyValue) or not _member(o, v, ctx):
                        continue
                    if isinstance(o, cls) != pos:
                        continue
                    if any(_member(o, y, ctx) for y in out):
                        continue
                    promo = isinstance(v, TypedValue) and not isinstance(o, v.typ)
                    unrelated = pos and isinstance(v, TypedValue) and not issubclass(v.typ, cls) and not issubclass(cls, v.typ)
                    if skip_known and (promo or unrelated):
                        continue
                    return f"isinstance(x, {cls.__name__}) is {pos} for x = {o!r} of type {v}, but the narrowed type {[str(y) for y in out]} excludes it"
        for tested in [None, True, False, Color.RED, Color.BLUE]:
            for pos in (True, False):
                out = _apply("is_value", pos, tested, v)
                for o in [None, True, False, Color.RED, Color.BLUE]:
                    if isinstance(v, AnyValue) or not _member(o, v, ctx):
                        continue
                    if (o is tested) != pos:
                        continue
                    if skip_known and isinstance(v, TypedValue) and not isinstance(o, v.typ):
                        continue  # membership through numeric promotion only (known finding D2)
                    if not any(_member(o, y, ctx) for y in out):
                        return f"`x is {tested!r}` is {pos} for x = {o!r} of type {v}, but the narrowed type {[str(y) for y in out]} excludes it"
                for y in out:
                    for o in objs:
                        if _member(o, y, ctx) and not _member(o, v, ctx) and not (o is tested or o == tested):
                            return f"`x is {tested!r}` ({pos}) on {v} yields {y}, which contains {o!r} from outside"
    return None


def r_c02(rec):
    msg = search()
    if msg:
        return True, msg
    return False, "narrowing keeps every admitted object of the universe (12 objects, 14 values, 11 classes, both polarities), outside the known findings"


def w_d2(rec):
    from pyanalyze.value import TypedValue
    ctx = _ctx()
    out = _apply("is_instance", False, float, TypedValue(float))
    lost = _member(3, TypedValue(float), ctx) and not isinstance(3, float) and not any(_member(3, y, ctx) for y in out)
    return lost, f"x: float narrowed by `not isinstance(x, float)` gives {[str(y) for y in out]}; 3 is accepted as a float (promotion) and is not an instance of float, yet it is excluded"


def w_d3(rec):
    from pyanalyze.value import TypedValue
    ctx = _ctx()
    out = _apply("is_instance", True, B, TypedValue(A))
    o = C()
    lost = _member(o, TypedValue(A), ctx) and isinstance(o, B) and not any(_member(o, y, ctx) for y in out)
    return lost, f"x: A narrowed by `isinstance(x, B)` (A, B unrelated) gives {[str(y) for y in out]}; an instance of class C(A, B) satisfies the test and belongs to A, yet it is excluded"


def w_d3b(rec):
    from pyanalyze.value import TypedValue, is_overlapping
    ctx = _ctx()
    r = is_overlapping(TypedValue(A), TypedValue(B), ctx)
    o = C()
    return (not r and isinstance(o, A) and isinstance(o, B)), f"is_overlapping(A, B) = {r} for unrelated classes A, B, but an instance of class C(A, B) belongs to both"


class NB:
    pass


class NBFalse(NB):
    def __bool__(self):
        return False


def w_d4(rec):
    from pyanalyze.boolability import get_boolability
    from pyanalyze.value import TypedValue
    b = get_boolability(TypedValue(NB))
    o = NBFalse()
    return (b.is_safely_true() and isinstance(o, NB) and not bool(o)), f"get_boolability(NB) = {b.name}: 'always true', but NBFalse (a subclass defining __bool__) has a false instance"


def search_bool():
    """verdicts on exact literals must be right"""
    from pyanalyze.boolability import get_boolability
    from pyanalyze.value import KnownValue
    for o in [0, 1, "", "a", None, True, False, (), (1,), 0.0, 1.5, A(), Color.RED, b"", [], [1], {}, {1: 2}]:
        b = get_boolability(KnownValue(o))
        if b.is_safely_true() and not bool(o):
            return f"get_boolability(Literal[{o!r}]) = {b.name} (safely true) but bool() is False"
        if b.is_safely_false() and bool(o):
            return f"get_boolability(Literal[{o!r}]) = {b.name} (safely false) but bool() is True"
    return None


def r_bool(rec):
    msg = search_bool()
    if msg:
        return True, msg
    return False, "truthiness verdicts are right for the literal universe"


REPLAYERS = {"pyanalyze.stacked_scopes.Constraint.apply_to_value": r_c02, "C02.D2": w_d2, "C02.D3": w_d3, "C02.D4": w_d4, "C02.D3b": w_d3b,
             "pyanalyze.boolability._get_type_boolability": r_bool, "pyanalyze.boolability.Boolability.is_safely_true": r_bool,
             "pyanalyze.boolability.Boolability.is_safely_false": r_bool}

if __name__ == "__main__":
    print(search()); print(search(False)); print(w_d2(None)); print(w_d3(None))


def search_len():
    """LenPredicate on sequence values of statically known length: kept <=> a sequence of that length takes the branch"""
    from pyanalyze.patma import LenPredicate
    from pyanalyze.value import KnownValue, SequenceValue, TypedValue
    ctx = _ctx()
    for n in range(0, 4):
        vals = [KnownValue(tuple(range(n))), SequenceValue(tuple, [(False, TypedValue(int))] * n), KnownValue("a" * n) if n else KnownValue("")]
        for v in vals:
            for expected in range(0, 4):
                for star in (False, True):
                    for positive in (True, False):
                        got = LenPredicate(expected, star, ctx)(v, positive)
                        takes = (n >= expected) if star else (n == expected)
                        if (got is not None) != (takes == positive):
                            return (f"LenPredicate(expected_length={expected}, has_star={star})({v}, positive={positive}) = {got}: a sequence of length {n} "
                                    f"{'takes' if takes == positive else 'cannot take'} this branch")
    return None


def r_len(rec):
    msg = search_len()
    return (True, msg) if msg else (False, "LenPredicate agrees with the lengths on the enumerated values")


REPLAYERS["pyanalyze.patma.LenPredicate.__call__"] = r_len


# ---- end-to-end: conditions through the visitor (condition -> constraint translation, and/or/not composition) ----
ATOMS = ["isinstance(x, int)", "isinstance(x, str)", "x is None", "x is not None", "opaque()", "not isinstance(x, int)", "x", "not x",
         "isinstance(x, (int, str))", "x == 1"]
XS = [1, 0, "s", "", None]


def search_conditions():
    import re
    from replay.checkcode import check_code
    conds = list(ATOMS)
    for a in ATOMS:
        for b in ATOMS:
            if a != b:
                conds += [f"{a} or {b}", f"{a} and {b}"]
    for a in ATOMS[:5]:
        for b in ATOMS[:5]:
            if a != b:
                conds += [f"not ({a} or {b})", f"not ({a} and {b})", f"({a} or {b}) and opaque()", f"({a} and {b}) or opaque()"]
    lines = ["from typing import Union", "def opaque() -> bool:", "    return True"]
    where = []
    for i, c in enumerate(conds):
        lines += [f"def f{i}(x: Union[int, str, None]) -> None:", f"    if {c}:", "        reveal_type(x)", "    else:", "        reveal_type(x)"]
        where.append((len(lines) - 2, len(lines)))
    res = check_code("\n".join(lines) + "\n")
    rev = {}
    for fl in res:
        if fl["code"].name == "reveal_type":
            m = re.search(r"Revealed type is '(.*)'", fl["description"], re.S)
            rev[fl["lineno"]] = m.group(1) if m else fl["description"]

    def member(x, txt):
        if txt is None:
            return False
        parts = [p.strip() for p in txt.split(" | ")]
        for p in parts:
            if p == "int" and type(x) is int or p == "str" and type(x) is str or p == "None" and x is None:
                return True
            m = re.fullmatch(r"Literal\[(.*)\]", p)
            if m:
                try:
                    lits = eval("[" + m.group(1) + "]")
                except Exception:
                    return True
                if any(type(l) is type(x) and l == x for l in lits):
                    return True
            if p.startswith("Any") or p == "object":
                return True
        return False
    for c, (la, lb) in zip(conds, where):
        for x in XS:
            for o in (True, False):
                taken = bool(eval(c, {"x": x, "opaque": lambda: o}))
                txt = rev.get(la if taken else lb)
                if not member(x, txt):
                    return (f"def f(x: Union[int, str, None]): if {c}: ... -- with x = {x!r} (opaque() = {o}) the {'if' if taken else 'else'} branch runs, "
                            f"but x is narrowed there to {txt!r}")
    return None


def search_len_conditions():
    """comparisons of len(y) with a constant on either side, y: Tuple[int, ...]: the tuple that takes a branch satisfies the
    length bounds y is narrowed to there"""
    import re
    from replay.checkcode import check_code
    conds = []
    for op in ("<", "<=", ">", ">=", "==", "!="):
        for k in (0, 1, 2, 3):
            conds += [f"len(y) {op} {k}", f"{k} {op} len(y)"]
    conds += ["len(y) > 1 and len(y) < 3", "1 < len(y) and 3 > len(y)", "not (2 <= len(y))", "len(y) == 1 or 3 == len(y)"]
    lines = ["from typing import Tuple"]
    where = []
    for i, c in enumerate(conds):
        lines += [f"def f{i}(y: Tuple[int, ...]) -> None:", f"    if {c}:", "        reveal_type(y)", "    else:", "        reveal_type(y)"]
        where.append((len(lines) - 2, len(lines)))
    res = check_code("\n".join(lines) + "\n")
    rev = {}
    for fl in res:
        if fl["code"].name == "reveal_type":
            m = re.search(r"Revealed type is '(.*)'", fl["description"], re.S)
            rev[fl["lineno"]] = m.group(1) if m else fl["description"]

    def member(t, txt):
        if txt is None or txt == "Never":
            return False
        for part in [p.strip() for p in re.split(r" \| (?![^\[]*\])", txt)]:
            ok = True
            m = re.search(r"MinLen\(value=(\d+)\)", part)
            if m and len(t) < int(m.group(1)):
                ok = False
            m = re.search(r"MaxLen\(value=(\d+)\)", part)
            if m and len(t) > int(m.group(1)):
                ok = False
            m = re.fullmatch(r"tuple\[((?:int(?:, )?)*)\]", part)
            if m is not None and "..." not in part and len([x for x in m.group(1).split(", ") if x]) != len(t):
                ok = False
            if part == "tuple[()]" and len(t) != 0:
                ok = False
            if ok:
                return True
        return False
    for c, (la, lb) in zip(conds, where):
        for n in range(0, 5):
            y = tuple(range(n))
            taken = bool(eval(c, {"y": y}))
            txt = rev.get(la if taken else lb)
            if not member(y, txt):
                return (f"def f(y: Tuple[int, ...]): if {c}: ... -- a tuple of length {n} takes the {'if' if taken else 'else'} branch, but y is narrowed there to {txt!r}")
    return None


def search_match_guards():
    """match statements whose cases carry opaque guards: a value that falls through a case because its guard failed still
    belongs to the type the subject is narrowed to in the later cases"""
    import re
    from replay.checkcode import check_code
    subjects = [("Optional[int]", [None, 1, 2]), ("Literal[1, 2]", [1, 2]), ("Union[int, str]", [1, "a", "b"])]
    patterns = ["None", "1", "'a'", "int()", "str()"]
    progs = []
    for ann, xs in subjects:
        for p1 in patterns:
            for p2 in patterns:
                if p1 != p2:
                    progs.append((ann, xs, p1, p2))
    lines = ["from typing import Optional, Union\nfrom typing_extensions import Literal\ndef g() -> bool:\n    return False"]
    where = []
    for i, (ann, xs, p1, p2) in enumerate(progs):
        lines.append(f"def f{i}(x: {ann}) -> int:\n    match x:\n        case {p1} if g():\n            reveal_type(x)\n            return 1\n        case {p2}:\n            reveal_type(x)\n            return 2\n"
                     f"        case _:\n            reveal_type(x)\n            return 3\n    return 0")
    src = "\n".join(lines) + "\n"
    res = check_code(src)
    rev = {}
    for fl in res:
        if fl["code"].name == "reveal_type":
            m = re.search(r"Revealed type is '(.*)'", fl["description"], re.S)
            rev[fl["lineno"]] = m.group(1) if m else fl["description"]
    src_lines = src.split("\n")
    starts = [i + 1 for i, l in enumerate(src_lines) if l.startswith("def f") and "(x:" in l]

    def member(x, txt):
        if txt is None or txt == "Never":
            return False
        for part in [p.strip() for p in txt.split(" | ")]:
            if part in ("int", "str") and type(x).__name__ == part or part == "None" and x is None or part.startswith("Any") or part == "object":
                return True
            m = re.fullmatch(r"Literal\[(.*)\]", part)
            if m:
                try:
                    if any(type(l) is type(x) and l == x for l in eval("[" + m.group(1) + "]")):
                        return True
                except Exception:
                    return True
        return False
    for (ann, xs, p1, p2), start in zip(progs, starts):
        for gv in (False, True):
            env = {}
            exec("from typing import Optional, Union\nfrom typing_extensions import Literal\n" + "\n".join(src_lines[start - 1:start + 11]).replace("reveal_type(x)", "pass"), env)
            env["g"] = lambda: gv
            fname = src_lines[start - 1].split("(")[0][4:]
            for x in xs:
                which = env[fname](x)
                if which == 0:
                    continue
                ln = start + {1: 3, 2: 6, 3: 9}[which]
                if not member(x, rev.get(ln)):
                    return (f"def f(x: {ann}): match x: case {p1} if g(): ... case {p2}: ... case _: ... -- with x = {x!r} and g() = {gv} case #{which} runs, "
                            f"but x is narrowed there to {rev.get(ln)!r}")
    return None


def r_conditions(rec):
    msg = search_conditions() or search_len_conditions() or search_match_guards()
    return (True, msg) if msg else (False, "narrowing keeps the actual value on every enumerated condition")


REPLAYERS["C02.conditions"] = r_conditions
REPLAYERS["pyanalyze.stacked_scopes.extract_constraints"] = r_conditions


def w_d54(rec):
    """`==` narrowing to the literal: equal objects of another type are lost"""
    from pyanalyze.predicates import EqualsPredicate
    from pyanalyze.value import KnownValue, TypedValue
    got = EqualsPredicate(True, _ctx())(TypedValue(object), True)
    lost = [o for o in (1, 1.0) if o == True and got is not None and not got.is_assignable(KnownValue(o), _ctx())]  # noqa: E712
    return bool(lost), (f"EqualsPredicate(True)(object, positive=True) = {got}: in the branch where `q == True` holds q is narrowed to the literal, but {lost} also "
                        f"compare equal to True and take that branch (q: object; `if q == True:`)")


REPLAYERS["C02.D54"] = w_d54


def r_len_of_value(rec):
    """len_of_value on sequence values: a known length only when no member is unpacked, and then the member count"""
    import itertools
    from pyanalyze.implementation import len_of_value
    from pyanalyze.value import KnownValue, SequenceValue, TypedValue
    for n in range(0, 4):
        for flags in itertools.product([False, True], repeat=n):
            for typ in (tuple, list):
                v = SequenceValue(typ, [(f, TypedValue(int)) for f in flags])
                got = len_of_value(v)
                if isinstance(got, KnownValue) and (any(flags) or got.val != n):
                    return True, (f"len_of_value({v}) = {got}: " + ("an unpacked member stands for any number of elements, so no length is known" if any(flags) else f"the sequence has {n} members"))
    return False, "len_of_value claims a known length only for sequences of single members"


REPLAYERS["pyanalyze.implementation.len_of_value"] = r_len_of_value

"""C02 native replay: Constraint.apply_to_value against runtime objects (keep / no-widen), and the witnesses
of the known narrowing defects D2 (numeric promotion) and D3 (unrelated classes with a common subclass)."""
import enum
import itertools


class A:
    pass


class B:
    pass


class C(A, B):
    pass


class D(A):
    pass


class Color(enum.Enum):
    RED = 1
    BLUE = 2


def _ctx():
    from pyanalyze.checker import Checker
    return Checker()


def _member(o, v, ctx):
    from pyanalyze.value import KnownValue
    return v.is_assignable(KnownValue(o), ctx)


def _apply(kind, positive, tested, value):
    from pyanalyze.stacked_scopes import Constraint, ConstraintType, VarnameWithOrigin
    c = Constraint(VarnameWithOrigin("x"), getattr(ConstraintType, kind), positive, tested)
    return list(c.apply_to_value(value))


def search(skip_known=True):
    """every object of the universe that belongs to the value and for which the condition evaluates to the
    polarity must belong to some yielded value; yielded values contain nothing outside value U tested"""
    from pyanalyze.value import AnyValue, AnySource, KnownValue, TypedValue
    ctx = _ctx()
    objs = [0, 1, True, 1.5, "a", None, A(), C(), D(), B(), Color.RED, Color.BLUE]
    values = [TypedValue(int), TypedValue(float), TypedValue(object), TypedValue(A), TypedValue(B), TypedValue(D), TypedValue(str), TypedValue(bool),
              TypedValue(Color), KnownValue(1), KnownValue(None), KnownValue(Color.RED), KnownValue(True), AnyValue(AnySource.explicit)]
    classes = [int, float, bool, str, object, A, B, C, D, Color, type(None)]
    for v in values:
        for cls in classes:
            for pos in (True, False):
                out = _apply("is_instance", pos, cls, v)
                for o in objs:
                    if isinstance(v, AnyValue) or not _member(o, v, ctx):
                        continue
                    if isinstance(o, cls) != pos:
                        continue
                    if any(_member(o, y, ctx) for y in out):
                        continue
                    promo = isinstance(v, TypedValue) and not isinstance(o, v.typ)
                    unrelated = pos and isinstance(v, TypedValue) and not issubclass(v.typ, cls) and not issubclass(cls, v.typ)
                    if skip_known and (promo or unrelated):
                        continue
                    return f"isinstance(x, {cls.__name__}) is {pos} for x = {o!r} of type {v}, but the narrowed type {[str(y) for y in out]} excludes it"
        for tested in [None, True, False, Color.RED, Color.BLUE]:
            for pos in (True, False):
                out = _apply("is_value", pos, tested, v)
                for o in [None, True, False, Color.RED, Color.BLUE]:
                    if isinstance(v, AnyValue) or not _member(o, v, ctx):
                        continue
                    if (o is tested) != pos:
                        continue
                    if skip_known and isinstance(v, TypedValue) and not isinstance(o, v.typ):
                        continue  # membership through numeric promotion only (known finding D2)
                    if not any(_member(o, y, ctx) for y in out):
                        return f"`x is {tested!r}` is {pos} for x = {o!r} of type {v}, but the narrowed type {[str(y) for y in out]} excludes it"
                for y in out:
                    for o in objs:
                        if _member(o, y, ctx) and not _member(o, v, ctx) and not (o is tested or o == tested):
                            return f"`x is {tested!r}` ({pos}) on {v} yields {y}, which contains {o!r} from outside"
    return None


def r_c02(rec):
    msg = search()
    if msg:
        return True, msg
    return False, "narrowing keeps every admitted object of the universe (12 objects, 14 values, 11 classes, both polarities), outside the known findings"


def w_d2(rec):
    from pyanalyze.value import TypedValue
    ctx = _ctx()
    out = _apply("is_instance", False, float, TypedValue(float))
    lost = _member(3, TypedValue(float), ctx) and not isinstance(3, float) and not any(_member(3, y, ctx) for y in out)
    return lost, f"x: float narrowed by `not isinstance(x, float)` gives {[str(y) for y in out]}; 3 is accepted as a float (promotion) and is not an instance of float, yet it is excluded"


def w_d3(rec):
    from pyanalyze.value import TypedValue
    ctx = _ctx()
    out = _apply("is_instance", True, B, TypedValue(A))
    o = C()
    lost = _member(o, TypedValue(A), ctx) and isinstance(o, B) and not any(_member(o, y, ctx) for y in out)
    return lost, f"x: A narrowed by `isinstance(x, B)` (A, B unrelated) gives {[str(y) for y in out]}; an instance of class C(A, B) satisfies the test and belongs to A, yet it is excluded"


def w_d3b(rec):
    from pyanalyze.value import TypedValue, is_overlapping
    ctx = _ctx()
    r = is_overlapping(TypedValue(A), TypedValue(B), ctx)
    o = C()
    return (not r and isinstance(o, A) and isinstance(o, B)), f"is_overlapping(A, B) = {r} for unrelated classes A, B, but an instance of class C(A, B) belongs to both"


class NB:
    pass


class NBFalse(NB):
    def __bool__(self):
        return False


def w_d4(rec):
    from pyanalyze.boolability import get_boolability
    from pyanalyze.value import TypedValue
    b = get_boolability(TypedValue(NB))
    o = NBFalse()
    return (b.is_safely_true() and isinstance(o, NB) and not bool(o)), f"get_boolability(NB) = {b.name}: 'always true', but NBFalse (a subclass defining __bool__) has a false instance"


def search_bool():
    """verdicts on exact literals must be right"""
    from pyanalyze.boolability import get_boolability
    from pyanalyze.value import KnownValue
    for o in [0, 1, "", "a", None, True, False, (), (1,), 0.0, 1.5, A(), Color.RED, b"", [], [1], {}, {1: 2}]:
        b = get_boolability(KnownValue(o))
        if b.is_safely_true() and not bool(o):
            return f"get_boolability(Literal[{o!r}]) = {b.name} (safely true) but bool() is False"
        if b.is_safely_false() and bool(o):
            return f"get_boolability(Literal[{o!r}]) = {b.name} (safely false) but bool() is True"
    return None


def r_bool(rec):
    msg = search_bool()
    if msg:
        return True, msg
    return False, "truthiness verdicts are right for the literal universe"


REPLAYERS = {"pyanalyze.stacked_scopes.Constraint.apply_to_value": r_c02, "C02.D2": w_d2, "C02.D3": w_d3, "C02.D4": w_d4, "C02.D3b": w_d3b,
             "pyanalyze.boolability._get_type_boolability": r_bool, "pyanalyze.boolability.Boolability.is_safely_true": r_bool,
             "pyanalyze.boolability.Boolability.is_safely_false": r_bool}

if __name__ == "__main__":
    print(search()); print(search(False)); print(w_d2(None)); print(w_d3(None))

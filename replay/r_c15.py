"""C15 native replay: the solver's counter-model for typevar.solve speaks about abstract values; it is
realised by a bounded native search over a small vocabulary of real static values, checking the
violated clause with the real functions.  A hit is a concrete failing input for the real code."""
import itertools


def _vocab():
    from pyanalyze.value import TypedValue, KnownValue, MultiValuedValue
    return [TypedValue(int), TypedValue(bool), TypedValue(str), TypedValue(object), KnownValue(1),
            MultiValuedValue([TypedValue(int), TypedValue(str)])]


def _ctx():
    from pyanalyze.checker import Checker
    return Checker()


def _clauses(bounds, result, ctx):
    """natively evaluated postconditions of typevar.solve -> list of violated clause names"""
    from pyanalyze.value import AnyValue, CanAssignError, IsOneOf, LowerBound, UpperBound
    bad = []
    if isinstance(result, CanAssignError):
        return bad
    lowers = [b for b in bounds if isinstance(b, LowerBound)]
    uppers = [b for b in bounds if isinstance(b, UpperBound)]
    oneofs = [b for b in bounds if isinstance(b, IsOneOf)]
    if not all(result.is_assignable(l.value, ctx) for l in lowers):
        bad.append("accepts_every_lower_bound")
    if not isinstance(result, AnyValue) and not oneofs:
        chain = all(a.value.is_assignable(b.value, ctx) or b.value.is_assignable(a.value, ctx) for a in uppers for b in uppers)
        if not all(u.value.is_assignable(result, ctx) for u in uppers):
            bad.append("accepted_by_every_upper_bound.comparable" if chain else "accepted_by_every_upper_bound.any")
    if oneofs and not isinstance(result, AnyValue):
        if not any(any(result is c or result == c for c in o.constraints) for o in oneofs):
            bad.append("one_of_the_constraints")
    return bad


def search(clause_filter=None, max_len=3):
    from typing import TypeVar
    from pyanalyze.typevar import solve
    from pyanalyze.value import IsOneOf, LowerBound, UpperBound
    T = TypeVar("T")
    ctx = _ctx()
    vocab = _vocab()
    atoms = [LowerBound(T, v) for v in vocab] + [UpperBound(T, v) for v in vocab] + [IsOneOf(T, (vocab[0], vocab[2]))]
    for n in range(1, max_len + 1):
        for combo in itertools.product(atoms, repeat=n):
            res = solve(combo, ctx)
            bad = _clauses(combo, res, ctx)
            if clause_filter is not None:
                bad = [b for b in bad if clause_filter(b)]
            if bad:
                return combo, res, bad
    return None


def r_solve(rec):
    ob = rec.get("obligation", "")
    known_case = "accepted_by_every_upper_bound.any"
    if "#post." in ob:
        clause = ob.split("#post.")[1].split("/")[0]
        flt = lambda b: b == clause
    else:
        # a failed invariant / safety obligation can surface in any clause but the known-finding case
        flt = lambda b: b != known_case
    hit = search(flt)
    if hit is None:
        return False, f"bounded native search (<=3 bounds over 6 static values) found no input violating {ob}"
    combo, res, bad = hit
    return True, f"solve({list(map(str, combo))}) = {res}  violates {bad}"


def w_d11(rec):
    """D11: incomparable upper bounds are united; the solution is accepted by neither."""
    from typing import TypeVar
    from pyanalyze.typevar import solve
    from pyanalyze.value import TypedValue, UpperBound, CanAssignError
    T = TypeVar("T")
    ctx = _ctx()
    bounds = [UpperBound(T, TypedValue(int)), UpperBound(T, TypedValue(str))]
    res = solve(bounds, ctx)
    if isinstance(res, CanAssignError):
        return False, "solve reports an error for incomparable upper bounds"
    ok = all(b.value.is_assignable(res, ctx) for b in bounds)
    return (not ok), f"solve([T <= int, T <= str]) = {res}; accepted by int: {bounds[0].value.is_assignable(res, ctx)}, by str: {bounds[1].value.is_assignable(res, ctx)}"


REPLAYERS = {"pyanalyze.typevar.solve": r_solve, "C15.D11": w_d11}


def search_generic_calls():
    """accepted generic calls: the revealed solution respects the declared bound / is one of the constraints"""
    import re
    from replay.checkcode import check_code
    code = '''
from typing import TypeVar, Callable, Any, List
TB = TypeVar("TB", bound=bool)
TC = TypeVar("TC", int, str)
T = TypeVar("T")
def fb(func: Callable[[TB], Any]) -> TB:
    raise NotImplementedError
def fc(func: Callable[[TC], Any]) -> TC:
    raise NotImplementedError
def fbx(x: TB) -> TB:
    return x
def fcx(x: TC) -> TC:
    return x
def two(x: T, func: Callable[[T], Any]) -> T:
    return x
def takes_int(x: int) -> None: ...
def takes_bool(x: bool) -> None: ...
def takes_obj(x: object) -> None: ...
def takes_bytes(x: bytes) -> None: ...
def takes_str(x: str) -> None: ...
from typing import AnyStr, Dict
WF = TypeVar("WF", float, int)
NF = TypeVar("NF", int, float)
def apply_none(x: T, cb: Callable[[T], None]) -> None: ...
def apply_none2(cb: Callable[[T], None], x: T) -> int:
    return 0
def same_none(a: AnyStr, b: AnyStr) -> None: ...
def wide_first(x: WF, cb: Callable[[WF], None]) -> WF:
    return x
def narrow_first(x: NF, cb: Callable[[NF], None]) -> NF:
    return x
from typing import Tuple, Type
def first3(a: AnyStr, b: AnyStr, extra: T) -> None: ...
def last3(extra: T, a: AnyStr, b: AnyStr) -> None: ...
def pick(x: Tuple[AnyStr, int], y: Tuple[AnyStr, int]) -> None: ...
def pick2(x: Tuple[int, AnyStr], y: Tuple[int, AnyStr]) -> None: ...
def mk(cls: Type[TB]) -> TB:
    raise NotImplementedError
def mkc(cls: Type[TC]) -> TC:
    raise NotImplementedError
def use() -> None:
    reveal_type(apply_none("a", takes_int))
    reveal_type(apply_none2(takes_int, "a"))
    reveal_type(same_none("a", b"b"))
    reveal_type(apply_none(1, takes_int))
    reveal_type(wide_first(True, takes_bool))
    reveal_type(narrow_first(True, takes_bool))
    reveal_type(wide_first(1, takes_int))
    reveal_type(narrow_first(1, takes_int))
    reveal_type(wide_first(1.5, takes_int))
    reveal_type(fb(takes_int))
    reveal_type(fb(takes_obj))
    reveal_type(fb(takes_bool))
    reveal_type(fb(takes_bytes))
    reveal_type(fc(takes_obj))
    reveal_type(fc(takes_bytes))
    reveal_type(fc(takes_int))
    reveal_type(fc(takes_str))
    reveal_type(fbx(True))
    reveal_type(fbx(1))
    reveal_type(fcx(1))
    reveal_type(fcx(b""))
    reveal_type(two(1, takes_int))
    reveal_type(two(1, takes_str))
    reveal_type(two(True, takes_int))
    reveal_type(first3("a", b"b", 1))
    reveal_type(last3(1, "a", b"b"))
    reveal_type(first3("a", "b", 1))
    reveal_type(pick(("a", 1), (b"b", 2)))
    reveal_type(pick2((1, "a"), (2, b"b")))
    reveal_type(pick(("a", 1), ("b", 2)))
    reveal_type(mk(str))
    reveal_type(mk(bool))
    reveal_type(mkc(bytes))
    reveal_type(mkc(int))
'''
    res = check_code(code)
    lines = code.split("\n")
    revealed, diagnosed = {}, set()
    for f in res:
        if f["code"].name == "reveal_type":
            revealed[f["lineno"]] = re.search(r"'(.*)'", f["description"]).group(1)
        elif f["code"].name in ("incompatible_argument", "incompatible_call"):
            diagnosed.add(f["lineno"])
    allowed = {"fb(": {"bool", "Literal[True]", "Literal[False]"}, "fbx(": {"bool", "Literal[True]", "Literal[False]"},
               "fc(": {"int", "str"}, "fcx(": {"int", "str"}, "wide_first(": {"int", "float"}, "narrow_first(": {"int", "float"}}
    must_reject = ["fb(takes_bytes)", "fc(takes_bytes)", "fbx(1)", 'fcx(b"")', "two(1, takes_str)",
                   # no solution although the return annotation carries no type variable; constraint order must not matter
                   'apply_none("a", takes_int)', 'apply_none2(takes_int, "a")', 'same_none("a", b"b")', "wide_first(True, takes_bool)", "narrow_first(True, takes_bool)",
                   "wide_first(1.5, takes_int)",
                   # a conflict on one type variable must not be lost behind another one, wherever it sits; bounds collected from tuple members; Type[T]
                   'first3("a", b"b", 1)', 'last3(1, "a", b"b")', 'pick(("a", 1), (b"b", 2))', 'pick2((1, "a"), (2, b"b"))', "mk(str)", "mkc(bytes)"]
    must_accept = ["apply_none(1, takes_int)", "wide_first(1, takes_int)", "narrow_first(1, takes_int)", 'first3("a", "b", 1)', 'pick(("a", 1), ("b", 2))', "mk(bool)", "mkc(int)"]
    for m in must_accept:
        ln = next(i + 1 for i, l in enumerate(lines) if m in l)
        if ln in diagnosed:
            return f"`{m}` has a solution within the declared bound/constraints but is diagnosed"
    for ln, text in revealed.items():
        src = lines[ln - 1].strip()
        if ln in diagnosed:
            continue
        for prefix, ok in allowed.items():
            if "reveal_type(" + prefix in src and not text.startswith("Any") and text not in ok:
                return f"`{src}` is accepted with the type variable solved as {text!r}, outside its declared bound/constraints {sorted(ok)}"
    for m in must_reject:
        ln = next(i + 1 for i, l in enumerate(lines) if m in l)
        if ln not in diagnosed:
            return f"`{m}` has no solution within the declared bound/constraints but is not diagnosed (revealed {revealed.get(ln)!r})"
    return None


def r_c15_bounded(rec):
    hit = search(lambda b: b != "accepted_by_every_upper_bound.any")
    if hit is not None:
        combo, res, bad = hit
        return True, f"solve({list(map(str, combo))}) = {res}  violates {bad}"
    msg = search_generic_calls()
    if msg:
        return True, msg
    return False, "solutions respect their bounds on the bounded universe and on the generated generic calls"


REPLAYERS["C15.bounded"] = r_c15_bounded

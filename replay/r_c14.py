"""C14 native replay: the algebraic laws of the C14 statement, checked with the real functions over a small
universe of Values (hashable and unhashable literals, typed, generic, sequence, annotated, nested unions)."""
import itertools


def universe():
    from pyanalyze.value import (AnnotatedValue, AnySource, AnyValue, GenericValue, KnownValue, MultiValuedValue, SequenceValue,
                                 SubclassValue, TypedValue, CustomCheckExtension, NO_RETURN_VALUE, TypedDictValue, TypedDictEntry)
    from pyanalyze.extensions import CustomCheck
    lst = [1]
    ext = CustomCheckExtension(CustomCheck())
    base = [KnownValue(1), KnownValue(True), KnownValue("a"), KnownValue(lst), KnownValue([1]), TypedValue(int), TypedValue(str),
            GenericValue(list, [TypedValue(int)]), SequenceValue(tuple, [(False, TypedValue(int)), (True, TypedValue(str))]),
            SubclassValue(TypedValue(int)), AnyValue(AnySource.explicit),
            TypedDictValue({"a": TypedDictEntry(TypedValue(int))}), TypedDictValue({"b": TypedDictEntry(TypedValue(str))})]
    unions = [MultiValuedValue([base[0], base[2]]), MultiValuedValue([base[5], base[6], base[0]]), NO_RETURN_VALUE, MultiValuedValue([base[11], base[5]]),
              AnnotatedValue(MultiValuedValue([base[5], base[2]]), [ext]), AnnotatedValue(base[5], [ext])]
    return base + unions


def leaves(v):
    from pyanalyze.value import flatten_values
    return list(flatten_values(v))


def same_set(a, b):
    return all(any(x == y for y in b) for x in a) and all(any(x == y for y in a) for x in b)


def search():
    from pyanalyze.checker import Checker
    from pyanalyze.value import MultiValuedValue, NO_RETURN_VALUE, unite_values, flatten_values, AnyValue
    ctx = Checker()
    U = universe()
    for a in U:
        if not (unite_values(a, a) == a or same_set(leaves(unite_values(a, a)), leaves(a))):
            return f"unite_values(a, a) != a for a = {a}"
        if not same_set(leaves(unite_values(a, NO_RETURN_VALUE)), leaves(a)) or not same_set(leaves(unite_values(NO_RETURN_VALUE, a)), leaves(a)):
            return f"Never is not an identity for {a}: {unite_values(a, NO_RETURN_VALUE)}"
    for a, b in itertools.product(U, repeat=2):
        u = unite_values(a, b)
        if isinstance(u, MultiValuedValue) and any(isinstance(m, MultiValuedValue) for m in u.vals):
            return f"nested union: unite_values({a}, {b}) = {u!r}"
        want = leaves(a) + leaves(b)
        if not same_set(leaves(u), want):
            return f"unite_values({a}, {b}) = {u}: members {list(map(str, leaves(u)))} differ from the members of the operands {list(map(str, want))}"
        if not same_set(leaves(u), leaves(unite_values(b, a))):
            return f"not commutative up to ==: {a}, {b}"
        for op in (a, b):
            if not u.is_assignable(op, ctx) and not isinstance(op, AnyValue):
                return f"unite_values({a}, {b}) = {u} does not accept its operand {op}"
        # order: first-occurrence order of the flattened operands (C10)
        seen = []
        for x in want:
            if not any(x is y or (x == y and _hash_eq(x, y)) for y in seen):
                seen.append(x)
        if [str(x) for x in leaves(u)] != [str(x) for x in seen]:
            return f"unite_values({a}, {b}) = {u}: member order {list(map(str, leaves(u)))} is not the first-occurrence order {list(map(str, seen))}"
    for a, b, c in itertools.product(U[:8] + U[11:15], repeat=3):
        if not same_set(leaves(unite_values(unite_values(a, b), c)), leaves(unite_values(a, unite_values(b, c)))):
            return f"not associative up to ==: {a}, {b}, {c}"
    for v in U:
        fl = list(flatten_values(v))
        if any(isinstance(m, MultiValuedValue) for m in fl):
            return f"flatten_values({v}) yields a union"
    return None


def _hash_eq(x, y):
    try:
        return hash(x) == hash(y)
    except TypeError:
        return False


def r_c14(rec):
    msg = search()
    if msg:
        return True, msg
    return False, "union laws hold natively on the value universe (16 values, all pairs, triples over 10)"


REPLAYERS = {q: r_c14 for q in ("pyanalyze.value.unite_values", "pyanalyze.value.flatten_values", "pyanalyze.value.MultiValuedValue.__post_init__",
                                "pyanalyze.value._is_unreachable", "pyanalyze.value.is_union")}

if __name__ == "__main__":
    print(search())

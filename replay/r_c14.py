"""C14 native replay: the algebraic laws of the C14 statement, checked with the real functions over a small
universe of Values (hashable and unhashable literals, typed, generic, sequence, annotated, nested unions)."""
import itertools


def universe():
    from pyanalyze.value import (AnnotatedValue, AnySource, AnyValue, GenericValue, KnownValue, MultiValuedValue, SequenceValue,
                                 SubclassValue, TypedValue, CustomCheckExtension, NO_RETURN_VALUE, TypedDictValue, TypedDictEntry)
    from pyanalyze.extensions import CustomCheck
    lst = [1]
    ext = CustomCheckExtension(CustomCheck())
    base = [KnownValue(1), KnownValue(True), KnownValue("a"), KnownValue(lst), KnownValue([1]), TypedValue(int), TypedValue(str),
            GenericValue(list, [TypedValue(int)]), SequenceValue(tuple, [(False, TypedValue(int)), (True, TypedValue(str))]),
            SubclassValue(TypedValue(int)), AnyValue(AnySource.explicit),
            TypedDictValue({"a": TypedDictEntry(TypedValue(int))}), TypedDictValue({"b": TypedDictEntry(TypedValue(str))})]
    ext2 = CustomCheckExtension(CustomCheck())
    unions = [AnnotatedValue(MultiValuedValue([AnnotatedValue(base[5], [ext2]), base[6]]), [ext]),
              MultiValuedValue([base[0], base[2]]), MultiValuedValue([base[5], base[6], base[0]]), NO_RETURN_VALUE, MultiValuedValue([base[11], base[5]]),
              AnnotatedValue(MultiValuedValue([base[5], base[2]]), [ext]), AnnotatedValue(base[5], [ext])]
    return base + unions


def leaves(v):
    from pyanalyze.value import flatten_values
    return list(flatten_values(v))


def same_set(a, b):
    return all(any(x == y for y in b) for x in a) and all(any(x == y for y in a) for x in b)


def search():
    from pyanalyze.checker import Checker
    from pyanalyze.value import MultiValuedValue, NO_RETURN_VALUE, unite_values, flatten_values, AnyValue
    ctx = Checker()
    U = universe()
    for a in U:
        if not (unite_values(a, a) == a or same_set(leaves(unite_values(a, a)), leaves(a))):
            return f"unite_values(a, a) != a for a = {a}"
        if not same_set(leaves(unite_values(a, NO_RETURN_VALUE)), leaves(a)) or not same_set(leaves(unite_values(NO_RETURN_VALUE, a)), leaves(a)):
            return f"Never is not an identity for {a}: {unite_values(a, NO_RETURN_VALUE)}"
    from pyanalyze.value import TypedDictValue, TypedDictEntry, TypedValue, KnownValue
    reordered = [(TypedDictValue({"x": TypedDictEntry(TypedValue(int)), "y": TypedDictEntry(TypedValue(str))}), TypedDictValue({"y": TypedDictEntry(TypedValue(str)), "x": TypedDictEntry(TypedValue(int))})),
                 (MultiValuedValue([U[5], U[6]]), MultiValuedValue([U[5], U[6]]))]
    for a, b in list(itertools.product(U, repeat=2)) + reordered:
        if a == b:
            try:
                ha, hb = hash(a), hash(b)
                for x in (a, b):
                    if isinstance(x, KnownValue):
                        hash(x.val)   # literals of unhashable objects hash by identity (the union code compares them with == explicitly): not claimed
            except TypeError:
                continue
            if ha != hb:
                return f"equal values hash differently: {a!r} == {b!r}, so a union of the two keeps both and {{a, b}} has two elements"
            if len(leaves(unite_values(a, b))) != len(leaves(a)):
                return f"unite_values of two equal values keeps both: unite_values({a}, {b}) = {unite_values(a, b)}"
    for a, b in itertools.product(U, repeat=2):
        u = unite_values(a, b)
        if isinstance(u, MultiValuedValue) and any(isinstance(m, MultiValuedValue) for m in u.vals):
            return f"nested union: unite_values({a}, {b}) = {u!r}"
        want = leaves(a) + leaves(b)
        if not same_set(leaves(u), want):
            return f"unite_values({a}, {b}) = {u}: members {list(map(str, leaves(u)))} differ from the members of the operands {list(map(str, want))}"
        if not same_set(leaves(u), leaves(unite_values(b, a))):
            return f"not commutative up to ==: {a}, {b}"
        for op in (a, b):
            if not u.is_assignable(op, ctx) and not isinstance(op, AnyValue):
                return f"unite_values({a}, {b}) = {u} does not accept its operand {op}"
        # order: first-occurrence order of the flattened operands (C10)
        seen = []
        for x in want:
            if not any(x is y or (x == y and _hash_eq(x, y)) for y in seen):
                seen.append(x)
        if [str(x) for x in leaves(u)] != [str(x) for x in seen]:
            return f"unite_values({a}, {b}) = {u}: member order {list(map(str, leaves(u)))} is not the first-occurrence order {list(map(str, seen))}"
    for a, b, c in itertools.product(U[:8] + U[11:15], repeat=3):
        if not same_set(leaves(unite_values(unite_values(a, b), c)), leaves(unite_values(a, unite_values(b, c)))):
            return f"not associative up to ==: {a}, {b}, {c}"
    for v in U:
        fl = list(flatten_values(v))
        if any(isinstance(m, MultiValuedValue) for m in fl):
            return f"flatten_values({v}) yields a union"
    return None


def _hash_eq(x, y):
    try:
        return hash(x) == hash(y)
    except TypeError:
        return False


def search_subst():
    """substitution: identity on values without type variables, replaces every occurrence, commutes with uniting"""
    from typing import TypeVar
    from pyanalyze.value import (AnnotatedValue, GenericValue, KnownValue, MultiValuedValue, SequenceValue, SubclassValue, TypedValue, TypeVarValue,
                                 TypedDictValue, TypedDictEntry, DictIncompleteValue, KVPair, unite_values)
    T, U = TypeVar("T"), TypeVar("U")
    tv, uv = TypeVarValue(T), TypeVarValue(U)
    closed = universe() + [SubclassValue(TypedValue(int), exactly=True), SubclassValue(TypedValue(str)),
                           TypedDictValue({"a": TypedDictEntry(TypedValue(int), required=False, readonly=True)}, extra_keys=TypedValue(str), extra_keys_readonly=True),
                           DictIncompleteValue(dict, [KVPair(KnownValue("k"), TypedValue(int), is_required=False)]),
                           SequenceValue(list, [(True, TypedValue(int))])]
    # callables whose fallback type is not the default (nested defs are FunctionType-backed), bound-method shaped values
    import types
    from pyanalyze.signature import Signature, SigParameter, ParameterKind
    from pyanalyze.value import CallableValue
    sig0 = Signature.make([SigParameter("x", ParameterKind.POSITIONAL_OR_KEYWORD, annotation=TypedValue(int))], TypedValue(str))
    closed += [CallableValue(sig0, types.FunctionType), CallableValue(sig0)]
    maps = [{}, {T: TypedValue(int)}, {T: TypedValue(str), U: KnownValue(1)}]
    for v in closed:
        for m in maps:
            r = v.substitute_typevars(m)
            if not (r == v) or str(r) != str(v):
                return f"substitute_typevars({m}) is not the identity on {v!r} (no type variables): got {r!r}"
    opened = [tv, GenericValue(list, [tv]), SequenceValue(tuple, [(False, tv), (True, uv)]), MultiValuedValue([tv, TypedValue(int)]),
              SubclassValue(tv, exactly=True), SubclassValue(tv), AnnotatedValue(tv, [uv]), GenericValue(dict, [tv, uv]),
              TypedDictValue({"a": TypedDictEntry(tv, required=False)}), DictIncompleteValue(dict, [KVPair(tv, uv, is_required=False)]),
              TypedDictValue({"first": TypedDictEntry(tv)}, extra_keys=uv), TypedDictValue({}, extra_keys=GenericValue(list, [tv]), extra_keys_readonly=True)]
    m = {T: TypedValue(int), U: TypedValue(str)}
    for v in opened:
        r = v.substitute_typevars(m)
        parts = list(r.walk_values()) + (list(r.extra_keys.walk_values()) if getattr(r, "extra_keys", None) is not None else [])
        if any(isinstance(w, TypeVarValue) for w in parts):
            return f"substitute_typevars left a type variable in {r!r} (from {v!r})"
        if type(r) is not type(v) and not isinstance(v, (TypeVarValue, MultiValuedValue)):
            return f"substitute_typevars changed the kind of {v!r}: {r!r}"
        for attr in ("exactly", "extra_keys_readonly"):
            if hasattr(v, attr) and hasattr(r, attr) and getattr(v, attr) != getattr(r, attr):
                return f"substitute_typevars changed .{attr} of {v!r}: {r!r}"
    # substituting an (annotated) union for a type variable inside a union: the result is never nested and is the union of the
    # substituted operands
    from pyanalyze.value import CustomCheckExtension
    from pyanalyze.extensions import CustomCheck
    ann_union = AnnotatedValue(MultiValuedValue([TypedValue(int), TypedValue(str)]), [CustomCheckExtension(CustomCheck())])
    for inner in (ann_union, MultiValuedValue([TypedValue(int), KnownValue(None)])):
        for v in (MultiValuedValue([tv, KnownValue(None)]), MultiValuedValue([TypedValue(bytes), tv])):
            r = v.substitute_typevars({T: inner})
            if isinstance(r, MultiValuedValue) and any(isinstance(x, MultiValuedValue) or (isinstance(x, AnnotatedValue) and isinstance(x.value, MultiValuedValue)) for x in r.vals):
                return f"({v}).substitute_typevars({{T: {inner}}}) = {r!r} has a nested union member"
            want = unite_values(*[x.substitute_typevars({T: inner}) for x in v.vals])
            if not same_set(leaves(r), leaves(want)):
                return f"({v}).substitute_typevars({{T: {inner}}}) = {r}, the union of the substituted operands is {want}"
    for a, b in itertools.product(opened[:6], repeat=2):
        lhs = unite_values(a, b).substitute_typevars(m)
        rhs = unite_values(a.substitute_typevars(m), b.substitute_typevars(m))
        if not same_set(leaves(lhs), leaves(rhs)):
            return f"substitution does not commute with uniting for {a}, {b}: {lhs} vs {rhs}"
    return None


def r_c14(rec):
    for fn in (search, search_subst):
        msg = fn()
        if msg:
            return True, msg
    return False, "union and substitution laws hold natively on the value universe"


def _old_r_c14(rec):
    msg = search()
    if msg:
        return True, msg
    return False, "union laws hold natively on the value universe (16 values, all pairs, triples over 10)"


REPLAYERS = {"C14.bounded": r_c14}
REPLAYERS.update({q: r_c14 for q in ("pyanalyze.value.unite_values", "pyanalyze.value.flatten_values", "pyanalyze.value.MultiValuedValue.__post_init__",
                                "pyanalyze.value._is_unreachable", "pyanalyze.value.is_union")})

if __name__ == "__main__":
    print(search())

"""In-process checking of a source string with the real NameCheckVisitor (the way the project's tests do)."""
import contextlib
import io
import os
import sys
import types

_counter = [0]


def make_checker(settings=None):
    """a Checker configured as check_code configures its own (to be shared between several check_code calls)"""
    from pyanalyze.error_code import ErrorCode, DISABLED_IN_TESTS
    from pyanalyze.name_check_visitor import NameCheckVisitor
    default_settings = {c: c not in DISABLED_IN_TESTS for c in ErrorCode}
    if settings:
        default_settings.update(settings)
    return NameCheckVisitor.prepare_constructor_kwargs({"settings": default_settings})["checker"]


def check_code(code: str, settings=None, apply_changes=False, **kwargs):
    """-> list of failures (dicts with lineno, code, description) for the module source `code`"""
    import ast
    from pyanalyze.error_code import ErrorCode, DISABLED_IN_TESTS
    from pyanalyze.name_check_visitor import NameCheckVisitor
    from pyanalyze.checker import Checker
    from pyanalyze.options import Options
    _counter[0] += 1
    mod = types.ModuleType(f"verif_mod_{_counter[0]}")
    mod.__file__ = f"/tmp/verif_mod_{_counter[0]}.py"
    import linecache
    linecache.cache[mod.__file__] = (len(code), None, code.splitlines(True), mod.__file__)  # inspect.getsource for @evaluated
    with contextlib.redirect_stderr(io.StringIO()), contextlib.redirect_stdout(io.StringIO()):
        exec(compile(code, mod.__file__, "exec"), mod.__dict__)
        sys.modules[mod.__name__] = mod
        default_settings = {c: c not in DISABLED_IN_TESTS for c in ErrorCode}
        if settings:
            default_settings.update(settings)
        kw = dict(kwargs)
        kw["settings"] = default_settings
        kw = NameCheckVisitor.prepare_constructor_kwargs(kw)
        tree = ast.parse(code)
        v = NameCheckVisitor(mod.__file__, code, tree, module=mod, **kw)
        try:
            res = v.check_for_test(apply_changes=apply_changes)
        finally:
            sys.modules.pop(mod.__name__, None)
    return res
